#!/bin/sh
# Build step after a fresh restore (offline): syntax-check every specification and byte-compile the harness.
set -e
cd "$(dirname "$0")"
mkdir -p evidence
T=$(mktemp -d)
trap 'rm -rf "$T"' EXIT
for f in spec/*.tla; do
  [ -e "$f" ] || continue
  (cd spec && tla-sany "$(basename "$f")" > "$T/sany.out" 2>&1) || { cat "$T/sany.out"; echo "SANY failed on $f"; exit 1; }
done
/venv/bin/python -m compileall -q harness check >/dev/null
echo setup ok
