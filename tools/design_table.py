#!/venv/bin/python
"""Rewrites the two measured columns of the per-property table in DESIGN.md (section 5) from evidence/<id>.json."""
import json
import os
import re

HERE = os.path.dirname(os.path.dirname(os.path.abspath(__file__)))


def k(n):
    n = int(n)
    return '%.1f M' % (n / 1e6) if n >= 1000000 else '%d k' % round(n / 1000) if n >= 10000 else '%.1f k' % (n / 1000) if n >= 1000 else str(n)


def main():
    p = os.path.join(HERE, 'DESIGN.md')
    s = open(p).read()
    out = []
    for line in s.split('\n'):
        m = re.match(r'^\| (C\d\d) \| ', line)
        cells = line.split(' | ')
        f = os.path.join(HERE, 'evidence', '%s.json' % m.group(1)) if m else None
        if m and len(cells) == 5 and os.path.exists(f) and cells[4].rstrip(' |').endswith('s'):
            e = json.load(open(f))
            if e.get('tier') == 'quick':
                c = e['coverage']
                cells[3] = '%s / %s' % (k(c.get('states', 0)), k(c.get('traces_validated_against_impl', c.get('evaluations', 0))))
                cells[4] = '%d s |' % round(e['wall_s'])
                line = ' | '.join(cells)
        out.append(line)
    open(p, 'w').write('\n'.join(out))


if __name__ == '__main__':
    main()
