#!/venv/bin/python
"""Confirm a seeded breaking change and run the checks against it.

usage: tools/seed_eval.py [--scratch] <property id> <n> [check ids ...]     (source: /tmp/seed/<pid>_out/<n>/{patch.diff,demo.py,notes.md})
   --scratch: step 2 runs the checks against the patched scratch copy (VERIF_REPO_SRC) instead of patching /repo itself: the same
              code under test, but several evaluations can run side by side (used for the mass re-evaluation after /repo moved on)

1. in a scratch worktree of /repo (outside /repo and /verif, removed afterwards): demo passes on the unmodified tree, the patch
   applies, the repository's test-suite still passes (186) with it, the demo fails with it;
2. the patch is applied to /repo itself (git apply), the given checks (default: the property's own) are run, and the patch is undone
   straight afterwards (git checkout -- .);
3. everything is kept under /verif/seeded/<pid>_<n>/ with meta.json.
"""
import json
import os
import shutil
import subprocess
import sys
import time

VERIF = os.path.dirname(os.path.dirname(os.path.abspath(__file__)))
PY = '/venv/bin/python'


def sh(cmd, cwd=None, env=None, timeout=3600):
    e = dict(os.environ)
    if env:
        e.update(env)
    p = subprocess.run(cmd, shell=True, cwd=cwd, env=e, stdout=subprocess.PIPE, stderr=subprocess.STDOUT, text=True, timeout=timeout)
    return p.returncode, p.stdout


def main():
    scratch_mode = '--scratch' in sys.argv
    argv = [a for a in sys.argv[1:] if a != '--scratch']
    pid, n = argv[0], argv[1]
    checks = argv[2:] or [pid]
    src = '/tmp/seed/%s_out/%s' % (pid, n)
    dest = os.path.join(VERIF, 'seeded', '%s_%s' % (pid, n))
    patch = os.path.join(src, 'patch.diff')
    if os.path.exists(os.path.join(dest, 'patch.diff')):          # once kept under /verif/seeded, that copy is the one that counts
        src = dest
        patch = os.path.join(src, 'patch.diff')
    scratch = '/tmp/seedchk_%s_%s' % (pid, n)
    sh('git -C /repo worktree remove --force %s' % scratch)
    rc, out = sh('git -C /repo worktree add --detach %s HEAD' % scratch)
    meta = {'property': pid, 'source': 'independent sub-agent given only the property text', 'verified': {}, 'checks': {}}
    try:
        env = {'PYTHONPATH': scratch + '/src'}
        rc0, o0 = sh('%s %s/demo.py' % (PY, src), cwd=scratch, env=env, timeout=600)
        meta['verified']['demo_on_unmodified_exit'] = rc0
        rca, oa = sh('git apply %s' % patch, cwd=scratch)
        meta['verified']['patch_applies'] = rca == 0
        rct, ot = sh('%s -m pytest -q -p no:cacheprovider --timeout=900 --continue-on-collection-errors 2>&1 | tail -1' % PY, cwd=scratch, env=env)
        meta['verified']['test_suite_with_patch'] = ot.strip()
        rc1, o1 = sh('%s %s/demo.py' % (PY, src), cwd=scratch, env=env, timeout=600)
        meta['verified']['demo_with_patch_exit'] = rc1
        meta['verified']['demo_output_tail'] = o1[-600:]
        if scratch_mode and rca == 0:
            for c in checks:
                t0 = time.time()
                rc, out = sh('./check %s --tier quick' % c, cwd=VERIF, env={'VERIF_EVIDENCE_DIR': scratch + '/evidence-scratch', 'VERIF_REPO_SRC': scratch + '/src'})
                viol = [l for l in out.splitlines() if l.startswith('VIOLATION')]
                first = [l for l in out.splitlines() if l.startswith(('DIVERGENCE', 'MISMATCH', 'TLC:', 'TRACE'))][:2]
                meta['checks'][c] = {'exit': rc, 'violation_lines': len(viol), 'first': first, 'wall_s': round(time.time() - t0, 1), 'mode': 'scratch copy'}
    finally:
        sh('git -C /repo worktree remove --force %s' % scratch)
    ok = meta['verified'].get('demo_on_unmodified_exit') == 0 and meta['verified'].get('patch_applies') and \
        '186 passed' in meta['verified'].get('test_suite_with_patch', '') and meta['verified'].get('demo_with_patch_exit') not in (0, None)
    meta['confirmed'] = bool(ok)
    print('confirmed' if ok else 'NOT CONFIRMED', json.dumps(meta['verified'])[:600])
    if ok and scratch_mode:
        for c, v in meta['checks'].items():
            print(c, 'exit', v['exit'], 'violations', v['violation_lines'], v['first'][:1])
    if not ok:
        meta['checks'] = {}
    if ok and not scratch_mode:
        rc, out = sh('git -C /repo status --porcelain')
        assert out.strip() == '', '/repo is not clean: %s' % out
        rca, oa = sh('git -C /repo apply %s' % patch)
        try:
            for c in checks:
                t0 = time.time()
                rc, out = sh('./check %s --tier quick' % c, cwd=VERIF, env={'VERIF_EVIDENCE_DIR': '/tmp/seedchk_evidence'})
                viol = [l for l in out.splitlines() if l.startswith('VIOLATION')]
                first = [l for l in out.splitlines() if l.startswith(('DIVERGENCE', 'MISMATCH', 'TLC:', 'TRACE'))][:2]
                meta['checks'][c] = {'exit': rc, 'violation_lines': len(viol), 'first': first, 'wall_s': round(time.time() - t0, 1)}
                print(c, 'exit', rc, 'violations', len(viol), first[:1])
        finally:
            sh('git -C /repo checkout -- .')
        rc, out = sh('git -C /repo status --porcelain')
        assert out.strip() == '', '/repo not restored: %s' % out
    os.makedirs(dest, exist_ok=True)
    for f in ('patch.diff', 'demo.py', 'notes.md'):
        if os.path.exists(os.path.join(src, f)) and src != dest:
            shutil.copy(os.path.join(src, f), dest)
    try:
        meta['needs'] = open(os.path.join(dest, 'notes.md')).read()[:1500]
    except OSError:
        pass
    meta['ran'] = 'tools/seed_eval.py %s%s %s %s' % ('--scratch ' if scratch_mode else '', pid, n, ' '.join(checks))
    # keep the history of evaluations (the repository and the checks both move on)
    head = sh('git -C /repo log --format=%h -1')[1].strip()
    runs = []
    try:
        runs = json.load(open(os.path.join(dest, 'meta.json'))).get('runs', [])
    except (OSError, ValueError):
        pass
    runs.append({'repo_head': head, 'confirmed': meta['confirmed'], 'checks': {c: v['exit'] for c, v in meta['checks'].items()}})
    meta['runs'] = runs
    if not meta['confirmed'] and any(r['confirmed'] for r in runs):
        meta['note'] = 'the patch was confirmed against an earlier /repo HEAD; it no longer applies or no longer breaks at the current HEAD'
    json.dump(meta, open(os.path.join(dest, 'meta.json'), 'w'), indent=1)
    return 0


if __name__ == '__main__':
    sys.exit(main())
