#!/venv/bin/python
"""Regenerates MANIFEST.json from the table below (run by hand after adding a check)."""
import json
import os

HERE = os.path.dirname(os.path.dirname(os.path.abspath(__file__)))
props = [json.loads(l) for l in open(os.path.join(HERE, 'properties.jsonl'))]

CORE_NOTE = ('Trusted base: TLC; the single-stepping event loop harness/vloop.py; the projection harness/core_real.py. Bounded: program '
             'family x <=K requests x <=1 re-entrant request. Transfer to the implementation is by replaying every behaviour of the '
             'dumped TLC state graph into the real plumpy.Process and comparing public projection + event log after every action; '
             'plus random behaviours from tlc -simulate with a request budget far beyond the exhaustive bound (K+6 quick / K+12 thorough), '
             'invariants evaluated on the way, each replayed the same way.')
SIM = ' + tlc -simulate deep behaviours replayed'
SUITE = ' + trace validation of every Process of the repository test-suite against ObservableTrace.tla'

CHECKS = {
    'C01': dict(engine='ProcessCore', technique='TLA+ ProcessCore/ProcessProps, TLC exhaustive (invariant C01_Lifecycle, action property C01_TerminalFinal) + replay of all TLC behaviours into the real Process',
                text='TLC visits every interleaving of <=K requests (incl. requests and late callbacks after termination) with the program family; every behaviour of the K=2 graph (K=3 thorough) is replayed into the real code with state/outcome compared after each action.',
                ref='5 C01', note=CORE_NOTE),
    'C02': dict(engine='ProcessCore', technique='TLA+ ProcessCore/ProcessProps, TLC exhaustive (C02_* invariants) + replay of all TLC behaviours, accessor families compared',
                text='Agreement of future/result/successful/killed_msg/exception, single terminal notification, cleanup once, closed, stepping task returned: invariants over every reachable state; the real accessors are read after every replayed action. Includes the stepping task cancelled by its owner while parked at the pause gate (EnvTaskCancel), then kill/fail/play/resume.',
                ref='5 C02', note=CORE_NOTE),
    'C03': dict(engine='ProcessCore', category='fault_enumeration',
                technique='TLA+ ProcessFaults (fault plans + lockstep twin), TLC exhaustive over hook x occurrence x scenario, every faulty behaviour replayed into the real Process',
                text='Complete enumeration of 32 hook points x occurrence 1..3 x scenario programs x <=K requests with one injected fault; outcome by hook class (user code -> EXCEPTED(F) closed, future raises F, task returns; listener -> state equal to a twin run; pause/play hook -> reported to requester, process live and killable); faults during construction (on_create, the first announcement) are part of the model: the exception reaches the caller and no process exists.',
                ref='5 C03', note=CORE_NOTE + ' Faults are raised after the base implementation of a hook.'),
    'C04': dict(engine='ProcessCore', technique='TLA+ ProcessCore/ProcessProps, TLC exhaustive (KillNoRaise, KillNotLost, KillReply, KillText, KillFromAnywhere = Drain(Kill(S)) in every live state) + replay',
                text='Includes a process whose stepping task was cancelled at the pause gate (EnvTaskCancel): it can still be killed. Every placement of <=K kill/pause/play/resume/cancel requests and a re-entrant kill from listeners; kill futures and is_killing compared on the real process.',
                ref='5 C04', note=CORE_NOTE),
    'C05': dict(engine='ProcessCore', technique='TLA+ ProcessCore/ProcessProps, TLC exhaustive (NoStepWhilePaused, PlayWins, StepsPrefix/Transparent against the reference run computed in TLA+) + replay',
                text='Every placement of <=K pause/play/resume requests; executed step sequence, arguments, status at step entry, outputs and outcome equal the uninterrupted run.',
                ref='5 C05', note=CORE_NOTE),
    'C06': dict(engine='ProcessCore', technique='TLA+ ProcessCore/ProcessProps, TLC exhaustive (NoLostWakeup at quiescence, ResumeValue) + replay',
                text='Every order of resume(v)/resume(v2)/resume() against pause/play/kill for waiting programs.',
                ref='5 C06', note=CORE_NOTE + ' Awaited futures and children: the awaitables extension of ProcessCore (C06_NoLostCompletion).'),
    'C13': dict(engine='ProcessCore', technique='TLA+ ProcessCore/ProcessProps, TLC exhaustive (C13_Continuation, C13_Outcome, ResumeValue) + replay with recorded (args, kwargs)',
                text='Every command (Continue with args/kwargs, Wait+resume value, Stop, UnsuccessfulResult, Kill, raise) in chains of <=3 steps; the continuation records what it received.',
                ref='5 C13', note=CORE_NOTE),
    'C07': dict(engine='ProcessCore', technique='TLA+ ProcessCore Persist/Restore (C07_SaveLoadSave) + Outline SaveStepper/LoadStepper (C08_RoundTrip), TLC enumerates every save point; each exercised on real Bundle through copy/pickle/YAML',
                text='Every state entry and paused point of every program and sampled outline, the terminated process, and a process whose future was cancelled, is a save point; default, custom and alternating object loaders through one shared load context; checkpoints also kept by the two persisters with the instance abandoned later; bundle -> medium -> unbundle -> bundle compared key by key; loaded process accessors compared with the original and with the specification state after Restore.',
                ref='5 C07', note=CORE_NOTE + ' TLA+ does not model pickle/YAML: medium fidelity is established only for the bundles of the enumerated points.'),
    'C08': dict(engine='ProcessCore+Outline', technique='TLA+ ProcessCore save/restore actions (C08_Equivalent vs reference run) + Outline CrashRestore (C09_Finished under crash sets), TLC exhaustive + replay with real Bundle/unbundle in fresh loops',
                text='Every placement of <=K save/restore/resume actions and checkpoints at the k-th state entry for process programs; every crash set of <=M unit boundaries for every (outline, oracle), the instance abandoned 0-2 units after the checkpoint and the same checkpoint loaded up to three times in a row (Outline Lag/Reloads); executed steps, outputs, ctx trace, final state and result equal the uninterrupted run.',
                ref='5 C08', note=CORE_NOTE),
    'C09': dict(engine='Outline', technique='TLA+ Outline: stepper tree small-step (mirrors workchains.py) refines BigStep structured semantics, TLC on every outline x oracle; each instance run on a generated real WorkChain',
                text='Every outline with <=N nodes nested <=D x every predicate oracle x steps that hand an awaitable to the context (by to_context or in the returned ToContext) and return any value; ordered call trace per RUNNING state, which units end in a Wait, and result() equal the TLA+ values.',
                ref='5 C09', note='Trusted base: TLC, harness/outline_real.py (class generator, unit-by-unit runner).'),
    'C10': dict(engine='ProcessCore', technique='TLA+ ProcessCore awaitables extension (workchains.Waiting enter/exit/_awaitable_done), TLC exhaustive (C10_Barrier, C10_FailureStops) + replay on real WorkChains with futures and launched children',
                text='<=3 awaited items x registration way x outcome {ok, fails, killed} x every completion order and grouping into loop iterations x pause/play/kill placements (also a pause issued while the workchain enters WAITING); the step after the barrier records which futures are done and the ctx; plus the barrier inside if_/while_ bodies (module Outline: units ending in a Wait).',
                ref='5 C10', note=CORE_NOTE),
    'C11': dict(engine='Ports', technique='TLA+ Ports: operational PreProcess/Validate/ValidatePorts/ValidateDynamicPorts/OnCreate (mirror of ports.py, processes.py) vs declarative Completed/Accepts, TLC on every (tree, input) instance; every instance constructed on a fresh real Process subclass',
                text='Port trees with all attribute combinations for one port and small variants up to 3 (4 thorough) ports x every nested input over {absent, 0, -1, "s", "", {}, nested dicts}; constructor raise/no raise, inputs leaf for leaf, read-only at every declared level, raw_inputs and the caller dict unchanged.',
                ref='5 C11', note='Trusted base: TLC, harness/ports_real.py. Raise/no-raise is compared, not the exception type.'),
    'C12': dict(engine='Ports', technique='TLA+ Ports: operational OutCall/GetPort/StoreOut/OnFinishValidate vs declarative OutputAccepts/OutputsSatisfy, TLC on every (output tree, out() call sequence); every instance run on real processes (also two successive instances of one class)',
                text='Output trees x sequences of <=2 (3 thorough) out(path, value) calls incl. nested and dynamic paths: exception type per call, outputs after each call, on_output_emitted arguments, future result, is_successful, result().',
                ref='5 C12', note='Trusted base: TLC, harness/ports_real.py.'),
    'C14': dict(engine='Persister', technique='TLA+ Persister: abstract (pid,tag)->snapshot store with in-memory and pickle-file refinements in lockstep (AbsMem, AbsFiles, contracts, Equivalent), TLC over every history of <=L operations; histories replayed on both real persisters side by side',
                text='Every history of <=4 (6 thorough) save/load/list/delete/delete-pid/progress/resume operations over 2 processes x tags, id kinds int/UUID/string with prefix pairs; results, exception classes and decoded bundles compared with the model store and with each other, also after the live and the recreated process moved on.',
                ref='5 C14', note='Trusted base: TLC, harness/persister_real.py; pickle directory in a temp dir removed per history.'),
    'C19': dict(engine='Savable', technique='TLA+ Savable: python heap model, operational Save/Load/EnsureLoader (mirror of persistence.py) vs declarative RoundTrip/CopiedAtSave/MethodsRebound/FutureState/LoaderPrecedence, TLC on every class shape x member kinds x loader configuration; every instance executed on real generated classes',
                text='Inheritance chains of <=3 classes x auto_persist subsets x 9 member kinds (values, methods, nested Savables to depth 2, futures in four states) x 4 loader configurations x unknown-class flavours; members, rebinding, nesting, future states, second save and resolving loader compared with the TLA+ values.',
                ref='5 C19', note='Trusted base: TLC, harness/savable_real.py; copy.deepcopy semantics assumed for the value domain.'),
    'C15': dict(engine='Expose', technique='TLA+ Expose: operational Absorb/ExposePorts (mirror of ports.py/process_spec.py, allocation ids) vs declarative Selected/NsProps/Independent, TLC on every (tree, rules, namespace, options) instance; each instance and every single mutation executed on real ProcessSpec objects',
                text='Source trees with <=4 (5 thorough) ports and string-prefix name pairs x every include/exclude antichain x target namespaces x namespace_options; destination tree, descriptions, exposed-port memory and aliasing compared with the TLA+ result; every single mutation of either side checked for independence.',
                ref='5 C15', note='Trusted base: TLC, harness/expose_real.py. Namespace defaults that are mutable objects mutated in place, and non-atomic refusals, are outside the universe (stated in the evidence).'),
    'C16': dict(engine='ProcessCore', technique='TLA+ ProcessCore comms extension (message_receive/broadcast_receive/_schedule_rpc reply tasks, state_changed announcements) + ProcessFaults twin for broadcast failures, TLC exhaustive + replay through an in-process communicator',
                text='Every sequence of <=K RPC/broadcast control messages (also mixed with direct calls) between any two callbacks: state, replies and event log equal the specification in which the handler applies the direct-call operator; announcements once and in order; tolerated broadcast failures leave the run identical to a fault-free twin; unsubscribed after termination; the two subscriptions made at construction fail independently (time-out tolerated, anything else propagates); a process closed by hand keeps announcing the transitions it still makes.',
                ref='5 C16', note=CORE_NOTE + ' RabbitMQ is replaced by an in-process kiwipy.LocalCommunicator subclass.'),
    'C17': dict(engine='Launcher', technique='TLA+ Launcher: operational mirror of ProcessLauncher.__call__/_launch/_continue/_create over an abstract persister, 8 invariants + 7 action properties (CreateOK, LaunchOK, ContinueOK, NowaitReply, RejectOK, LoaderUsed ...), TLC over every history of <=K tasks; every behaviour replayed on the real launcher (direct and through controllers + LoopCommunicator)',
                text='Histories of <=2 (3 thorough) create/launch/continue/unknown tasks x persist x nowait x tag x 3 process classes x {no, in-memory, pickle} persister x {default, custom} loader; replies, persister content, constructed processes and their step traces, loader resolutions compared after every action.',
                ref='5 C17', note='Trusted base: TLC, harness/launcher_real.py (in-process communicator with kiwipy.rmq conventions).'),
    'C18': dict(engine='Scope', technique='TLA+ Scope: contexts (copy at task creation / call_soon), tasks, ready queue, process programs with awaits, children, call_soon, nested execute; TLC exhaustive (CurrentIsRunning, Restored, Balanced, DefaultIntact) over completion orders; every behaviour replayed on real processes (vloop in-process, nested execution in child interpreters on the nest_asyncio loop)',
                text='<=2 (3-5 thorough) processes with <=2 await points, a launched child, call_soon callbacks, control calls, re-entrant execute; Process.current() sampled in step bodies, 16 lifecycle hooks, listeners and callbacks, plus an observer between handles.',
                ref='5 C18', note='Trusted base: TLC, harness/scope_real.py, nest_asyncio 1.6 batch semantics for the idle mode.'),
    'C20': dict(engine='Adapters', technique='TLA+ Adapters (futures, ready queue, synchronous kiwipy callbacks), TLC exhaustive (Faithful, ExactlyOnce, ActionOnce, Stable) + replay of every behaviour on the real adapters + validation of message_receive traces',
                text='Chains of futures resolving to futures to depth 2 (4 thorough), every outcome at every level in every completion order, for create_task, plum_to_kiwi_future, unwrap_kiwi_future, their composition, convert_to_comm (RPC subscribers; filtered broadcast subscribers called by position or keyword), _schedule_rpc replies and CancellableAction histories (also functions that cancel their own action); the caller on another event loop than the target.',
                ref='5 C20', note='Trusted base: TLC, harness/vloop.py, harness/adapters_real.py. Real cross-thread delivery is not explored.'),
}

PENDING = 'check not built yet (work in progress; see DESIGN.md section 12)'

m = {
    'version': 1,
    'setup_cmd': './setup.sh',
    'hooks': {
        'guard': 'PLUMPY_VERIF',
        'enable': 'no source hooks: the harness wraps plumpy at run time inside its own interpreter (PLUMPY_VERIF is reserved, set by ./check)',
        'baseline_off_cmd': 'cd /repo && /venv/bin/python -m pytest -ra -q -p no:cacheprovider --timeout=900 --continue-on-collection-errors',
        'source_commits': [],
        'add_only': True,
    },
    'engines': [
        {'name': 'ProcessCore', 'path': 'spec/ProcessCore.tla', 'serves_properties': ['C01', 'C02', 'C03', 'C04', 'C05', 'C06', 'C07', 'C08', 'C10', 'C13', 'C16'],
         'kind_free_text': 'explicit TLA+ specification of the process control protocol + TLC + graph replay (harness/core_*.py)'},
        {'name': 'Outline', 'path': 'spec/Outline.tla', 'serves_properties': ['C09', 'C08', 'C07'],
         'kind_free_text': 'explicit TLA+ specification of the WorkChain outline interpreter (stepper tree vs structured semantics, stepper persistence)'},
        {'name': 'Expose', 'path': 'spec/Expose.tla', 'serves_properties': ['C15'],
         'kind_free_text': 'explicit TLA+ specification of PortNamespace.absorb / ProcessSpec.expose_* (operational vs declarative)'},
        {'name': 'Persister', 'path': 'spec/Persister.tla', 'serves_properties': ['C14'], 'kind_free_text': 'explicit TLA+ refinement spec of the two persisters'},
        {'name': 'Savable', 'path': 'spec/Savable.tla', 'serves_properties': ['C19'], 'kind_free_text': 'explicit TLA+ spec of Savable save/load over a heap model'},
        {'name': 'Ports', 'path': 'spec/Ports.tla', 'serves_properties': ['C11', 'C12'], 'kind_free_text': 'explicit TLA+ spec of port trees: pre_process/validate/out (operational vs declarative)'},
        {'name': 'Launcher', 'path': 'spec/Launcher.tla', 'serves_properties': ['C17'], 'kind_free_text': 'explicit TLA+ spec of ProcessLauncher tasks over an abstract persister'},
        {'name': 'Scope', 'path': 'spec/Scope.tla', 'serves_properties': ['C18'], 'kind_free_text': 'explicit TLA+ spec of the context-local process stack'},
        {'name': 'Adapters', 'path': 'spec/Adapters.tla', 'serves_properties': ['C20'],
         'kind_free_text': 'explicit TLA+ specification of the future adapters and CancellableAction'},
    ],
    'checks': [],
    'notes': 'Model-based verification with explicit TLA+ specifications (spec/*.tla) checked by TLC and bound to /repo by replay '
             '(spec->code) and trace validation (code->spec). See DESIGN.md. Genuine defects repaired in /repo: see known_findings.json "fixed".',
    'not_applicable': [],
}
for p in props:
    pid = p['id']
    if pid in CHECKS:
        c = dict(CHECKS[pid])
        if c['engine'].startswith('ProcessCore'):
            c['technique'] += SIM
        if pid in ('C01', 'C02', 'C04', 'C05'):
            c['technique'] += SUITE
        m['checks'].append({
            'property_id': pid,
            'quick_cmd': './check %s --tier quick' % pid,
            'thorough_cmd': './check %s --tier thorough' % pid,
            'evidence_file': 'evidence/%s.json' % pid,
            'replay_cmd_template': './check %s --replay {path}' % pid,
            'engine': c['engine'],
            'level_claimed': {'category': c.get('category', 'model_checking'), 'text': c['text'], 'design_ref': c['ref']},
            'level_note': c['note'],
            'technique': c['technique'],
        })
    else:
        m['not_applicable'].append({'property_id': pid, 'reason': PENDING})
json.dump(m, open(os.path.join(HERE, 'MANIFEST.json'), 'w'), indent=1)
try:
    import jsonschema
    jsonschema.validate(m, json.load(open('/root/.vp/MANIFEST.schema.json')))
    print('MANIFEST ok: %d checks, %d not claimed' % (len(m['checks']), len(m['not_applicable'])))
except ImportError:
    pass
