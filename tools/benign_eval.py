#!/venv/bin/python
"""False-alarm battery: behaviour-preserving variants of /repo's source, every quick check run against each.

usage: tools/benign_eval.py [variant ...] [--checks=C01,C02,...]      (default: all variants, all 20 checks)

A variant is a copy of /repo/src under a scratch directory outside /repo and /verif (removed afterwards) with a mechanical,
behaviour-preserving edit; it counts only if the repository's own test-suite still passes on it (186).  The checks are pointed
at the copy with VERIF_REPO_SRC; nothing in /repo is touched.  A check that exits non-zero on a variant is a false alarm of the
machinery (unless the variant is marked `schedule`: it changes where the stepping coroutine yields, which the conformance
comparison tolerates only in part - see DESIGN.md section 6).

variants
  rename    private attributes / local helper names of the process machinery renamed throughout src/plumpy
  reword    sentences in log messages, exception messages and the status text of a cancelled future reworded
  logging   an extra debug log line at the start of every lifecycle hook
  yield     (schedule) `await asyncio.sleep(0)` between two steps of step_until_terminated
"""
import os
import re
import shutil
import subprocess
import sys
import tempfile

VERIF = os.path.dirname(os.path.dirname(os.path.abspath(__file__)))
PY = '/venv/bin/python'
ALL = ['C%02d' % i for i in range(1, 21)]

RENAMES = [('_closed', '_is_closed_flag'), ('_pausing', '_pause_request'), ('_killing', '_kill_request'),
           ('_interrupt_action', '_pending_action'), ('_stepping', '_in_step'), ('_awaitable_done', '_on_awaitable_done'),
           ('_waiting_future', '_wait_future'), ('_pending_wake_up', '_parked_wake_up'), ('try_killing', 'kill_on_cancel'),
           ('_cleanups', '_cleanup_functions'), ('_event_callbacks', '_state_callbacks'), ('_transition_failing', '_failing_transition')]


def files(src):
    for root, _, names in os.walk(os.path.join(src, 'plumpy')):
        for n in names:
            if n.endswith('.py'):
                yield os.path.join(root, n)


def v_rename(src):
    for f in files(src):
        s = open(f).read()
        for a, b in RENAMES:
            s = re.sub(r'\b%s\b' % re.escape(a), b, s)
        open(f, 'w').write(s)


def v_reword(src):
    # sentences (string literals with at least two blanks) handed to a logger or an exception constructor
    pat = re.compile(r"""((?:logger\.\w+|raise \w+(?:\.\w+)*|Error|warning|exception)\(\s*f?)(['"])([^'"\n]*? [^'"\n]*? [^'"\n]*?)\2""")
    for f in files(src):
        s = open(f).read()
        s = pat.sub(lambda m: '%s%s%s (reworded)%s' % (m.group(1), m.group(2), m.group(3), m.group(2)), s)
        s = s.replace("'Killed by future being cancelled'", "'The future of the process was cancelled: killing it'")
        open(f, 'w').write(s)


def v_logging(src):
    f = os.path.join(src, 'plumpy', 'processes.py')
    s = open(f).read()
    s = re.sub(r'(\n    @super_check\n    def (on_\w+)\(self[^\n]*\n(?:        """(?:.|\n)*?"""\n)?)',
               lambda m: m.group(1) + "        self.logger.debug('Process<%%s>: %s', self.pid)\n" % m.group(2), s)
    open(f, 'w').write(s)


def v_yield(src):
    f = os.path.join(src, 'plumpy', 'processes.py')
    s = open(f).read()
    old = "        while not self.has_terminated():\n            await self.step()\n"
    assert s.count(old) == 1
    s = s.replace(old, old + "            await asyncio.sleep(0)\n")
    open(f, 'w').write(s)


VARIANTS = {'rename': (v_rename, False), 'reword': (v_reword, False), 'logging': (v_logging, False), 'yield': (v_yield, True)}


def main():
    args = [a for a in sys.argv[1:] if not a.startswith('--')]
    checks = ALL
    for a in sys.argv[1:]:
        if a.startswith('--checks'):
            checks = a.split('=', 1)[1].split(',')
    rc = 0
    for name in args or list(VARIANTS):
        fn, schedule = VARIANTS[name]
        scratch = tempfile.mkdtemp(prefix='benign-%s-' % name)
        try:
            subprocess.run('git -C /repo archive HEAD src | tar -x -C %s' % scratch, shell=True, check=True)
            src = os.path.join(scratch, 'src')
            fn(src)
            p = subprocess.run('%s -m pytest -q -p no:cacheprovider --timeout=120 --continue-on-collection-errors /repo/tests 2>&1 | tail -1' % PY,
                               shell=True, cwd=scratch, env=dict(os.environ, PYTHONPATH=src), stdout=subprocess.PIPE, text=True)
            if '186 passed' not in p.stdout:
                print('%s: not behaviour-preserving for the test-suite (%s): skipped' % (name, p.stdout.strip()))
                continue
            alarms = []
            for c in checks:
                q = subprocess.run(['./check', c, '--tier', 'quick'], cwd=VERIF, env=dict(os.environ, VERIF_REPO_SRC=src, VERIF_EVIDENCE_DIR=os.path.join(scratch, 'ev')),
                                   stdout=subprocess.PIPE, stderr=subprocess.STDOUT, text=True)
                if q.returncode != 0:
                    alarms.append((c, q.returncode, [l for l in q.stdout.splitlines() if l.startswith(('DIVERGENCE', 'TLC:', 'TRACE'))][:1]))
            print('%s: %d checks, alarms: %s%s' % (name, len(checks), alarms or 'none', ' (schedule variant: alarms expected, see DESIGN.md)' if schedule and alarms else ''))
            if alarms and not schedule:
                rc = 1
        finally:
            shutil.rmtree(scratch, ignore_errors=True)
    return rc


if __name__ == '__main__':
    sys.exit(main())
