#!/venv/bin/python
"""Runs only the `reloads` outline configurations of C08's thorough tier (TLC + replay); prints one line per configuration.
(The complete thorough tier of C08 takes ~45 min; this is the part added in round 4.)"""
import os
import sys
sys.path.insert(0, os.path.dirname(os.path.dirname(os.path.abspath(__file__))))
from harness import outline_check, outline_model as om          # noqa: E402
from harness.checks import c08                                    # noqa: E402

seed = int(os.environ.get('VERIF_SEED', '0'))
cfgs = [('C08_outl_mem_reload', om.sample(om.family(4, 3), 800, seed + 5), om.oracles(4), c08.crash_sets(5, 2), 'mem', 0, 2),
        ('C08_outl_mem_late_reload', om.sample(om.family(4, 3), 600, seed + 7), om.oracles(4), c08.crash_sets(5, 2), 'mem', 1, 1),
        ('C08_outl_pfile_reload', om.sample(om.family(4, 3), 300, seed + 8), om.oracles(4), c08.crash_sets(5, 1), 'pfile', 0, 2),
        ('C08_outl_reload2', om.sample(om.family(4, 3), 600, seed + 6), om.oracles(4), c08.crash_sets(5, 2), 'yaml', 2, 2)]
bad = 0
for name, outl, orc, crashes, medium, lag, reloads in cfgs:
    r = outline_check.model_and_replay(name, outl, orc, crash_sets=crashes, invariants=c08.OUT_INV, medium=medium, lag=lag, reloads=reloads)
    print(name, 'tlc ok' if r['tlc'].ok and not r['tlc'].violated else 'TLC %s' % r['tlc'].violated, 'states', r['tlc'].distinct,
          'behaviours', r['behaviours'], 'mismatches', len(r['mismatches']), flush=True)
    for m in r['mismatches'][:3]:
        print('  ', str(m)[:500])
    bad += len(r['mismatches']) + (0 if r['tlc'].ok and not r['tlc'].violated else 1)
sys.exit(1 if bad else 0)
