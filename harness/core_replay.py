"""Direction P: behaviours of spec/ProcessCore.tla (TLC state graph) replayed into the real plumpy.Process."""
import os

from . import core_model, core_real, tlc

ENV_ACTIONS = {
    'EnvKill': ('kill', 'k1'), 'EnvPause': ('pause', 'p1'), 'EnvPlay': ('play', '-'), 'EnvResume': ('resume', 'v1'),
    'EnvFail': ('fail', 'F'), 'EnvCancel': ('cancel', '-'),
}


def perform(run, action, prev_state, new_state):
    """Perform one specification action on the real process. Returns an error string or None."""
    action, params = split_action(action)
    if action == 'RunHandle':
        want = prev_state['ready'][0]
        got = run.run_handle()
        if got != want:
            return 'specification runs handle %r, implementation has %r' % (want, got)
        return None
    if action == 'EnvCallSoon':
        # the two call_soon kinds share an action name: tell them apart by the handle that was appended
        run.env('cb' + params[0])
        return None
    name, arg = ENV_ACTIONS[action]
    run.env(name, params[0] if params else arg)
    return None


def split_action(label):
    """'EnvKill("k1")' -> ('EnvKill', ['k1'])"""
    if '(' not in label:
        return label, []
    name, rest = label.split('(', 1)
    from . import tlaval
    return name, tlaval.parse('<<' + rest[:-1] + '>>')


def compare(run, state, fields=None):
    """Public projection and event log of the implementation against the specification state."""
    want = core_real.project_model(state['S'])
    got = run.projection()
    diffs = []
    for k in want:
        if fields is not None and k not in fields:
            continue
        if want[k] != got[k]:
            diffs.append((k, want[k], got[k]))
    wlog = core_real.norm(state['S']['log'])
    glog = core_real.norm(run.log)
    if wlog != glog:
        n = 0
        while n < min(len(wlog), len(glog)) and wlog[n] == glog[n]:
            n += 1
        diffs.append(('log[%d]' % n, wlog[n] if n < len(wlog) else None, glog[n] if n < len(glog) else None))
    # the implementation must not have pending work the specification does not know about
    if not state['ready'] and run.next_kind() is not None:
        diffs.append(('ready', [], run.next_kind()))
    return diffs


def replay_path(prog, plan, out_missing, nodes, init, path):
    run = core_real.Run(prog, plan, out_missing)
    prev = nodes[init]
    d = compare(run, prev)
    if d:
        return {'at': 0, 'action': 'Init', 'diffs': d}
    for i, (action, nid) in enumerate(path):
        st = nodes[nid]
        err = perform(run, action, prev, st)
        if err:
            return {'at': i + 1, 'action': action, 'diffs': [('handle', err, None)]}
        d = compare(run, st)
        if d:
            return {'at': i + 1, 'action': action, 'diffs': d}
        prev = st
    return None


def explore_and_replay(name, prog, plan=(), fixes=(), alphabet=core_model.ALL_REQUESTS, k=2, out_missing=False,
                       limit=None, invariants=(), workers=None):
    """TLC on the bounded instance (no VIEW: states are behaviour prefixes), dump, replay every maximal path."""
    cfg_extra = ''.join('INVARIANT %s\n' % i for i in invariants)
    tla, cfg = core_model.mc_module('MC_' + name, prog, plan, fixes, alphabet, k, out_missing, cfg_extra=cfg_extra,
                                    base='ProcessCore')
    with tlc.Workdir() as wd:
        wd.write('MC_%s.tla' % name, tla)
        wd.write('MC_%s.cfg' % name, cfg)
        dot = os.path.join(wd.path, 'graph')
        res = tlc.run(wd, 'MC_%s.tla' % name, 'MC_%s.cfg' % name, args=['-dump', 'dot,actionlabels', dot], workers=workers)
        nodes, edges, inits = tlc.load_dot(dot + '.dot')
    paths = tlc.maximal_paths(edges, inits[0], limit=limit)
    divergent = []
    for p in paths:
        r = replay_path(prog, plan, out_missing, nodes, inits[0], p)
        if r:
            r['path'] = [a for a, _ in p]
            divergent.append(r)
    return {'tlc': res, 'states': len(nodes), 'paths': len(paths), 'divergent': divergent}
