"""Direction P: behaviours of spec/ProcessCore.tla (TLC state graph) replayed into the real plumpy.Process."""
import os

from . import core_model, core_real, tlc

ENV_ACTIONS = {
    'EnvKill': ('kill', 'k1'), 'EnvPause': ('pause', 'p1'), 'EnvPlay': ('play', '-'), 'EnvResume': ('resume', 'v1'),
    'EnvFail': ('fail', 'F'), 'EnvCancel': ('cancel', '-'), 'EnvTaskCancel': ('taskcancel', '-'), 'EnvClose': ('close', '-'),
}


ALIASES = {'FKill': 'EnvKill', 'FPause': 'EnvPause', 'FPlay': 'EnvPlay', 'FResume': 'EnvResume', 'FFail': 'EnvFail',
           'FCallSoon': 'EnvCallSoon', 'FRunHandle': 'RunHandle', 'FRpc': 'EnvRpc'}


def perform(run, action, prev_state, new_state):
    """Perform one specification action on the real process. Returns an error string or None."""
    action, params = split_action(action)
    action = ALIASES.get(action, action)
    if action == 'RunHandle':
        want = prev_state['ready'][0]
        before = want == 'task' or None
        got = run.run_handle()
        if got != want:
            return 'specification runs handle %r, implementation has %r' % (want, got)
        if before is not None:
            # Where the stepping coroutine yields to the loop is an implementation choice no property fixes: while the
            # implementation is merely BEHIND the specification's step (its event log is a proper prefix of the expected
            # one) and its next callback belongs to the stepping task, let the task run on (bounded).  A genuine lack of
            # progress or a different event still shows in the comparison that follows.
            extra = 0
            while extra < 4 and run.next_kind() == 'task':
                wlog, glog = _logs(run, new_state)
                if not (len(glog) < len(wlog) and wlog[:len(glog)] == glog):
                    break
                run.run_handle()
                extra += 1
        return None
    if action in ('EnvRpc', 'EnvBcast'):
        if len(params) == 1:           # FRpc(<<intent, text>>)
            params = params[0]
        run.deliver('rpc' if action == 'EnvRpc' else 'bcast', params[0], params[1])
        return None
    if action == 'EnvComplete':
        run.complete(params[0], params[1][0], params[1][1])
        return None
    if action == 'EnvSave':
        run.snapshot()
        return None
    if action == 'EnvRestore':
        run.restore()
        return None
    if action == 'EnvCallSoon':
        # the two call_soon kinds share an action name: tell them apart by the handle that was appended
        run.env('cb' + params[0])
        return None
    name, arg = ENV_ACTIONS[action]
    run.env(name, params[0] if params else arg)
    return None


def split_action(label):
    """'EnvKill("k1")' -> ('EnvKill', ['k1'])"""
    if '(' not in label:
        return label, []
    name, rest = label.split('(', 1)
    from . import tlaval
    return name, tlaval.parse('<<' + rest[:-1] + '>>')


def _logs(run, state):
    """(expected, observed) event logs, both normalised"""
    # control calls made by the RPC reply task are internal: their effect and their reply are what is observed
    wlog = [e for e in core_real.norm(state['S']['log']) if not (e[0] == 'call' and e[5] == 'rpc')]
    glog = core_real.norm(run.log)
    if not run.use_listener:           # checkpoint runs carry no listener (listeners would be deep-copied into the bundle)
        wlog = [e for e in wlog if e[0] != 'notify']
        glog = [e for e in glog if e[0] != 'notify']
    return wlog, glog


def compare(run, state, fields=None):
    """Public projection and event log of the implementation against the specification state."""
    want = core_real.norm(core_real.project_model(state['S']))
    got = core_real.norm(run.projection())
    diffs = []
    for k in want:
        if fields is not None and k not in fields:
            continue
        if k == 'n2' and got[k] is None:
            continue
        if want[k] != got[k]:
            diffs.append((k, want[k], got[k]))
    wlog, glog = _logs(run, state)
    if wlog != glog:
        n = 0
        while n < min(len(wlog), len(glog)) and wlog[n] == glog[n]:
            n += 1
        diffs.append(('log[%d]' % n, wlog[n] if n < len(wlog) else None, glog[n] if n < len(glog) else None))
    # the implementation must not have pending work the specification does not know about
    if not state['ready'] and run.next_kind() is not None:
        diffs.append(('ready', [], run.next_kind()))
    return diffs


def replay_path(progs, plans, nodes, init, path, run_kw=None):
    S0 = nodes[init]['S']
    pr = progs[S0['pi'] - 1]
    run = core_real.Run(pr['steps'], plans[S0['pl'] - 1], pr['outMissing'], awt=pr.get('awt', ()), **(run_kw or {}))
    prev = nodes[init]
    d = compare(run, prev)
    if d:
        return {'at': 0, 'action': 'Init', 'diffs': d}
    for i, (action, nid) in enumerate(path):
        st = nodes[nid]
        err = perform(run, action, prev, st)
        if err:
            return {'at': i + 1, 'action': action, 'diffs': [('handle', err, None)]}
        # a trailing yield: the specification's task is suspended (or done) while the implementation's still has a callback
        # queued; running it must not change anything observable (the comparison that follows checks that)
        extra = 0
        while extra < 3 and 'task' not in st['ready'] and run.next_kind() == 'task':
            run.run_handle()
            extra += 1
        d = compare(run, st)
        if d:
            return {'at': i + 1, 'action': action, 'diffs': d}
        prev = st
    return None


def explore_and_replay(name, progs, plans=((),), fixes=(), alphabet=core_model.ALL_REQUESTS, k=2,
                       limit=None, invariants=(), workers=None, base='ProcessCore'):
    """TLC on the bounded instance (no VIEW: states are behaviour prefixes), dump, replay every maximal path."""
    cfg_extra = ''.join('INVARIANT %s\n' % i for i in invariants)
    plans = [list(p) for p in plans]
    tla, cfg = core_model.mc_module('MC_' + name, progs, plans, fixes, alphabet, k, cfg_extra=cfg_extra, base=base)
    with tlc.Workdir() as wd:
        wd.write('MC_%s.tla' % name, tla)
        wd.write('MC_%s.cfg' % name, cfg)
        dot = os.path.join(wd.path, 'graph')
        res = tlc.run(wd, 'MC_%s.tla' % name, 'MC_%s.cfg' % name, args=['-dump', 'dot,actionlabels', dot], workers=workers)
        nodes, edges, inits = tlc.load_dot(dot + '.dot')
    npaths = 0
    divergent = []
    for init in inits:
        paths = tlc.maximal_paths(edges, init, limit=limit)
        npaths += len(paths)
        for p in paths:
            r = replay_path(progs, plans, nodes, init, p)
            if r:
                r['path'] = [a for a, _ in p]
                r['prog'] = progs[nodes[init]['S']['pi'] - 1]['name']
                r['plan'] = plans[nodes[init]['S']['pl'] - 1]
                divergent.append(r)
    return {'tlc': res, 'states': len(nodes), 'paths': npaths, 'divergent': divergent}
