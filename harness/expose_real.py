"""Real side of C15: one instance of spec/Expose.tla executed on plumpy's ProcessSpec / PortNamespace.

An instance = (source tree, destination tree, target namespace, include, exclude, namespace_options, io).  It is built
with the public API (ProcessSpec.input / output / input_namespace / output_namespace, property setters), the call is
expose_inputs / expose_outputs, and everything is observed through public accessors: mapping access of a
PortNamespace, name / required / valid_type / help / default / has_default / dynamic / populate_defaults / validator,
get_description().  The only private name read is ProcessSpec._exposed_inputs/_exposed_outputs (the property's
"exposed-port memory" anchor has no public accessor); it is skipped when absent.
"""
import json

from plumpy.ports import UNSPECIFIED, InputPort, OutputPort, PortNamespace
from plumpy.process_spec import ProcessSpec


# ---- tokens <-> python values ----------------------------------------------------------------------------------
def v1(value, port):
    return None


def v2(value, port):
    return None


def v3(value, port):
    return None


VALIDATORS = {'-': None, 'v1': v1, 'v2': v2, 'v3': v3}
VALIDATOR_TOKENS = {id(f): t for t, f in VALIDATORS.items() if f is not None}
TYPES = {'-': None, 'int': int, 'str': str, 'flt': float}
TYPE_TOKENS = {v: k for k, v in TYPES.items()}


def name_of(n):
    return ''.join(n)


def dotted(path):
    return '.'.join(name_of(n) for n in path)


def default_value(tok):
    if tok == '-':
        return UNSPECIFIED
    if tok == 'L':
        return [1]                     # a mutable default: a fresh list per built port
    if tok[0] == 'i':
        return int(tok[1:])
    return (tok,)                      # namespace defaults of the universe are immutable


def default_token(v):
    if v is UNSPECIFIED:
        return '-'
    if isinstance(v, list):
        return 'L' if v == [1] else 'L+' if v == [1, 99] else 'L?%r' % (v,)
    if isinstance(v, bool):
        return repr(v)
    if isinstance(v, int):
        return 'i%d' % v
    if isinstance(v, tuple) and len(v) == 1 and isinstance(v[0], str):
        return v[0]
    return repr(v)


def b(tok):
    return tok == 'T'


def bt(v):
    return 'T' if v is True else 'F' if v is False else repr(v)


def help_value(tok):
    return None if tok == '-' else tok


# ---- description through public accessors ----------------------------------------------------------------------
def describe(port):
    """What can be seen of a (nested) port, in the vocabulary of the model."""
    if isinstance(port, PortNamespace):
        return {'kind': 'ns', 'cls': type(port).__name__, 'name': port.name, 'required': bt(port.required),
                'valid_type': TYPE_TOKENS.get(port.valid_type, repr(port.valid_type)),
                'default': default_token(port.default), 'help': '-' if port.help is None else port.help,
                'dynamic': bt(port.dynamic), 'populate_defaults': bt(port.populate_defaults),
                'validator': '-' if port.validator is None else VALIDATOR_TOKENS.get(id(port.validator), repr(port.validator)),
                'ports': {k: describe(port[k]) for k in port}}
    has = getattr(port, 'has_default', None)
    return {'kind': 'leaf', 'cls': type(port).__name__, 'name': port.name, 'required': bt(port.required),
            'valid_type': TYPE_TOKENS.get(port.valid_type, repr(port.valid_type)),
            'default': default_token(port.default) if has is not None and has() else '-',
            'help': '-' if port.help is None else port.help, 'dynamic': '-', 'populate_defaults': '-',
            'validator': '-' if port.validator is None else VALIDATOR_TOKENS.get(id(port.validator), repr(port.validator)),
            'ports': {}}


def model_desc(node, io):
    """The same description computed from a model node (a dict in the shape of Expose.tla's node record)."""
    if node['kind'] == 'ns':
        cls = 'PortNamespace'
    else:
        cls = 'InputPort' if io == 'in' else 'OutputPort'
    return {'kind': node['kind'], 'cls': cls, 'name': name_of(node['name']), 'required': node['required'],
            'valid_type': node['valid_type'], 'default': node['default'], 'help': node['help'], 'dynamic': node['dynamic'],
            'populate_defaults': node['populate_defaults'], 'validator': node['validator'],
            'ports': {name_of(p['name']): model_desc(p, io) for p in node['ports']}}


def model_get_description(node):
    """What PortNamespace.get_description() / Port.get_description() return for a model node."""
    if node['kind'] == 'ns':
        vt = TYPES[node['valid_type']]
        d = {'_attrs': {'default': default_value(node['default']) if node['default'] != 'L+' else [1, 99],
                        'dynamic': b(node['dynamic']), 'valid_type': str(vt), 'required': str(b(node['required'])),
                        'help': help_value(node['help'])}}
        for p in node['ports']:
            d[name_of(p['name'])] = model_get_description(p)
        return d
    d = {'name': name_of(node['name']), 'required': str(b(node['required']))}
    if node['valid_type'] != '-':
        d['valid_type'] = '%s' % (TYPES[node['valid_type']],)
    if node['help'] != '-':
        d['help'] = node['help'].strip()
    if node['default'] != '-':
        d['default'] = '%s' % (default_value(node['default']),)
    return d


def diff(exp, obs, path=''):
    """Differences of two descriptions: [(path, field, expected, observed)]."""
    out = []
    for k in ('kind', 'cls', 'name', 'required', 'valid_type', 'default', 'help', 'dynamic', 'populate_defaults', 'validator'):
        if exp.get(k) != obs.get(k):
            out.append((path or '<root>', k, exp.get(k), obs.get(k)))
    for k in exp['ports']:
        sub = (path + '.' + k) if path else k
        if k not in obs['ports']:
            out.append((sub, 'present', True, False))
        else:
            out.extend(diff(exp['ports'][k], obs['ports'][k], sub))
    for k in obs['ports']:
        if k not in exp['ports']:
            out.append(((path + '.' + k) if path else k, 'present', False, True))
    return out


# ---- building ----------------------------------------------------------------------------------------------------
def ns_kwargs(node):
    kw = {'help': help_value(node['help']), 'required': b(node['required']), 'validator': VALIDATORS[node['validator']],
          'valid_type': TYPES[node['valid_type']], 'dynamic': b(node['dynamic']),
          'populate_defaults': b(node['populate_defaults'])}
    if node['default'] != '-':
        kw['default'] = default_value(node['default'])
    return kw


def leaf_kwargs(node, io):
    kw = {'help': help_value(node['help']), 'required': b(node['required']), 'validator': VALIDATORS[node['validator']],
          'valid_type': TYPES[node['valid_type']]}
    if io == 'in' and node['default'] != '-':
        kw['default'] = default_value(node['default'])
    return kw


def populate(spec, tree, io):
    """Fill spec.inputs / spec.outputs with the ports of the model tree, through the public ProcessSpec API."""
    root = spec.inputs if io == 'in' else spec.outputs
    kw = ns_kwargs(tree)
    root.valid_type = kw['valid_type']
    root.dynamic = kw['dynamic']
    root.help = kw['help']
    root.required = kw['required']
    root.validator = kw['validator']
    root.populate_defaults = kw['populate_defaults']
    if 'default' in kw:
        root.default = kw['default']
    add_port = spec.input if io == 'in' else spec.output
    add_ns = spec.input_namespace if io == 'in' else spec.output_namespace

    def rec(node, prefix):
        for p in node['ports']:
            path = prefix + [name_of(p['name'])]
            if p['kind'] == 'ns':
                add_ns('.'.join(path), **ns_kwargs(p))
                rec(p, path)
            else:
                add_port('.'.join(path), **leaf_kwargs(p, io))

    rec(tree, [])
    return root


class BuildError(Exception):
    """The builder did not produce what the model describes: a defect of the harness, never a verdict."""


def call_kwargs(inst):
    kw = {}
    if inst['ns']:
        kw['namespace'] = dotted(inst['ns'])
    if inst['exc_some']:
        kw['exclude'] = [dotted(p) for p in inst['exc']]
    if inst['inc_some']:
        kw['include'] = tuple(dotted(p) for p in inst['inc'])
    if inst['opts'] or inst.get('pass_empty_opts'):
        kw['namespace_options'] = {k: option_value(k, v) for k, v in inst['opts'].items()}
    return kw


def option_value(attr, tok):
    if attr == 'default':
        return default_value(tok)
    if attr in ('dynamic', 'populate_defaults', 'required'):
        return b(tok)
    if attr == 'help':
        return help_value(tok)
    if attr == 'valid_type':
        return TYPES[tok]
    if attr == 'validator':
        return VALIDATORS[tok]
    return tok


def options_text(opts):
    """namespace_options as python source text."""
    def pv(k, tok):
        v = option_value(k, tok)
        return v.__name__ if isinstance(v, type) or callable(v) else repr(v)
    return '{%s}' % ', '.join('%r: %s' % (k, pv(k, t)) for k, t in opts.items())


def setup(inst):
    """Build both sides and make the call.  -> dict(src_spec, dst_spec, src_root, dst_root, src_cls, err, exc)"""
    io = inst['io']
    kw = call_kwargs(inst)
    method = 'expose_inputs' if io == 'in' else 'expose_outputs'
    out = {}
    if inst.get('via_process'):
        import plumpy
        box = {}

        class Source(plumpy.Process):
            @classmethod
            def define(cls, spec):
                super().define(spec)
                populate(spec, inst['src'], io)

        class Destination(plumpy.Process):
            @classmethod
            def define(cls, spec):
                super().define(spec)
                box['dst'] = spec
                populate(spec, inst['dest'], io)
                box['before'] = describe(spec.inputs if io == 'in' else spec.outputs)
                box['objs'] = identities(spec.inputs if io == 'in' else spec.outputs)
                box['src_before'] = describe(Source.spec().inputs if io == 'in' else Source.spec().outputs)
                getattr(spec, method)(Source, **kw)

        src_spec = Source.spec()
        err, exc = '-', None
        try:
            Destination.spec()
        except Exception as e:  # the call's exception leaves define()
            err, exc = type(e).__name__, e
        if 'before' not in box:
            raise BuildError('Destination.define did not reach the call: %r' % (exc,))
        dst_spec, src_cls = box['dst'], Source
        out['dst_before'], out['src_before'] = box['before'], box['src_before']
        out['dst_objs_before'] = box['objs']
    else:
        src_spec, dst_spec = ProcessSpec(), ProcessSpec()
        populate(src_spec, inst['src'], io)
        populate(dst_spec, inst['dest'], io)
        src_cls = type('Source', (), {'spec': classmethod(lambda cls: src_spec)})
        out['dst_before'] = describe(dst_spec.inputs if io == 'in' else dst_spec.outputs)
        out['dst_objs_before'] = identities(dst_spec.inputs if io == 'in' else dst_spec.outputs)
        out['src_before'] = describe(src_spec.inputs if io == 'in' else src_spec.outputs)
        err, exc = '-', None
        try:
            getattr(dst_spec, method)(src_cls, **kw)
        except Exception as e:
            err, exc = type(e).__name__, e
    out.update(src_spec=src_spec, dst_spec=dst_spec, src_cls=src_cls, err=err, exc=exc,
               src_root=src_spec.inputs if io == 'in' else src_spec.outputs,
               dst_root=dst_spec.inputs if io == 'in' else dst_spec.outputs)
    if out['src_before'] != model_desc(inst['src'], io):
        raise BuildError('source built differently from the model: %r' % (diff(model_desc(inst['src'], io), out['src_before'])[:3],))
    if out['dst_before'] != model_desc(inst['dest'], io):
        raise BuildError('destination built differently from the model: %r' % (diff(model_desc(inst['dest'], io), out['dst_before'])[:3],))
    return out


# ---- objects, aliasing, mutations ----------------------------------------------------------------------------------
def objects(root):
    """id()s of everything mutable reachable from a real tree: port objects, the namespaces' port dicts, mutable defaults."""
    out = set()

    def rec(p):
        out.add(id(p))
        if isinstance(p, PortNamespace):
            out.add(id(p.ports))
            d = p.default
            if isinstance(d, (list, dict, set)):
                out.add(id(d))
            for k in p:
                rec(p[k])
        else:
            has = getattr(p, 'has_default', None)
            if has is not None and has() and isinstance(p.default, (list, dict, set)):
                out.add(id(p.default))

    rec(root)
    return out


def identities(root):
    """{path (tuple of names): (port object, its ports dict | None, its mutable default object | None)} of a real tree; the
    objects themselves are kept (not their id()), so that none can be collected and its id() reused."""
    out = {}

    def rec(p, path):
        if isinstance(p, PortNamespace):
            out[path] = (p, p.ports, None)
            for k in p:
                rec(p[k], path + (k,))
        else:
            has = getattr(p, 'has_default', None)
            dflt = p.default if has is not None and has() and isinstance(p.default, (list, dict, set)) else None
            out[path] = (p, None, dflt)

    rec(root, ())
    return out


def model_identities(node, path=()):
    """The same for a model tree: {path: (id, pid, default_id)} (0 = no such object)."""
    out = {path: (node['id'], node['pid'], node['default_id'])}
    for p in node['ports']:
        out.update(model_identities(p, path + (name_of(p['name']),)))
    return out


def in_place_problems(dest0, objs_before, dest1, root_after):
    """Allocation ids of the model <-> identity of the real objects of the DESTINATION: an object of the destination that the
    TLA+ result keeps at a path (same id as before the call) must be the very same python object there, and an object the
    TLA+ result allocates in the call must not be one that the destination had before."""
    before = {}                                    # model id -> real object before the call
    m0 = model_identities(dest0)
    for path, ids in m0.items():
        if path not in objs_before:
            raise BuildError('destination built differently from the model: no port %r' % ('.'.join(path),))
        for mid, obj in zip(ids, objs_before[path]):
            if mid and obj is not None:
                before[mid] = obj
    old = {id(o) for o in before.values()}
    after = identities(root_after)
    problems = []
    what = ('port object', '_ports mapping', 'default value object')
    for path, ids in model_identities(dest1).items():
        if path not in after:
            continue                               # reported by the comparison of the trees
        for k, (mid, obj) in enumerate(zip(ids, after[path])):
            if not mid or obj is None:
                continue
            if mid in before and obj is not before[mid]:
                problems.append(['.'.join(path) or '<root>', what[k], 'the object the destination had before the call', 'another object'])
            elif mid not in before and id(obj) in old:
                problems.append(['.'.join(path) or '<root>', what[k], 'an object made by the call', 'an object the destination had before the call'])
    return problems


def model_ids(node):
    out = {node['id'], node['pid'], node['default_id']} - {0}
    for p in node['ports']:
        out |= model_ids(p)
    return out


def all_ports(root, path=''):
    yield path or '<root>', root
    if isinstance(root, PortNamespace):
        for k in list(root):
            yield from all_ports(root[k], (path + '.' + k) if path else k)


def mutations(root, io):
    """Every single mutation of a real tree (same definition as Muts in Expose.tla): (label, do, undo)."""
    out = []
    for path, p in all_ports(root):
        is_ns = isinstance(p, PortNamespace)

        def saver(p=p, is_ns=is_ns):
            has = getattr(p, 'has_default', None)
            return {'required': p.required, 'valid_type': p.valid_type, 'help': p.help, 'dynamic': p.dynamic if is_ns else None,
                    'default': None if has is None else (p.default if has() else UNSPECIFIED)}

        def restore(saved, p=p, is_ns=is_ns):
            p.valid_type = saved['valid_type']
            if is_ns:
                p.dynamic = saved['dynamic']
            p.required, p.help = saved['required'], saved['help']
            if hasattr(p, 'has_default'):
                p.default = saved['default']

        def setter(attr, value, p=p, saver=saver, restore=restore):
            def do():
                s = saver()
                setattr(p, attr, value(p))
                return lambda: restore(s)
            return do

        out.append(('%s.required:=flip' % path, setter('required', lambda q: not q.required)))
        out.append(('%s.valid_type:=float' % path, setter('valid_type', lambda q: float)))
        out.append(('%s.help:=mut' % path, setter('help', lambda q: 'mut')))
        if is_ns or io == 'in':
            out.append(('%s.default:=9' % path, setter('default', lambda q: 9)))
        has = getattr(p, 'has_default', None)
        if has is not None and has() and isinstance(p.default, list):
            def inplace(p=p):
                lst = p.default
                lst.append(99)
                return lambda: lst.pop()
            out.append(('%s.default.append(99)' % path, inplace))
        if is_ns:
            def add(p=p):
                p['zz'] = InputPort('zz') if io == 'in' else OutputPort('zz')
                return lambda: p.__delitem__('zz')
            out.append(('%s[zz]=new port' % path, add))
            if len(p):
                def delete(p=p):
                    k = next(iter(p))
                    saved = p[k]
                    del p[k]
                    return lambda: p.__setitem__(k, saved)
                out.append(('del %s[first]' % path, delete))
    return out


def memory_of(spec, io):
    return getattr(spec, '_exposed_inputs' if io == 'in' else '_exposed_outputs', None)


# ---- one instance ----------------------------------------------------------------------------------------------------
def run_instance(inst, expected, check_mutations=True):
    """Execute the instance and compare with the TLA+ result.  expected: dict(err, dest (model tree), mem, memset, nmuts).
    -> (list of problems [{'what':..., ...}], number of single mutations applied)"""
    io = inst['io']
    problems = []
    s = setup(inst)
    exp_err = expected['err']
    if s['err'] != exp_err:
        problems.append({'what': 'outcome of the call', 'expected': exp_err, 'observed': s['err'],
                         'detail': str(s['exc']) if s['exc'] is not None else ''})
    exp_desc = model_desc(expected['dest'], io)
    obs_desc = describe(s['dst_root'])
    d = diff(exp_desc, obs_desc)
    if d:
        problems.append({'what': 'destination port tree after the call', 'diffs': [list(x) for x in d[:12]]})
    else:
        # the same through get_description()
        gd = s['dst_root'].get_description()
        egd = model_get_description(expected['dest'])
        if gd != egd:
            problems.append({'what': 'get_description() of the destination', 'expected': json.dumps(egd, default=str, sort_keys=True)[:600],
                             'observed': json.dumps(gd, default=str, sort_keys=True)[:600]})
    if not d:
        ip = in_place_problems(inst['dest'], s['dst_objs_before'], expected['dest'], s['dst_root'])
        if ip:
            problems.append({'what': 'destination ports left in place (identity of the objects)', 'diffs': ip[:12]})
    src_after = describe(s['src_root'])
    if src_after != s['src_before']:
        problems.append({'what': 'the call changed the source', 'diffs': [list(x) for x in diff(s['src_before'], src_after)[:12]]})
    mem = memory_of(s['dst_spec'], io)
    if mem is not None:
        key = dotted(inst['ns']) if inst['ns'] else None
        have = key in mem and s['src_cls'] in mem[key]
        if expected['memset']:
            want = [name_of(n) for n in expected['mem']]
            got = list(mem[key][s['src_cls']]) if have else None
            if got is None or sorted(got) != sorted(want) or len(got) != len(set(got)):
                problems.append({'what': 'exposed-port memory', 'expected': want, 'observed': got})
        elif have:
            problems.append({'what': 'exposed-port memory', 'expected': None, 'observed': list(mem[key][s['src_cls']])})
    # aliasing: objects shared by the two trees  <=>  allocation ids shared by the two model trees
    real_shared = bool(objects(s['src_root']) & objects(s['dst_root']))
    model_shared = bool(model_ids(inst['src']) & model_ids(expected['dest']))
    if real_shared != model_shared:
        problems.append({'what': 'objects shared between source and destination', 'expected': model_shared, 'observed': real_shared})
    nm = 0
    if check_mutations and not d:
        sides = [('source', s['src_root'], 'destination', s['dst_root']), ('destination', s['dst_root'], 'source', s['src_root'])]
        for mname, mroot, oname, oroot in sides:
            before_other = describe(oroot)
            before_mut = describe(mroot)
            for label, do in mutations(mroot, io):
                undo = do()
                nm += 1
                after_other = describe(oroot)
                changed = describe(mroot) != before_mut
                undo()
                if after_other != before_other:
                    problems.append({'what': 'a change of the %s shows through to the %s' % (mname, oname), 'mutation': label,
                                     'diffs': [list(x) for x in diff(before_other, after_other)[:6]]})
                    break
                if not changed:
                    raise BuildError('mutation %s of the %s had no visible effect' % (label, mname))
            if describe(mroot) != before_mut or describe(oroot) != before_other:
                if not problems:
                    raise BuildError('undoing the mutations of the %s did not restore the trees' % mname)
        if not problems and nm != expected['nmuts']:
            raise BuildError('the harness enumerated %d single mutations, Muts in Expose.tla %d' % (nm, expected['nmuts']))
    return problems, nm


# ---- a stand-alone python reproduction of an instance (for reports and replay files) --------------------------------
def reproduction(inst):
    io = inst['io']
    lines = ['import sys; sys.path.insert(0, "/repo/src")', 'from plumpy.process_spec import ProcessSpec',
             'src, dst = ProcessSpec(), ProcessSpec()']
    pyv = {'-': 'None', 'int': 'int', 'str': 'str', 'flt': 'float'}

    def emit(var, tree):
        for path, node in _walk(tree):
            kw = []
            if node['valid_type'] != '-':
                kw.append('valid_type=%s' % pyv[node['valid_type']])
            if node['help'] != '-':
                kw.append('help=%r' % node['help'])
            if node['kind'] == 'ns':
                kw.append('required=%s' % b(node['required']))
                if node['dynamic'] == 'T' and node['valid_type'] == '-':
                    kw.append('dynamic=True')
                if node['populate_defaults'] == 'F':
                    kw.append('populate_defaults=False')
                if node['default'] != '-':
                    kw.append('default=%r' % (default_value(node['default']),))
                fn = 'input_namespace' if io == 'in' else 'output_namespace'
            else:
                if node['default'] != '-' and io == 'in':
                    kw.append('default=%r' % (default_value(node['default']),))
                else:
                    kw.append('required=%s' % b(node['required']))
                fn = 'input' if io == 'in' else 'output'
            lines.append('%s.%s(%r%s)' % (var, fn, path, ''.join(', ' + k for k in kw)))

    emit('src', inst['src'])
    emit('dst', inst['dest'])
    lines.append('class Source:\n    spec = classmethod(lambda cls: src)')
    kw = call_kwargs(inst)
    args = ', '.join('%s=%r' % (k, v) for k, v in kw.items() if k != 'namespace_options')
    if 'namespace_options' in kw:
        if any(k == 'validator' and t != '-' for k, t in inst['opts'].items()):
            lines.insert(3, 'def v3(value, port): return None')
        args += (', ' if args else '') + 'namespace_options=%s' % options_text(inst['opts'])
    lines.append('dst.%s(Source%s)' % ('expose_inputs' if io == 'in' else 'expose_outputs', (', ' + args) if args else ''))
    lines.append('print(dst.%s.get_description())' % ('inputs' if io == 'in' else 'outputs'))
    return '\n'.join(lines)


def _walk(tree, prefix=()):
    for p in tree['ports']:
        q = prefix + (name_of(p['name']),)
        yield '.'.join(q), p
        if p['kind'] == 'ns':
            yield from _walk(p, q)
