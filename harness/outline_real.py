"""Real WorkChain classes generated from the outline ASTs of spec/Outline.tla, and their execution
(unit by unit = one Process.step() per RUNNING state), with checkpoint / abandon / restore at chosen unit boundaries."""
import copy
import io
import logging
import pickle
import sys
import types

import plumpy
import yaml
from plumpy import workchains as wc
from plumpy.process_states import ProcessState

from . import vloop

logging.getLogger('plumpy').setLevel(logging.CRITICAL)

DYN = types.ModuleType('verif_dyn')
sys.modules['verif_dyn'] = DYN
_COUNT = [0]


def register(cls, name=None):
    """Make a generated class importable (loaders identify classes by module and name)."""
    _COUNT[0] += 1
    name = name or '%s_%d' % (cls.__name__, _COUNT[0])
    cls.__name__ = cls.__qualname__ = name
    cls.__module__ = 'verif_dyn'
    setattr(DYN, name, cls)
    return cls


def pyret(v):
    if v == 'none':
        return None
    if v == 'ctx':
        return wc.ToContext()
    if v == 'False':
        return False
    if v[0] == 'v':
        return int(v[1:])
    raise ValueError(v)


def mret(v):
    if v is None:
        return 'none'
    if v is False:
        return 'False'
    if isinstance(v, wc.ToContext):
        return 'ctx'
    if isinstance(v, int):
        return 'v%d' % v
    return repr(v)


def build_workchain(outline, oracle, alias=False):
    """alias: the first step function of the outline carries a __name__ under which the class has ANOTHER function (as a
    decorated or factory-made step does): the outline holds function objects, and those are what must be called (only for
    runs without checkpoints: a restored stepper finds its step by name)"""
    ns = {}

    def mk_step(i, ret, aw='none'):
        def s(self):
            if self.inputs['dflt'] != 'd0':          # steps depend on persisted state only: here a defaulted input
                raise AssertionError('parsed input lost: %r' % (self.inputs,))
            self.ctx.setdefault('trace', []).append(['s', i])
            if aw != 'none':
                fut = plumpy.Future()                    # something to wait for (already there when the step hands it over)
                fut.set_result('r%d' % i)
                if aw == 'call':
                    self.to_context(**{'a%d' % i: fut})
                else:
                    return wc.ToContext(**{'a%d' % i: fut})
            return pyret(ret)
        s.__name__ = 's%d' % i if not (alias and i == 1) else 'decoy'
        return s

    def mk_pred(i):
        def p(self):
            pos = self.ctx.setdefault('opos', 0)
            v = oracle[pos] if pos < len(oracle) else False
            self.ctx.opos = pos + 1
            self.ctx.setdefault('trace', []).append(['p', i, v])
            return v
        p.__name__ = 'p%d' % i
        return p

    def collect(body):
        for n in body:
            if n['t'] == 'step':
                ns['s%d' % n['id']] = mk_step(n['id'], n['ret'], n.get('aw', 'none'))
            elif n['t'] == 'while':
                ns['p%d' % n['pred']] = mk_pred(n['pred'])
                collect(n['body'])
            elif n['t'] == 'if':
                for c in n['conds']:
                    if c['pred']:
                        ns['p%d' % c['pred']] = mk_pred(c['pred'])
                    collect(c['body'])
    collect(outline['body'])
    if alias:
        def decoy(self):
            self.ctx.setdefault('trace', []).append(['s', 99])
        ns['decoy'] = decoy

    def cmds(cls, body):
        out = []
        for n in body:
            if n['t'] == 'step':
                out.append(getattr(cls, 's%d' % n['id']))
            elif n['t'] == 'return':
                out.append(wc.return_ if n['code'] == 'none' else wc.return_(pyret(n['code'])))
            elif n['t'] == 'while':
                out.append(wc.while_(getattr(cls, 'p%d' % n['pred']))(*cmds(cls, n['body'])))
            else:
                conds = n['conds']
                inst = wc.if_(getattr(cls, 'p%d' % conds[0]['pred']))(*cmds(cls, conds[0]['body']))
                for c in conds[1:]:
                    if c['pred'] == 0:
                        inst = inst.else_(*cmds(cls, c['body']))
                    else:
                        inst = inst.elif_(getattr(cls, 'p%d' % c['pred']))(*cmds(cls, c['body']))
                out.append(inst)
        return out

    def define(cls, spec):
        super(klass, cls).define(spec)
        spec.input('dflt', default='d0')
        spec.outline(*cmds(cls, outline['body']))
    ns['define'] = classmethod(define)
    klass = type('GenWC', (plumpy.WorkChain,), ns)
    return register(klass)


def dump(bundle, medium):
    """serialise once (at checkpoint time) ..."""
    if medium == 'none':
        return bundle
    if medium == 'copy':
        return copy.deepcopy(bundle)
    if medium == 'pickle':
        return pickle.dumps(bundle)
    if medium == 'yaml':
        return yaml.dump(bundle)
    raise ValueError(medium)


def load(dumped, medium):
    """... and load afresh for every restore (a loaded process shares mutable members with the bundle object it was loaded from)"""
    if medium == 'none':
        return dumped
    if medium == 'copy':
        return copy.deepcopy(dumped)
    if medium == 'pickle':
        return pickle.loads(dumped)
    if medium == 'yaml':
        return yaml.load(dumped, Loader=yaml.Loader)
    raise ValueError(medium)


def through(bundle, medium):
    if medium == 'none':                 # the bundle as Bundle(process) built it, not serialised
        return bundle
    if medium == 'copy':
        return copy.deepcopy(bundle)
    if medium == 'pickle':
        return pickle.loads(pickle.dumps(bundle))
    if medium == 'yaml':
        return yaml.load(yaml.dump(bundle), Loader=yaml.Loader)
    raise ValueError(medium)


class CustomLoader(plumpy.DefaultObjectLoader):
    """An object loader with names of its own: what it saved only it can load (C07: 'with the default or a custom object loader')."""

    _inner = plumpy.DefaultObjectLoader()

    def identify_object(self, obj):
        return 'custom|' + self._inner.identify_object(obj)

    def load_object(self, identifier):
        if not identifier.startswith('custom|'):
            raise ValueError('not a name of the custom loader: %r' % (identifier,))
        return self._inner.load_object(identifier[len('custom|'):])


class _Store:
    """Where a checkpoint lives between the moment it is taken and the moment it is loaded: a serialisation medium, or one of
    the library's persisters ('mem': InMemoryPersister, 'pfile': PicklePersister in a scratch directory)."""

    def __init__(self, medium, loaders='default'):
        self.medium = medium
        self.loaders = loaders
        self.nsaved = 0
        self.kept = None
        self.dir = None
        if medium == 'mem':
            self.persister = plumpy.InMemoryPersister()
        elif medium == 'pfile':
            import tempfile
            self.dir = tempfile.mkdtemp(prefix='verif-pfile-')
            self.persister = plumpy.PicklePersister(self.dir)

    def save(self, proc):
        if self.medium in ('mem', 'pfile'):
            self.persister.save_checkpoint(proc)
            self.kept = proc.pid
        else:
            # loaders = 'custom': every checkpoint is saved with the custom loader; 'alternate': every other one
            custom = self.loaders == 'custom' or (self.loaders == 'alternate' and self.nsaved % 2 == 1)
            self.nsaved += 1
            self.kept = dump(plumpy.Bundle(proc, plumpy.LoadSaveContext(loader=CustomLoader())) if custom else plumpy.Bundle(proc), self.medium)

    def load(self):
        if self.medium in ('mem', 'pfile'):
            return self.persister.load_checkpoint(self.kept)
        return load(self.kept, self.medium)

    def close(self):
        if self.dir:
            import shutil
            shutil.rmtree(self.dir, ignore_errors=True)


def run_outline(outline, oracle, crash_at=(), medium='pickle', max_units=200, lag=0, loaders='default', reloads=0):
    """-> dict(units=[[call,...],...], result, state, restores). One unit = one step() in RUNNING state.
    At a unit boundary in crash_at the process is checkpointed; `lag` units later the running instance is abandoned and the
    checkpoint loaded in a fresh event loop (lag > 0: the work since the checkpoint is lost and done again).  reloads > 0: the
    restored instance is abandoned as well max(lag, 1) units later and the SAME checkpoint loaded again, `reloads` more times."""
    loop = vloop.install()
    cls = build_workchain(outline, oracle, alias=not crash_at and medium == 'none')
    proc = cls()
    units = []
    waits = []
    restores = 0
    roundtrip_bad = []
    crashed = set()
    seen = 0
    n = 0
    store = _Store(medium, loaders)
    pending = None            # unit index at which the kept checkpoint is due to be loaded
    left = 0                  # further loads of the same checkpoint after the next one
    kept_trace = None         # the call trace the checkpoint holds (what every load of it must give back)
    # with loaders other than the default ONE load context (it names no loader) serves every load of the run, as a launcher's does:
    # each bundle must be loaded with the loader recorded in it
    shared = plumpy.LoadSaveContext(loop=loop) if loaders != 'default' else None
    try:
      while not proc.has_terminated():
        n += 1
        if n > max_units:
            raise RuntimeError('runaway workchain')
        if proc.state == ProcessState.RUNNING and len(units) in crash_at and len(units) not in crashed and pending is None:
            crashed.add(len(units))
            store.save(proc)
            pending = len(units) + lag
            left = reloads
            kept_trace = [list(c) for c in proc.ctx.__dict__.get('trace', [])]
        if proc.state == ProcessState.RUNNING and pending is not None and len(units) == pending:
            if left > 0:
                left -= 1
                pending = len(units) + max(lag, 1)
            else:
                pending = None
            bundle = store.load()
            del proc                                    # the running instance is abandoned
            if shared is None:
                loop = vloop.install()                  # ... and the checkpoint continued in a fresh event loop
            proc = bundle.unbundle(shared if shared is not None else plumpy.LoadSaveContext(loop=loop))
            restores += 1
            seen = len(proc.ctx.__dict__.get('trace', []))
            if [list(c) for c in proc.ctx.__dict__.get('trace', [])] != kept_trace:
                # (Outline!RestoreFrom: calls = ckpt.calls) the work of an abandoned instance leaked into the checkpoint
                roundtrip_bad.append([len(units), 'the loaded checkpoint holds the call trace %s, saved was %s' % (proc.ctx.__dict__.get('trace', []), kept_trace)])
            # C07: saving what was just loaded gives the same bundle
            from . import core_real
            ref = store.load() if medium in ('mem', 'pfile') else bundle
            again = plumpy.Bundle(proc, plumpy.LoadSaveContext(loader=CustomLoader())) if 'custom|' in str(dict(ref).get('!!meta', '')) else plumpy.Bundle(proc)
            d = core_real.bundle_diff(ref, through(again, medium if medium not in ('mem', 'pfile') else 'copy'))
            if d:
                roundtrip_bad.append([len(units), [list(map(str, x)) for x in d[:3]]])
        was_running = proc.state == ProcessState.RUNNING
        loop.run_until_complete(proc.step())
        if was_running:
            trace = list(proc.ctx.__dict__.get('trace', []))
            units.append([list(c) for c in trace[seen:]])
            waits.append(proc.state == ProcessState.WAITING)      # the unit ended in a Wait for what it registered
            seen = len(trace)
      # C07: the terminated process is a save point too: save, load, save again
      unsavable = proc.state == ProcessState.FINISHED and isinstance(proc.result(), wc.ToContext) and len(proc.result()) > 0
      if medium != 'none' and not unsavable:      # (a result that holds a live future cannot be saved: not a save point)
        from . import core_real
        m2 = medium if medium not in ('mem', 'pfile') else 'copy'
        try:
            b1 = through(plumpy.Bundle(proc), m2)
            twin = b1.unbundle(plumpy.LoadSaveContext(loop=vloop.VLoop()))
            d = core_real.bundle_diff(b1, through(plumpy.Bundle(twin), m2))
            if d or twin.state != proc.state:
                roundtrip_bad.append(['terminated', [list(map(str, x)) for x in d[:3]] or [str(twin.state), str(proc.state)]])
        except Exception as e:  # noqa
            roundtrip_bad.append(['terminated', 'loading the bundle of the terminated process raised %r' % (e,)])
    finally:
        store.close()
    res = None
    state = proc.state.name
    if proc.state == ProcessState.FINISHED:
        res = mret(proc.result())
    return {'units': units, 'waits': waits, 'result': res, 'state': state, 'restores': restores, 'roundtrip_bad': roundtrip_bad,
            'exception': repr(proc.exception()) if proc.exception() else None}
