"""Real WorkChain classes generated from the outline ASTs of spec/Outline.tla, and their execution
(unit by unit = one Process.step() per RUNNING state), with checkpoint / abandon / restore at chosen unit boundaries."""
import copy
import io
import logging
import pickle
import sys
import types

import plumpy
import yaml
from plumpy import workchains as wc
from plumpy.process_states import ProcessState

from . import vloop

logging.getLogger('plumpy').setLevel(logging.CRITICAL)

DYN = types.ModuleType('verif_dyn')
sys.modules['verif_dyn'] = DYN
_COUNT = [0]


def register(cls, name=None):
    """Make a generated class importable (loaders identify classes by module and name)."""
    _COUNT[0] += 1
    name = name or '%s_%d' % (cls.__name__, _COUNT[0])
    cls.__name__ = cls.__qualname__ = name
    cls.__module__ = 'verif_dyn'
    setattr(DYN, name, cls)
    return cls


def pyret(v):
    if v == 'none':
        return None
    if v == 'ctx':
        return wc.ToContext()
    if v == 'False':
        return False
    if v[0] == 'v':
        return int(v[1:])
    raise ValueError(v)


def mret(v):
    if v is None:
        return 'none'
    if v is False:
        return 'False'
    if isinstance(v, dict) and not v:
        return 'ctx'
    if isinstance(v, int):
        return 'v%d' % v
    return repr(v)


def build_workchain(outline, oracle):
    ns = {}

    def mk_step(i, ret):
        def s(self):
            self.ctx.setdefault('trace', []).append(['s', i])
            return pyret(ret)
        s.__name__ = 's%d' % i
        return s

    def mk_pred(i):
        def p(self):
            pos = self.ctx.setdefault('opos', 0)
            v = oracle[pos] if pos < len(oracle) else False
            self.ctx.opos = pos + 1
            self.ctx.setdefault('trace', []).append(['p', i, v])
            return v
        p.__name__ = 'p%d' % i
        return p

    def collect(body):
        for n in body:
            if n['t'] == 'step':
                ns['s%d' % n['id']] = mk_step(n['id'], n['ret'])
            elif n['t'] == 'while':
                ns['p%d' % n['pred']] = mk_pred(n['pred'])
                collect(n['body'])
            elif n['t'] == 'if':
                for c in n['conds']:
                    if c['pred']:
                        ns['p%d' % c['pred']] = mk_pred(c['pred'])
                    collect(c['body'])
    collect(outline['body'])

    def cmds(cls, body):
        out = []
        for n in body:
            if n['t'] == 'step':
                out.append(getattr(cls, 's%d' % n['id']))
            elif n['t'] == 'return':
                out.append(wc.return_ if n['code'] == 'none' else wc.return_(pyret(n['code'])))
            elif n['t'] == 'while':
                out.append(wc.while_(getattr(cls, 'p%d' % n['pred']))(*cmds(cls, n['body'])))
            else:
                conds = n['conds']
                inst = wc.if_(getattr(cls, 'p%d' % conds[0]['pred']))(*cmds(cls, conds[0]['body']))
                for c in conds[1:]:
                    if c['pred'] == 0:
                        inst = inst.else_(*cmds(cls, c['body']))
                    else:
                        inst = inst.elif_(getattr(cls, 'p%d' % c['pred']))(*cmds(cls, c['body']))
                out.append(inst)
        return out

    def define(cls, spec):
        super(klass, cls).define(spec)
        spec.outline(*cmds(cls, outline['body']))
    ns['define'] = classmethod(define)
    klass = type('GenWC', (plumpy.WorkChain,), ns)
    return register(klass)


def dump(bundle, medium):
    """serialise once (at checkpoint time) ..."""
    if medium == 'none':
        return bundle
    if medium == 'copy':
        return copy.deepcopy(bundle)
    if medium == 'pickle':
        return pickle.dumps(bundle)
    if medium == 'yaml':
        return yaml.dump(bundle)
    raise ValueError(medium)


def load(dumped, medium):
    """... and load afresh for every restore (a loaded process shares mutable members with the bundle object it was loaded from)"""
    if medium == 'none':
        return dumped
    if medium == 'copy':
        return copy.deepcopy(dumped)
    if medium == 'pickle':
        return pickle.loads(dumped)
    if medium == 'yaml':
        return yaml.load(dumped, Loader=yaml.Loader)
    raise ValueError(medium)


def through(bundle, medium):
    if medium == 'none':                 # the bundle as Bundle(process) built it, not serialised
        return bundle
    if medium == 'copy':
        return copy.deepcopy(bundle)
    if medium == 'pickle':
        return pickle.loads(pickle.dumps(bundle))
    if medium == 'yaml':
        return yaml.load(yaml.dump(bundle), Loader=yaml.Loader)
    raise ValueError(medium)


def run_outline(outline, oracle, crash_at=(), medium='pickle', max_units=200):
    """-> dict(units=[[call,...],...], result, state, restores). One unit = one step() in RUNNING state."""
    loop = vloop.install()
    cls = build_workchain(outline, oracle)
    proc = cls()
    units = []
    restores = 0
    roundtrip_bad = []
    crashed = set()
    seen = 0
    n = 0
    while not proc.has_terminated():
        n += 1
        if n > max_units:
            raise RuntimeError('runaway workchain')
        if proc.state == ProcessState.RUNNING and len(units) in crash_at and len(units) not in crashed:
            crashed.add(len(units))
            bundle = through(plumpy.Bundle(proc), medium)
            del proc                                    # the running instance is abandoned
            loop = vloop.install()                      # ... and the checkpoint continued in a fresh event loop
            proc = bundle.unbundle(plumpy.LoadSaveContext(loop=loop))
            restores += 1
            # C07: saving what was just loaded gives the same bundle
            from . import core_real
            d = core_real.bundle_diff(bundle, through(plumpy.Bundle(proc), medium))
            if d:
                roundtrip_bad.append([len(units), [list(map(str, x)) for x in d[:3]]])
        was_running = proc.state == ProcessState.RUNNING
        loop.run_until_complete(proc.step())
        if was_running:
            trace = list(proc.ctx.__dict__.get('trace', []))
            units.append([list(c) for c in trace[seen:]])
            seen = len(trace)
    res = None
    state = proc.state.name
    if proc.state == ProcessState.FINISHED:
        res = mret(proc.result())
    return {'units': units, 'result': res, 'state': state, 'restores': restores, 'roundtrip_bad': roundtrip_bad,
            'exception': repr(proc.exception()) if proc.exception() else None}
