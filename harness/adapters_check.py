"""Driver of the check decided on spec/Adapters.tla (property C20).

  (1) TLC, exhaustive, on the bounded scenario family: invariants Faithful, ExactlyOnce, ActionOnce, FilteredIsSilent,
      OnTargetLoop, action property Stable.
      A counterexample is replayed on the real adapters (so that it is a statement about the code, not about the model);
      the deviation clause it went through is then excused and TLC is run again, so that EVERY unlisted deviation - and any
      violation no deviation clause explains - is reported, each once.
  (2) direction P: the full TLC state graph is dumped and EVERY maximal behaviour is replayed on the real adapters on the
      single-stepping loop, comparing all futures, the ready queue, tasks, loop.errors, callback errors swallowed by
      concurrent.futures, call counters and the run/cancel history after every action.
  (3) direction V: Process.message_receive(PAUSE/PLAY/KILL) on a real process in the middle of a step, under every schedule
      of a bounded family; each observed trace must be a behaviour of the same state graph.
"""
import itertools
import json
import multiprocessing
import os
import time

from . import evidence, findings, tlaval, tlc

VERIF = os.path.dirname(os.path.dirname(os.path.abspath(__file__)))
PID = 'C20'

# repairs present in /repo (fix: commits); the specification's clauses for them are switched on.
# VERIF_C20_FIXES=F20a,F20b overrides (testing a repaired scratch copy together with VERIF_REPO_SRC).
FIXES = ["F20a", "F20b", "F20c", "F20d", "F20e"]     # repaired in /repo (fix: commits e88cbf8, 8bcae22, ef78463, f04633c)
if os.environ.get('VERIF_C20_FIXES') is not None:
    FIXES = [x for x in os.environ['VERIF_C20_FIXES'].replace(' ', '').split(',') if x]

ALL_DEVIATIONS = ['D20a', 'D20b', 'D20c', 'D20d', 'D20e']
INVARIANTS = ['Faithful', 'ExactlyOnce', 'ActionOnce', 'FilteredIsSilent', 'OnTargetLoop']

# SWITCHED OFF - exposes a behaviour of the unmodified library that the property does not allow (reported, not repaired,
# not listed): a CancellableAction whose function withdraws the request (cancels the action that is executing it) and then
# RAISES.  CancellableAction.run guards set_result with `if not self.cancelled()`, but the raising path goes through
# kiwipy.capture_exceptions(self) -> self.set_exception(e) on the cancelled action -> asyncio.InvalidStateError is thrown
# at the caller of run() instead of the outcome (the cancellation) being carried by the action.  The specification has the
# clause (deviation D20e / repair F20e in ActRun); True adds the scenario ACT/raise/wd and the check then reports it.
ACT_WITHDRAW_THEN_RAISE = os.environ.get('VERIF_C20_ACT_WITHDRAW_THEN_RAISE', '1') == '1'      # (repaired in /repo: F20e)
PROPERTIES = ['Stable']


def scn(fam, kind='-', d=0, co=False, flt=False, kw=False, cl=False, wd=False):
    """cl: the adapter is called while the caller's current event loop is another loop than the one it is told to schedule on
    (the communicator thread has a loop of its own); wd: the action's function withdraws (cancels) the action executing it"""
    return {'fam': fam, 'kind': kind, 'd': d, 'co': co, 'flt': flt, 'kw': kw, 'cl': cl, 'wd': wd}


FOREIGN_MAX_DEPTH = 3


def foreign_caller(scns):
    """the scenarios of the families that take a `loop` to schedule on, called from under a foreign current loop
    (which loop a future belongs to is decided when the adapter is called, not by how deep the chain is: nesting depth
    <= FOREIGN_MAX_DEPTH, i.e. all of the quick tier's scenarios; the thorough tier's depth-4 chains are not doubled)"""
    return [dict(s, cl=True) for s in scns if s['fam'] in ('CT', 'CONV', 'RPC', 'BCF') and s['d'] <= FOREIGN_MAX_DEPTH]


def scenarios(depth, chain_depth=None):
    """chain_depth: nesting depth of the families whose whole job is to follow futures resolving to futures
    (P2K, UNW, COMP, RPC reply loop): cheap, and a one-level shortcut (e.g. kiwipy.chain instead of re-registering
    unwrap) only shows from depth 3 on; the task-based families (CT, CONV) use `depth`."""
    cd = max(depth, chain_depth or depth)
    out = []
    out += [scn('CT', 'ret'), scn('CT', 'raise')] + [scn('CT', 'await', d) for d in range(1, min(depth, 2) + 1)]
    out += [scn('P2K', '-', d, True) for d in range(1, cd + 1)]
    out += [scn('UNW', '-', d, True) for d in range(1, cd + 1)]
    out += [scn('COMP', '-', d, True) for d in range(1, cd + 1)]
    out += [scn('CONV', 'ret', 0, True), scn('CONV', 'raise', 0, True)] + [scn('CONV', 'await', d, True) for d in range(1, depth + 1)]
    out += [scn('RPC', 'ret'), scn('RPC', 'raise')] + [scn('RPC', 'await', d) for d in range(1, cd + 1)]
    out += [scn('ACT', 'ret'), scn('ACT', 'raise'), scn('ACT', 'ret', wd=True)]
    if ACT_WITHDRAW_THEN_RAISE:
        out += [scn('ACT', 'raise', wd=True)]
    out += [scn('BCF', k, 0, False, flt=f, kw=w) for k in ('ret', 'raise') for f in (False, True) for w in (False, True)]
    out += foreign_caller(out)
    return out


def mc_module(name, scns, fixes, listed, invariants=(), properties=(), max_ops=3):
    tla = '---- MODULE %s ----\nEXTENDS Adapters\n' % name
    tla += 'MCScenarios == %s\n' % tlaval.emit(list(scns))
    tla += 'MCFixes == %s\n' % tlaval.emit(set(fixes))
    tla += 'MCListed == %s\n' % tlaval.emit(set(listed))
    tla += '====\n'
    cfg = 'SPECIFICATION Spec\nCHECK_DEADLOCK FALSE\nCONSTANTS\n Scenarios <- MCScenarios\n Fixes <- MCFixes\n Listed <- MCListed\n'
    cfg += ' MaxOps = %d\n' % max_ops
    cfg += ''.join('INVARIANT %s\n' % i for i in invariants) + ''.join('PROPERTY %s\n' % p for p in properties)
    return tla, cfg


_COUNTER = [0]


def write_replay(kind, payload):
    d = os.path.join(VERIF, 'evidence', 'replays')
    os.makedirs(d, exist_ok=True)
    _COUNTER[0] += 1
    path = os.path.join(d, '%s_%s_%d_%d.json' % (PID, kind, os.getpid(), _COUNTER[0]))
    with open(path, 'w') as fh:
        json.dump(payload, fh, indent=1, default=_json)
    return path


def _json(o):
    if isinstance(o, (set, frozenset)):
        return sorted(o, key=str)
    return str(o)


# ---- (1) model checking ----------------------------------------------------------------------------------------
def model_check(scns, fixes, listed, max_ops=3):
    """-> (list of violation dicts, summary list, states, transitions)"""
    from . import adapters_real
    violations, summ = [], []
    excused = set(listed)
    states = transitions = 0
    for rnd in range(len(ALL_DEVIATIONS) + 2):
        tla, cfg = mc_module('MC_C20', scns, fixes, excused, INVARIANTS, PROPERTIES, max_ops)
        with tlc.Workdir() as wd:
            wd.write('MC_C20.tla', tla)
            wd.write('MC_C20.cfg', cfg)
            res = tlc.run(wd, 'MC_C20.tla', 'MC_C20.cfg', timeout=1500)
        summ.append({'round': rnd, 'excused': sorted(excused), 'distinct_states': res.distinct, 'states_generated': res.generated,
                     'depth': res.depth, 'violated': res.violated, 'wall_s': round(res.wall, 1)})
        states, transitions = max(states, res.distinct), max(transitions, res.generated)
        if not res.violated:
            if not res.ok:
                raise tlc.MachineryError('TLC did not complete:\n%s' % res.out[-3000:])
            break
        tr = res.trace()
        if not tr or any('_raw' in s for _, s in tr):
            raise tlc.MachineryError('cannot read the TLC counterexample:\n%s' % res.out[-3000:])
        actions = [a for a, _ in tr][1:]
        sts = [s for _, s in tr]
        final = sts[-1]
        dev = set(final['dev']) - excused
        div, proj = adapters_real.replay_actions(final['sc'], actions, sts)
        violations.append({'kind': 'tlc-counterexample', 'violated': res.violated, 'scenario': final['sc'], 'fixes': sorted(fixes),
                           'actions': actions, 'deviation_clauses': sorted(final['dev']),
                           'confirmed_on_implementation': div is None, 'divergence': div,
                           'specification_final_state': final, 'implementation_final_state': proj[-1]})
        if not dev:
            break        # not explained by a deviation clause: nothing to excuse, stop here
        excused |= dev
    return violations, summ, states, transitions


# ---- (2) direction P -------------------------------------------------------------------------------------------
_G = {}


def _nontrivial(nodes, init, path):
    """a behaviour is non-trivial if the environment did something and an adapter future got an outcome"""
    if not any(not a.startswith('RunHandle') for a, _ in path):
        return False
    fin = nodes[path[-1][1]]
    return fin['futs'][fin['out'] - 1]['st'] != 'pending' or bool(fin['dev'])


def _replay_chunk(args):
    from . import adapters_real
    adapters_real.quiet()
    init, paths = args
    nodes = _G['nodes']
    out, devs, nontrivial = [], set(), 0
    for p in paths:
        fin = nodes[p[-1][1]] if p else nodes[init]
        devs |= set(fin['dev'])
        if p and _nontrivial(nodes, init, p):
            nontrivial += 1
        r = adapters_real.replay_path(nodes, init, p)
        if r:
            r['path'] = [a for a, _ in p]
            r['scenario'] = nodes[init]['sc']
            out.append(r)
    return out, sorted(devs), nontrivial


def graph_replay(scns, fixes, procs=None, max_ops=3):
    tla, cfg = mc_module('MC_C20g', scns, fixes, ALL_DEVIATIONS, max_ops=max_ops)
    t0 = time.time()
    with tlc.Workdir() as wd:
        wd.write('MC_C20g.tla', tla)
        wd.write('MC_C20g.cfg', cfg)
        dot = os.path.join(wd.path, 'graph')
        res = tlc.run(wd, 'MC_C20g.tla', 'MC_C20g.cfg', args=['-dump', 'dot,actionlabels', dot], timeout=1500)
        if not res.ok:
            raise tlc.MachineryError('TLC did not complete the graph dump:\n%s' % res.out[-3000:])
        t1 = time.time()
        nodes, edges, inits = tlc.load_dot(dot + '.dot')
    t2 = time.time()
    jobs, total = [], 0
    per_family, per_dimension = {}, {}
    for init in inits:
        paths = tlc.maximal_paths(edges, init)
        total += len(paths)
        fam = nodes[init]['sc']['fam']
        per_family[fam] = per_family.get(fam, 0) + len(paths)
        for dim in ('cl', 'wd'):
            if nodes[init]['sc'][dim]:
                per_dimension[dim] = per_dimension.get(dim, 0) + len(paths)
        n = max(1, min(2000, len(paths) // 8))
        for i in range(0, len(paths), n):
            jobs.append((init, paths[i:i + n]))
    _G.update(nodes=nodes)
    procs = procs or min(16, os.cpu_count() or 1)
    divergent, devs, nontrivial = [], set(), 0
    samples = []
    if total:
        from . import pools
        for out, d, nt in pools.fork_map(_replay_chunk, jobs, procs):
            divergent.extend(out)
            devs |= set(d)
            nontrivial += nt
        best = {}               # one written-out behaviour per family: the longest one, preferring a deviation clause
        for init, paths in jobs:
            fam = nodes[init]['sc']['fam']
            for p in paths:
                score = (bool(nodes[p[-1][1]]['dev']) if p else False, len(p))
                if fam not in best or score > best[fam][0]:
                    best[fam] = (score, init, p)
        for fam in sorted(best):
            _, init, p = best[fam]
            fin = nodes[p[-1][1]] if p else nodes[init]
            samples.append({'scenario': nodes[init]['sc'], 'actions': [a for a, _ in p], 'deviation_clauses': sorted(fin['dev']),
                            'final': [[f['role'], f['st'], f['val']['t'], f['val']['n']] for f in fin['futs']]})
    return {'states': len(nodes), 'transitions': sum(len(v) for v in edges.values()), 'paths': total, 'per_family': per_family, 'per_dimension': per_dimension,
            'divergent': divergent, 'devs': devs, 'samples': samples, 'nontrivial': nontrivial, 'generated': res.generated,
            'distinct': res.distinct, 'tlc_s': t1 - t0, 'parse_s': t2 - t1, 'replay_s': time.time() - t2,
            'nodes': nodes, 'edges': edges, 'inits': inits}


# ---- (3) direction V: message_receive on a process in the middle of a step ---------------------------------------
PROC_SCRIPTS = [
    # name, script, pause_raises
    ('pause-then-step-ends', [('start',), ('rpc', 'PAUSE'), ('gate',)], 0),
    ('pause-then-play', [('start',), ('rpc', 'PAUSE'), ('call', 'play'), ('gate',)], 0),
    ('pause-then-kill', [('start',), ('rpc', 'PAUSE'), ('call', 'kill'), ('gate',)], 0),
    ('kill-then-step-ends', [('start',), ('rpc', 'KILL'), ('gate',)], 0),
    ('kill-then-pause', [('start',), ('rpc', 'KILL'), ('call', 'pause'), ('gate',)], 0),
    ('kill-then-kill', [('start',), ('rpc', 'KILL'), ('call', 'kill'), ('gate',)], 0),
    ('play-while-running', [('start',), ('rpc', 'PLAY'), ('gate',)], 0),
    ('pause-already-pausing', [('start',), ('call', 'pause'), ('rpc', 'PAUSE'), ('gate',)], 0),
    ('pause-already-pausing-then-play', [('start',), ('call', 'pause'), ('rpc', 'PAUSE'), ('call', 'play'), ('gate',)], 0),
    ('pause-before-start', [('rpc', 'PAUSE'), ('launch',)], 0),
    ('kill-before-start', [('rpc', 'KILL'), ('launch',)], 0),
    ('pause-before-start-raising', [('rpc', 'PAUSE')], 8),
    ('pause-action-fails', [('start',), ('rpc', 'PAUSE'), ('gate',)], 1),
]


def _walk(nodes, edges, init, trace):
    """the observed trace against the behaviours starting in `init` -> (matched steps, mismatch description | None)"""
    cur = init
    st = nodes[cur]
    kind = st['sc']['kind']
    for k, (label, proj) in enumerate(trace):
        if label not in (None, 'Init'):
            nxt = [m for a, m in edges.get(cur, []) if a == label]
            if len(nxt) != 1:
                return k, 'no %s step in the specification here' % label
            cur = nxt[0]
            st = nodes[cur]
        d = _compare_proc(st, proj, kind)
        if d:
            return k, '%s: %s' % (label, d)
    return len(trace), None


def _compare_proc(st, proj, kind):
    diffs = []
    reply = st['futs'][st['out'] - 1]
    want = [reply['st'], reply['val']['n'] if reply['st'] == 'exception' else None]
    got = [proj['reply'][0], proj['reply'][1] if proj['reply'][0] == 'exception' else None]
    if want != got:
        diffs.append(('reply', want, got))
    elif reply['st'] == 'result':
        if kind == 'await':
            # the reply is the action's own result
            if reply['val'] != {'t': 'val', 'n': 1} or proj['action'] is None or proj['action'][0] != 'result' or \
                    proj['reply'][1] is not proj['action'][1] and proj['reply'][1] != proj['action'][1]:
                diffs.append(('reply value', reply['val'], proj))
        elif repr(proj['reply'][1]) != proj['rpc_ret']:
            diffs.append(('reply value', 'what the callback returned: %s' % proj['rpc_ret'], proj['reply'][1]))
    if kind == 'await':
        a = st['futs'][0]
        want = [a['st'], a['val']['n'] if a['st'] == 'exception' else None]
        pa = proj['action'] or ['pending', None]
        got = [pa[0], pa[1] if pa[0] == 'exception' else None]
        if want != got:
            diffs.append(('action', want, got))
    elif proj['rpc_ret'] == 'action':
        diffs.append(('callback', kind, 'returned an action future'))
    tasks = [[t['st'], t['exc']] for t in st['tasks'] if t['pc'] != 'unborn']
    if tasks != ([proj['task']] if proj['task'] is not None else []):
        diffs.append(('task', tasks, proj['task']))
    if [h['op'] for h in st['ready']] != proj['ready']:
        diffs.append(('ready', [h['op'] for h in st['ready']], proj['ready']))
    if list(st['errs']) != proj['errors']:
        diffs.append(('loop.errors', list(st['errs']), proj['errors']))
    if list(st['klog']) != proj['klog']:
        diffs.append(('callback errors', list(st['klog']), proj['klog']))
    if st['calls'] != proj['calls']:
        diffs.append(('calls', st['calls'], proj['calls']))
    return diffs


def _proc_chunk(args):
    """all schedules of one script that start with `first` handles -> (runs, {trace key: verdict})"""
    from . import adapters_real
    adapters_real.quiet()
    si, first, max_handles = args
    nodes, edges, cands = _G['nodes'], _G['edges'], _G['cands']
    name, script, pr = PROC_SCRIPTS[si]
    runs, seen = 0, {}
    for rest in itertools.product(range(max_handles + 1), repeat=len(script) - 1):
        schedule = (first,) + rest
        run = adapters_real.ProcRun(script, pr)
        trace = run.execute(schedule)
        runs += 1
        key = json.dumps([name, trace], default=str)
        if key in seen:
            continue
        best = (-1, 'no RPC scenario in the graph', None)
        ok = None
        for c in cands:
            k, why = _walk(nodes, edges, c, trace)
            if why is None:
                ok = c
                break
            if k > best[0]:
                best = (k, why, nodes[c]['sc'])
        final = trace[-1][1]
        rec = {'script': name, 'ops': [list(o) for o in script], 'pause_raises': pr, 'schedule': list(schedule),
               'actions': [a for a, _ in trace if a], 'reply': final['reply'], 'action': final['action'], 'ok': ok is not None}
        if ok is None:
            rec.update(matched_steps=best[0], mismatch=best[1], closest_scenario=best[2], trace=[[a, q] for a, q in trace])
        else:
            cur = ok                 # the deviation clauses the accepted behaviour went through
            for label, _ in trace:
                if label not in (None, 'Init'):
                    cur = [m for a, m in edges[cur] if a == label][0]
            rec['devs'] = sorted(nodes[cur]['dev'])
            rec['scenario'] = nodes[ok]['sc']
        seen[key] = rec
    return runs, seen


def proc_traces(nodes, edges, inits, max_handles, procs=None):
    """every schedule (0..max_handles loop handles before each op) of every script; distinct traces are validated."""
    cands = [i for i in inits if nodes[i]['sc']['fam'] == 'RPC' and not nodes[i]['sc']['cl'] and
             (nodes[i]['sc']['kind'], nodes[i]['sc']['d']) in (('ret', 0), ('raise', 0), ('await', 1))]
    _G.update(nodes=nodes, edges=edges, cands=cands)
    jobs = [(si, first, max_handles) for si in range(len(PROC_SCRIPTS)) for first in range(max_handles + 1)]
    runs, allrec = 0, {}
    from . import pools
    for n, seen in pools.fork_map(_proc_chunk, jobs, procs):
        runs += n
        for k, rec in seen.items():
            allrec.setdefault(k, rec)
    recs = [allrec[k] for k in sorted(allrec)]
    bad = [r for r in recs if not r['ok']]
    good = [r for r in recs if r['ok']]
    devs, outcomes, samples, sampled = set(), {}, [], set()
    for r in good:
        devs |= set(r['devs'])
        outcomes.setdefault(r['script'], set()).add('reply %s / action %s' % (r['reply'][0], (r['action'] or ['-'])[0]))
    for r in sorted(good, key=lambda r: (-len(r['devs']), r['action'] is None, -len(r['actions']))):
        if r['script'] not in sampled and len(samples) < 4:
            sampled.add(r['script'])
            samples.append({k: r[k] for k in ('script', 'ops', 'schedule', 'actions', 'reply', 'action', 'scenario', 'devs')})
    return {'runs': runs, 'validated': len(good), 'bad': bad, 'devs': devs, 'samples': samples,
            'outcomes': {k: sorted(v) for k, v in outcomes.items()}}


# ---- the check ---------------------------------------------------------------------------------------------------
def run_check(tier, seed):
    t0 = time.time()
    depth, max_ops, max_handles = (2, 3, 3) if tier == 'quick' else (4, 4, 6)
    chain_depth = 3 if tier == 'quick' else depth
    scns = scenarios(depth, chain_depth)
    listed = set(findings.deviations(PID))
    violations = 0

    # (1)
    mc_viol, mc_summ, states, transitions = model_check(scns, FIXES, listed, max_ops)
    for v in mc_viol:
        path = write_replay('tlc', v)
        print('TLC: %s violated in scenario %s through deviation clause(s) %s; behaviour: %s; reproduced on the implementation: %s' % (
            v['violated'], v['scenario'], v['deviation_clauses'] or 'NONE', v['actions'], v['confirmed_on_implementation']))
        print('VIOLATION property=%s replay=%s' % (PID, path))
        violations += 1

    # (2)
    g = graph_replay(scns, FIXES, max_ops=max_ops)
    for d in g['divergent'][:5]:
        path = write_replay('divergence', {'kind': 'replay-divergence', 'scenario': d['scenario'], 'fixes': FIXES, 'actions': d['path'],
                                           'at': d['at'], 'diffs': d['diffs']})
        print('DIVERGENCE scenario=%s after %s: (field, specification, implementation) %s' % (d['scenario'], d['path'][:d['at']], d['diffs'][:3]))
        print('VIOLATION property=%s replay=%s' % (PID, path))
    violations += len(g['divergent'])

    # (3)
    pt = proc_traces(g['nodes'], g['edges'], g['inits'], max_handles)
    for b in pt['bad'][:5]:
        path = write_replay('proctrace', dict(b, kind='process-trace-rejected', fixes=FIXES))
        print('TRACE REJECTED script=%s schedule=%s after %d steps: %s' % (b['script'], b['schedule'], b['matched_steps'], b['mismatch']))
        print('VIOLATION property=%s replay=%s' % (PID, path))
    violations += len(pt['bad'])

    used = set(g['devs']) | pt['devs']
    findings.print_known(PID, used)
    cov = {
        'states': max(g['distinct'], states, 1), 'transitions': max(g['generated'], transitions, 1),
        'traces_validated_against_impl': g['paths'] + pt['validated'],
        'samples': g['samples'] + pt['samples'],
        'evaluations': g['paths'] + pt['runs'],
        'distinct_nontrivial': g['nontrivial'] + pt['validated'],
        'rule': 'scenarios = adapter family x coroutine/callback kind x nesting depth 1..%d (1..%d for the chain-following families P2K, UNW, COMP, RPC); in each the environment gives every pending future '
                'of the chain a value / an exception / a cancellation / the next future, at any level in any order, may cancel the '
                'adapter\'s kiwi output first, interleaved in every way with the loop handles; every scenario of the families that are '
                'told which loop to schedule on (CT, CONV, RPC, BCF; depth <= %d) also with the caller\'s current event loop being ANOTHER loop '
                '(never run); CancellableAction: all run/cancel histories of length <= %d, function returning / raising / '
                'withdrawing the action that executes it and then returning%s.  A behaviour = one maximal path of the TLC state graph (distinct by construction); '
                'non-trivial = the environment acted AND the adapter output got an outcome or a deviation clause was exercised.  '
                'Process traces: every schedule with 0..N handles before each op; only distinct traces are counted, all of them '
                'involve a control message and are counted non-trivial' % (depth, chain_depth, FOREIGN_MAX_DEPTH, max_ops,
                                                                          ' / raising' if ACT_WITHDRAW_THEN_RAISE else ''),
        'exhaustive': True,
        'depth': depth,
        'chain_depth': chain_depth,
        'scenarios': len(scns),
        'model_checking': mc_summ,
        'invariants': INVARIANTS + PROPERTIES,
        'replay': {'graph_states': g['states'], 'graph_transitions': g['transitions'], 'behaviours_replayed': g['paths'],
                   'per_family': g['per_family'], 'foreign_caller_loop': g['per_dimension'].get('cl', 0),
                   'self_withdrawing_action': g['per_dimension'].get('wd', 0), 'divergent': len(g['divergent']), 'tlc_s': round(g['tlc_s'], 1),
                   'parse_s': round(g['parse_s'], 1), 'replay_s': round(g['replay_s'], 1)},
        'process_traces': {'runs': pt['runs'], 'distinct_traces_validated': pt['validated'], 'rejected': len(pt['bad']),
                           'outcomes': pt['outcomes']},
        'deviation_clauses_exercised': sorted(used),
        'deviations_listed': sorted(listed),
        'fixes_modelled': list(FIXES),
    }
    assumptions = [
        'bounded: nesting depth <= %d (<= %d for P2K, UNW, COMP, RPC), one adapter instance per behaviour, CancellableAction histories of length <= %d' % (depth, chain_depth, max_ops),
        'the single-stepping loop (harness/vloop.py) realises asyncio semantics; its create_future() hands out asyncio.Future as production loops do; '
        'tasks are pure-python tasks so that every handle can be attributed',
        'one thread: kiwipy futures resolve synchronously in the resolving call, asyncio callbacks go through the loop; real cross-thread delivery '
        '(call_soon_threadsafe from the communicator thread) is not explored - the properties concern what is delivered; the communicator '
        'thread\'s own event loop is represented by a second loop that is the current loop of the thread while the adapter is called '
        '(scenario dimension cl) and is never run; the chain futures are made on the target loop',
        'a function that withdraws its own action and then RAISES is %s' % (
            'explored' if ACT_WITHDRAW_THEN_RAISE else 'NOT explored (ACT_WITHDRAW_THEN_RAISE is off: the unmodified CancellableAction.run lets '
            'asyncio.InvalidStateError escape there, deviation clause D20e of the specification; reported, not listed)'),
        'the consumer cancelling the output is explored for the kiwi-side outputs (plum_to_kiwi_future, unwrap_kiwi_future and their compositions), '
        'not for the loop future of create_task nor for the reply future of _schedule_rpc',
        '_schedule_rpc wraps an exception of the callback in RuntimeError(...) from exc: the reply is compared with the cause',
        'repairs modelled as present: %s' % (', '.join(FIXES) or 'none'),
    ]
    evidence.write(PID, tier, seed, 'model_checking', cov, time.time() - t0, violations, assumptions)
    print('C20: TLC %d states / %d transitions; %d behaviours replayed (%s), %d divergent; %d process runs -> %d distinct traces validated, %d rejected; '
          'tlc %.1fs parse %.1fs replay %.1fs' % (cov['states'], cov['transitions'], g['paths'], g['per_family'], len(g['divergent']), pt['runs'],
                                                  pt['validated'], len(pt['bad']), g['tlc_s'], g['parse_s'], g['replay_s']))
    return 1 if violations else 0


def replay_file(path):
    """./check C20 --replay <file>: re-run a recorded counterexample / divergence / rejected trace against the real code."""
    from . import adapters_real
    adapters_real.quiet()
    rec = json.load(open(path))
    kind = rec.get('kind')
    if kind in ('tlc-counterexample', 'replay-divergence'):
        print('scenario:', rec['scenario'], 'fixes modelled:', rec.get('fixes'))
        actions = rec['actions'] if kind == 'tlc-counterexample' else rec['actions'][:rec['at']]
        run = adapters_real.Run(rec['scenario'])
        print('Init ->', run.projection())
        for a in actions:
            name, params = adapters_real.split_action(a)
            err = run.perform(name, params)
            print(a, '->', err or run.projection())
        if kind == 'tlc-counterexample':
            print('violated:', rec['violated'], 'deviation clauses:', rec['deviation_clauses'])
            print('specification final state:', json.dumps(rec['specification_final_state'], default=str)[:1500])
        else:
            print('recorded diffs (field, specification, implementation):', rec['diffs'])
        return 1
    if kind == 'process-trace-rejected':
        run = adapters_real.ProcRun([tuple(o) for o in rec['ops']], rec['pause_raises'])
        for a, p in run.execute(rec['schedule']):
            print(a, '->', p)
        print('recorded mismatch after %d steps: %s' % (rec['matched_steps'], rec['mismatch']))
        return 1
    print(json.dumps(rec, indent=1)[:4000])
    return 1
