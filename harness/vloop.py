"""Deterministic single-stepping asyncio event loop with virtual time.

The harness owns the loop: between any two handles it may perform environment actions
(control calls on a process, completion of futures, ...).  One handle == one atomic step of the
implementation == (at most) one `RunHandle` action of the TLA+ specification.

Tasks are created as pure-python tasks (asyncio.tasks._PyTask) so that every ready handle can be
attributed to the coroutine it belongs to.
"""
import asyncio
import collections
import heapq
from asyncio import events

_PyTask = asyncio.tasks._PyTask
_PyFuture = asyncio.futures._PyFuture


class VLoop(asyncio.AbstractEventLoop):
    def __init__(self):
        self.ready = collections.deque()
        self.timers = []
        self._t = 0.0
        self._n = 0
        self.errors = []          # exception contexts reported to the loop
        self._debug = False
        self._closed = False
        self.ran = 0
        self._running_depth = 0
        self.tasks = []           # every task ever created, in creation order

    # -- scheduling ---------------------------------------------------------------------------
    def call_soon(self, cb, *args, context=None):
        h = asyncio.Handle(cb, args, self, context)
        self.ready.append(h)
        return h

    call_soon_threadsafe = call_soon

    def call_later(self, delay, cb, *args, context=None):
        return self.call_at(self._t + delay, cb, *args, context=context)

    def call_at(self, when, cb, *args, context=None):
        h = asyncio.TimerHandle(when, cb, args, self, context)
        self._n += 1
        heapq.heappush(self.timers, (when, self._n, h))
        return h

    def _timer_handle_cancelled(self, h):
        pass

    def time(self):
        return self._t

    def create_future(self):
        return _PyFuture(loop=self)

    def create_task(self, coro, *, name=None, context=None):
        t = _PyTask(coro, loop=self, name=name, context=context)
        self.tasks.append(t)
        return t

    def get_debug(self):
        return self._debug

    def set_debug(self, v):
        self._debug = v

    def is_running(self):
        return self._running_depth > 0

    def is_closed(self):
        return self._closed

    def close(self):
        self._closed = True

    def call_exception_handler(self, ctx):
        self.errors.append(ctx)

    def default_exception_handler(self, ctx):
        self.errors.append(ctx)

    def set_exception_handler(self, h):
        pass

    async def shutdown_asyncgens(self):
        pass

    async def shutdown_default_executor(self, timeout=None):
        pass

    def stop(self):
        pass

    # -- stepping -----------------------------------------------------------------------------
    def _promote_timer(self):
        if not self.ready and self.timers:
            when, _, h = heapq.heappop(self.timers)
            self._t = max(self._t, when)
            if not h._cancelled:
                self.ready.append(h)
            return True
        return False

    def pending(self):
        """True if there is anything left to run."""
        while self.ready and self.ready[0]._cancelled:
            self.ready.popleft()
        if self.ready:
            return True
        while self.timers:
            if self.timers[0][2]._cancelled:
                heapq.heappop(self.timers)
                continue
            return True
        return False

    def peek(self):
        """The handle that step_one() would run next (promoting a timer if need be)."""
        while True:
            while self.ready and self.ready[0]._cancelled:
                self.ready.popleft()
            if self.ready:
                return self.ready[0]
            if not self._promote_timer():
                return None

    def step_one(self):
        h = self.peek()
        if h is None:
            return False
        self.ready.popleft()
        prev = events._get_running_loop()
        events._set_running_loop(self)
        self._running_depth += 1
        try:
            h._run()
        finally:
            self._running_depth -= 1
            events._set_running_loop(prev)
        self.ran += 1
        return True

    def run_until_complete(self, fut):
        fut = asyncio.ensure_future(fut, loop=self)
        n = 0
        while not fut.done():
            if not self.step_one():
                raise RuntimeError('deadlock: loop idle but future pending')
            n += 1
            if n > 1000000:
                raise RuntimeError('runaway loop')
        return fut.result()

    def drain(self, limit=100000):
        n = 0
        while self.step_one():
            n += 1
            if n > limit:
                raise RuntimeError('runaway loop')
        return n


def owner_of(handle):
    """The task a ready handle belongs to (None for plain callbacks)."""
    cb = handle._callback
    owner = getattr(cb, '__self__', None)
    if isinstance(owner, _PyTask):
        return owner
    return None


def install():
    """Create a fresh VLoop and make it the current event loop of this thread."""
    loop = VLoop()
    asyncio.set_event_loop(loop)
    return loop
