"""Running TLC on the specifications in /verif/spec from a scratch directory."""
import os
import re
import shutil
import subprocess
import tempfile
import time

from . import tlaval

VERIF = os.path.dirname(os.path.dirname(os.path.abspath(__file__)))
SPEC_DIR = os.path.join(VERIF, 'spec')
JAR = '/opt/veriftools/tla/tla2tools.jar:/opt/veriftools/tla/CommunityModules-deps.jar'


_LIVE = {}        # scratch directories not yet removed -> pid of the process that made them


def _sweep():
    """at interpreter exit (also after SIGTERM, see ./check): no scratch directory of this process is left behind"""
    for path, pid in list(_LIVE.items()):
        if pid == os.getpid():
            shutil.rmtree(path, ignore_errors=True)


import atexit  # noqa: E402
atexit.register(_sweep)


class MachineryError(Exception):
    """TLC crashed, a spec does not parse, ...: never a verdict (exit code 2)."""


class Workdir:
    """Scratch directory holding a copy of spec/*.tla plus generated MC modules; removed on exit."""

    def __init__(self, prefix='verif-tlc-'):
        self.path = tempfile.mkdtemp(prefix=prefix)
        _LIVE[self.path] = os.getpid()
        for f in os.listdir(SPEC_DIR):
            if f.endswith('.tla') or f.endswith('.cfg'):
                shutil.copy(os.path.join(SPEC_DIR, f), self.path)

    def write(self, name, text):
        p = os.path.join(self.path, name)
        with open(p, 'w') as fh:
            fh.write(text)
        dump = os.environ.get('VERIF_DUMP_MC')      # keep a copy of every generated MC module / config (documentation)
        if dump and (name.endswith('.tla') or name.endswith('.cfg')) and len(text) < 200000:
            os.makedirs(dump, exist_ok=True)
            with open(os.path.join(dump, name), 'w') as fh:
                fh.write(text)
        return p

    def sub(self, name):
        p = os.path.join(self.path, name)
        os.makedirs(p, exist_ok=True)
        return p

    def cleanup(self):
        shutil.rmtree(self.path, ignore_errors=True)
        _LIVE.pop(self.path, None)

    def __enter__(self):
        return self

    def __exit__(self, *a):
        self.cleanup()


class Result:
    def __init__(self, out, rc, wall):
        self.out = out
        self.rc = rc
        self.wall = wall
        m = re.findall(r'(\d+) states generated, (\d+) distinct states found', out)
        self.generated = int(m[-1][0]) if m else 0
        self.distinct = int(m[-1][1]) if m else 0
        m = re.search(r'The depth of the complete state graph search is (\d+)', out)
        self.depth = int(m.group(1)) if m else 0
        self.violated = None
        m = re.search(r'Error: Invariant (\S+) is violated', out)
        if m:
            self.violated = m.group(1)
        m2 = re.search(r'Error: Action property (\S+) is violated', out)
        if m2:
            self.violated = m2.group(1)
        if 'Error: Temporal properties were violated' in out:
            self.violated = self.violated or 'TemporalProperty'
        if re.search(r'Error: Deadlock reached', out):
            self.violated = self.violated or 'Deadlock'
        if 'is violated by the initial state' in out:
            m3 = re.search(r'Invariant (\S+) is violated by the initial state', out)
            self.violated = m3.group(1) if m3 else 'InitialState'
        self.postcondition_failed = 'POSTCONDITION' in out and 'violated' in out and 'Error:' in out and self.violated is None
        self.ok = (self.violated is None and 'Model checking completed. No error has been found.' in out) or \
                  ('Finished in' in out and self.violated is None and 'Error:' not in out)

    def trace(self):
        """The error trace as a list of (action label, state dict)."""
        states = []
        for m in re.finditer(r'State (\d+): <([^>]*)>\n((?:(?!\nState \d+:|\n\d+ states generated|\nError:|\nFinished|\nThe number).)*)',
                             self.out, re.S):
            label = m.group(2).split(' line ')[0].strip()
            body = m.group(3).strip()
            try:
                states.append((label, tlaval.parse_state(body)))
            except Exception as e:  # keep raw text if unparsable
                states.append((label, {'_raw': body, '_err': str(e)}))
        return states

    def printed(self):
        """Values printed by PrintT (one per line, possibly spanning lines)."""
        vals = []
        for line in self.out.splitlines():
            s = line.strip()
            if s.startswith('<<') or s.startswith('['):
                try:
                    vals.append(tlaval.parse(s))
                except Exception:
                    pass
        return vals

    def printed_json(self):
        """Values printed as PrintT(ToJson(v)): one JSON string per line (atomic even with many workers)."""
        import json
        vals = []
        for line in self.out.splitlines():
            if line.startswith('"[') or line.startswith('"{'):
                try:
                    vals.append(json.loads(json.loads(line)))
                except Exception:
                    pass
        return vals

    def coverage(self):
        """action name -> (distinct states found via it, states generated via it) from -coverage output."""
        cov = {}
        for m in re.finditer(r'<(\w+) line \d+, col \d+ to line \d+, col \d+ of module (\w+)>: (\d+):(\d+)', self.out):
            cov[m.group(1)] = (int(m.group(3)), int(m.group(4)))
        return cov


def run(workdir, module, cfg=None, workers=None, args=(), timeout=1800, env=None, heap=None, deque=False):
    """Run TLC on `module` (a .tla in workdir) with config `cfg` (default module.cfg)."""
    wd = workdir.path if isinstance(workdir, Workdir) else workdir
    meta = tempfile.mkdtemp(prefix='meta-', dir=wd)
    cmd = ['java', '-XX:+UseParallelGC', '-Djava.io.tmpdir=%s' % meta]      # (TLC leaves a tlc-<n> directory per run in java.io.tmpdir)
    if heap:
        cmd.append('-Xmx%s' % heap)
    if deque:
        cmd.append('-Dtlc2.tool.queue.IStateQueue=StateDeque')
    cmd += ['-cp', JAR, 'tlc2.TLC', '-metadir', meta, '-noGenerateSpecTE']
    if workers is None:
        workers = min(16, os.cpu_count() or 1)
    cmd += ['-workers', str(workers)]
    if cfg:
        cmd += ['-config', cfg]
    cmd += list(args)
    cmd.append(module)
    e = dict(os.environ)
    e.pop('JAVA_TOOL_OPTIONS', None)
    if env:
        e.update(env)
    t0 = time.time()
    try:
        p = subprocess.run(cmd, cwd=wd, env=e, stdout=subprocess.PIPE, stderr=subprocess.STDOUT, timeout=timeout, text=True)
    except subprocess.TimeoutExpired as ex:
        subprocess.run(['pkill', '-f', meta], check=False)
        raise MachineryError('TLC timed out after %ss on %s' % (timeout, module)) from ex
    finally:
        shutil.rmtree(meta, ignore_errors=True)
    out = p.stdout
    res = Result(out, p.returncode, time.time() - t0)
    if ('Parsing or semantic analysis failed' in out or 'Error: TLC threw an unexpected exception' in out
            or 'Semantic errors' in out or '***Parse Error***' in out or 'java.lang.' in out and 'Exception' in out and 'Error: ' in out and res.violated is None and not res.ok):
        raise MachineryError('TLC failed on %s:\n%s' % (module, out[-6000:]))
    if 'Error: The first argument' in out or 'Error: Evaluating' in out or 'TLC_BUG' in out or 'was not in the domain' in out or 'Error: Attempted' in out:
        raise MachineryError('TLC evaluation error on %s:\n%s' % (module, out[-6000:]))
    return res


def sany(path):
    p = subprocess.run(['java', '-cp', JAR, 'tla2sany.SANY', os.path.basename(path)], cwd=os.path.dirname(path),
                       stdout=subprocess.PIPE, stderr=subprocess.STDOUT, text=True)
    ok = p.returncode == 0 and 'Semantic errors' not in p.stdout and 'Parse Error' not in p.stdout and 'Fatal errors' not in p.stdout
    return ok, p.stdout


# ---- DOT state graph --------------------------------------------------------------------------
_NODE_RE = re.compile(r'^(-?\d+) \[label="((?:[^"\\]|\\.)*)"(,style = filled)?')
_EDGE_RE = re.compile(r'^(-?\d+) -> (-?\d+) \[label="((?:[^"\\]|\\.)*)"')


def _parse_nodes(lines):
    out = []
    for line in lines:
        m = _NODE_RE.match(line)
        if m:
            lab = m.group(2).replace('\\n', '\n').replace('\\"', '"').replace('\\\\', '\\')
            out.append((m.group(1), tlaval.parse_state(lab), bool(m.group(3))))
    return out


def load_dot(path, procs=None):
    """-> (nodes: id -> state dict, edges: id -> [(action label, id)], init ids).  Node labels are parsed in parallel."""
    import collections
    import multiprocessing
    nodes, edges, inits = {}, collections.defaultdict(list), []
    node_lines = []
    with open(path) as fh:
        for line in fh:
            if ' -> ' in line[:48]:
                m = _EDGE_RE.match(line)
                if m:
                    lab = m.group(3).replace('\\"', '"').replace('\\\\', '\\')
                    edges[m.group(1)].append((lab, m.group(2)))
                    continue
            if ' [label="' in line[:40]:
                node_lines.append(line.rstrip('\n'))
    procs = procs or min(16, os.cpu_count() or 1)
    if len(node_lines) < 2000 or procs == 1:
        parsed = _parse_nodes(node_lines)
    else:
        n = max(500, len(node_lines) // (procs * 4))
        chunks = [node_lines[i:i + n] for i in range(0, len(node_lines), n)]
        from . import pools
        parsed = [x for part in pools.fork_map(_parse_nodes, chunks, procs, ordered=True) for x in part]
    for nid, st, is_init in parsed:
        nodes[nid] = st
        if is_init:
            inits.append(nid)
    return nodes, edges, inits


def maximal_paths(edges, init, limit=None):
    """All maximal paths (as lists of (action, node id)) of an acyclic graph; self-loops are ignored."""
    out = []
    stack = [(init, [])]
    while stack:
        n, p = stack.pop()
        succ = [(a, m) for a, m in edges.get(n, []) if m != n]
        if not succ:
            out.append(p)
            if limit and len(out) >= limit:
                break
            continue
        for a, m in succ:
            stack.append((m, p + [(a, m)]))
    return out
