"""The implementation side of spec/Persister.tla (C14).

A history of the specification (a path of the TLC state graph) is replayed on BOTH real persisters side by side
(plumpy.InMemoryPersister and plumpy.PicklePersister in a scratch directory) with real, live plumpy processes whose state
visibly progresses: every step appends to a list in the process context and to a list passed to the next step (mutable
members), emits an output and sets the status (immutable members).  Every result / exception class is compared with the
specification's `last` record, loaded bundles are decoded into the specification's snapshots <<imm, mut>>, and at the end
of the history every key is loaded from both persisters and both are listed.
"""
import os
import shutil
import tempfile
import uuid

import plumpy
from plumpy import mixins
from plumpy import process_states as ps

from . import vloop

PROCS = ['p1', 'p2']
TAGS = ['None', 't1', 't2']
# real identifiers per kind (one kind per history).  int/str/uuid: chosen so that one string form is a prefix of another.
# int0/str0: the universe of ids that python treats as FALSE - the integer 0 and the empty string (whose string form is the
# empty sequence of symbols) - as a pid and as a tag next to a true one: a tag is absent iff it is None, a pid / tag that is
# merely falsy is a key component like any other (specification: FileName tests k[2] = "None" and nothing else).
IDS = {
    'int': {'p1': 1, 'p2': 11, 't1': 1, 't2': 11},
    'str': {'p1': 'a', 'p2': 'ab', 't1': 'b', 't2': 'a'},
    'uuid': {'p1': uuid.UUID(int=1), 'p2': uuid.UUID(int=17), 't1': uuid.UUID(int=1), 't2': uuid.UUID(int=3)},
    'int0': {'p1': 0, 'p2': 10, 't1': 0, 't2': 10},
    'str0': {'p1': '', 'p2': 'a', 't1': '', 't2': 'a'},
}
FALSY_KINDS = [k for k, ids in IDS.items() if any(not ids[t] for t in ('t1', 't2'))]     # kinds that have a falsy tag


# scratch directories live on a memory file system when there is one (16 workers create and remove thousands of them)
SCRATCH_BASE = '/dev/shm' if os.path.isdir('/dev/shm') and os.access('/dev/shm', os.W_OK) else None


def symbols(kind, name):
    """str(id) as the sequence of symbols used by the specification (constant Str)."""
    s = str(IDS[kind][name])
    assert '.' not in s
    return [s] if kind == 'uuid' else list(s)


def str_constant(kinds):
    return {k: {n: symbols(k, n) for n in PROCS + TAGS[1:]} for k in kinds}


class _Other:
    def method(self):
        pass


@plumpy.auto_persist('_hook')
class StepProc(mixins.ContextMixin, plumpy.Process):
    """A process that never finishes by itself; step i leaves a visible trace in mutable and immutable members.
    `_hook` is a persisted member: while it holds a bound method of ANOTHER object the process cannot be saved."""
    _hook = None

    @classmethod
    def define(cls, spec):
        super().define(spec)
        spec.outputs.dynamic = True

    def run(self):
        self.ctx.log = []
        return self._do(1, [])

    def again(self, i, hist):
        return self._do(i, hist)

    def _do(self, i, hist):
        self.ctx.log.append(i)
        hist.append(i)
        self.out('s%d' % i, i)
        self.set_status('st%d' % i)
        return ps.Continue(self.again, i + 1, hist)


def decode(bundle):
    """A bundle -> the specification's snapshot [imm, mut] (or a description of an inconsistent bundle)."""
    try:
        status = bundle['_status']
        i = int(status[2:])
        outs = bundle.get('OUTPUTS', {})
        args = bundle['_state']['args']
        imm_ok = outs == {'s%d' % j: j for j in range(1, i + 1)} and args[0] == i + 1 and bundle['_state']['in_state'] is True
        log = bundle['_context']['log']
        m = len(log)
        # a consistent snapshot holds exactly the steps 1..i; when the mutable members are ahead of the immutable ones
        # (the snapshot is reported as [i, m] with m != i) only their lengths are interpreted
        mut_ok = list(args[1]) == list(log) and (m != i or list(log) == list(range(1, m + 1)))
        if not imm_ok or not mut_ok:
            return ['inconsistent', repr((status, outs, args, log))]
        return [i, m]
    except Exception as e:  # noqa
        return ['undecodable', repr(e)]


class World:
    """Two live processes, the two persisters."""

    def __init__(self, kind):
        self.kind = kind
        self.loop = vloop.install()
        self.ids = IDS[kind]
        self.back = {}
        for n in PROCS:
            self.back[('pid', self.ids[n])] = n
        for n in TAGS[1:]:
            self.back[('tag', self.ids[n])] = n
        self.back[('tag', None)] = 'None'
        self.dir = tempfile.mkdtemp(prefix='verif-c14-', dir=SCRATCH_BASE)
        self.mem = plumpy.InMemoryPersister()
        self.files = plumpy.PicklePersister(self.dir)
        self.live = {}
        for n in PROCS:
            p = StepProc(pid=self.ids[n], loop=self.loop)
            self.live[n] = p
            self.step(p)          # CREATED -> RUNNING(run)
            self.step(p)          # run(): step 1 done; from now on the process has mutable members

    def close(self):
        shutil.rmtree(self.dir, ignore_errors=True)

    def step(self, proc):
        self.loop.run_until_complete(proc.step())

    def pid(self, p):
        return self.ids[p]

    def tag(self, t):
        return None if t == 'None' else self.ids[t]

    def key_back(self, cp):
        return (self.back.get(('pid', cp.pid), '?%r' % (cp.pid,)), self.back.get(('tag', cp.tag), '?%r' % (cp.tag,)))

    def call(self, fn):
        """-> result record in the specification's shape {err, snap, keys}"""
        res = {'err': '-', 'snap': [0, 0], 'keys': []}
        try:
            r = fn()
        except Exception as e:  # noqa
            res['err'] = type(e).__name__
            return res
        if r is None:
            return res
        if isinstance(r, plumpy.Bundle):
            res['snap'] = decode(r)
        elif isinstance(r, list):
            res['keys'] = sorted(self.key_back(c) for c in r)       # duplicates stay visible
        else:
            res['err'] = 'unexpected result %r' % (r,)
        return res

    def resume(self, persister, pid, tag):
        bundle = persister.load_checkpoint(pid, tag)
        proc = bundle.unbundle(plumpy.LoadSaveContext(loop=self.loop))
        self.step(proc)
        return plumpy.Bundle(proc)

    def perform(self, op):
        """op = [name, pid, tag] -> (result on the in-memory persister, result on the pickle persister)"""
        name, p, t = op
        out = []
        for per in (self.mem, self.files):
            if name == 'save':
                r = self.call(lambda: per.save_checkpoint(self.live[p], self.tag(t)))
            elif name == 'savefail':
                self.live[p]._hook = _Other().method          # transiently unsavable (TypeError in save_members)
                try:
                    r = self.call(lambda: per.save_checkpoint(self.live[p], self.tag(t)))
                finally:
                    self.live[p]._hook = None
            elif name == 'load':
                r = self.call(lambda: per.load_checkpoint(self.pid(p), self.tag(t)))
            elif name == 'list':
                r = self.call(lambda: per.get_checkpoints())
            elif name == 'listp':
                r = self.call(lambda: per.get_process_checkpoints(self.pid(p)))
            elif name == 'delete':
                r = self.call(lambda: per.delete_checkpoint(self.pid(p), self.tag(t)))
            elif name == 'deletep':
                r = self.call(lambda: per.delete_process_checkpoints(self.pid(p)))
            elif name == 'resume':
                r = self.call(lambda: self.resume(per, self.pid(p), self.tag(t)))
            elif name == 'progress':
                r = {'err': '-', 'snap': [0, 0], 'keys': []}
            else:
                raise AssertionError(name)
            out.append(r)
        if name == 'progress':
            self.step(self.live[p])
        return out

    def observe(self):
        """Everything both persisters can be asked, and the scratch directory."""
        obs = {'mem': {}, 'files': {}}
        for nm, per in (('mem', self.mem), ('files', self.files)):
            for p in PROCS:
                for t in TAGS:
                    r = self.call(lambda: per.load_checkpoint(self.pid(p), self.tag(t)))
                    obs[nm]['%s/%s' % (p, t)] = r['snap'] if r['err'] == '-' else 'absent'
            obs[nm]['list'] = self.call(lambda: per.get_checkpoints())['keys']
        obs['dir'] = sorted(os.listdir(self.dir))
        return obs


# ---- the specification's values in the same shape -------------------------------------------------------
def model_result(r):
    return {'err': r['err'], 'snap': list(r['snap']), 'keys': sorted(tuple(k) for k in r['keys'])}


def model_observe(S):
    """The expected final observation, looked up (not recomputed) in the state's variables."""
    obs = {'mem': {}, 'files': {}}
    mem, heap = S['mem'], S['heap']
    byname = {tuple(f['key']): f for f in [dict(f) for f in S['files']]}
    for p in PROCS:
        for t in TAGS:
            b = mem['tab'][p][t] if p in mem['pids'] else 0
            obs['mem']['%s/%s' % (p, t)] = [heap[b - 1]['imm'], heap[b - 1]['mut']] if b else 'absent'
            f = byname.get((p, t))
            obs['files']['%s/%s' % (p, t)] = list(f['snap']) if f else 'absent'
    stored = sorted(k for k, v in ((tuple(k2), v2) for k2, v2 in store_items(S['store'])) if list(v) != [0, 0])
    obs['mem']['list'] = sorted((p, t) for p in PROCS if p in mem['pids'] for t in TAGS if mem['tab'][p][t])
    obs['files']['list'] = sorted(tuple(f['key']) for f in byname.values())
    obs['dir'] = sorted(''.join(f['name']) for f in byname.values())
    obs['stored'] = stored
    return obs


def store_items(store):
    # a TLA+ function with tuple keys parses as {frozen key: value}
    return list(store.items())


def replay(kind, ops, expected, final_state, names=None):
    """ops: [[name, pid, tag]]; expected: per op the `last` record of the successor state; names: the specification's
    FileNameTable (kind -> pid -> tag -> sequence of symbols) as evaluated by TLC. -> (divergence | None)"""
    w = World(kind)
    try:
        for i, (op, last) in enumerate(zip(ops, expected)):
            rm, rf = w.perform(op)
            em, ef = model_result(last['mem']), model_result(last['files'])
            diffs = []
            if rm != em:
                diffs.append(['in-memory', em, rm])
            if rf != ef:
                diffs.append(['pickle', ef, rf])
            if diffs:
                return {'at': i, 'op': op, 'diffs': diffs}
        obs = w.observe()
        exp = model_observe(final_state)
        diffs = []
        for nm in ('mem', 'files'):
            for k in exp[nm]:
                if exp[nm][k] != obs[nm][k]:
                    diffs.append(['final %s %s' % (nm, k), exp[nm][k], obs[nm][k]])
        if exp['dir'] != obs['dir']:
            diffs.append(['final directory', exp['dir'], obs['dir']])
        # the name function on the WHOLE key universe (stored or not), against the specification's FileName
        for nm in PROCS if names is not None else ():
            for t in TAGS:
                fn = plumpy.PicklePersister.pickle_filename(w.pid(nm), w.tag(t))
                want = ''.join(names[kind][nm][t])
                if fn != want:
                    diffs.append(['pickle_filename %s/%s' % (nm, t), want, fn])
        if diffs:
            return {'at': len(ops), 'op': 'final observation', 'diffs': diffs}
        return None
    finally:
        w.close()
