"""Real side of the Ports checks (C11, C12): TLA+ port trees -> real plumpy Process subclasses, execution, comparison.

The TLA+ side (spec/Ports.tla) prints, per port tree, one JSON document
    {"tree": <node record>, "rows": [<row per instance>]}
A C11 row is  {raw, exc, why, parsed, dev, fail};  a C12 row is  {calls, split, ret, procs:[{log, emitted, successful,
result, future, ports}], dev, fail}.  Values are encoded by Ports!Enc: atoms "i:0" / "s:d" / "n:none", mappings as JSON
objects (an empty one prints as []), frozen mappings carry the key "!fz".

Everything here uses only the public plumpy API (ProcessSpec.input/output/..._namespace, Process(inputs, loop=...),
process.inputs / raw_inputs / outputs / future() / is_successful / result(), ProcessListener.on_output_emitted).
"""
import asyncio
import collections.abc
import copy
import logging

FZ = '!fz'
PROBE = '__verif_probe__'
TYPES = {'none': None, 'int': int, 'str': str}


# ---- values ------------------------------------------------------------------------------------------------
def pyval(enc):
    """Ports!Enc encoding -> python value (frozen markers dropped)."""
    if isinstance(enc, str):
        kind, _, text = enc.partition(':')
        if kind == 'i':
            return int(text)
        if kind == 's':
            return text
        if kind == 'n':
            return None
        raise ValueError('bad atom %r' % enc)
    if isinstance(enc, list):
        if enc:
            raise ValueError('non-empty list in encoded value: %r' % (enc,))
        return {}
    return {k: pyval(v) for k, v in enc.items() if k != FZ}


def model_value(v):
    """A Ports.tla value record (as in a printed tree: default values) -> python value."""
    k = v['k']
    if k == 'int':
        return int(v['a'])
    if k == 'str':
        return v['a']
    if k == 'map':
        m = v['m']
        return {} if isinstance(m, list) else {n: model_value(x) for n, x in m.items()}
    return None


def plain(x):
    """Any nested Mapping -> nested dict (values untouched)."""
    if isinstance(x, collections.abc.Mapping):
        return {k: plain(v) for k, v in x.items()}
    return x


def strip(enc):
    """Encoded value without the frozen markers."""
    if isinstance(enc, dict):
        return {k: strip(v) for k, v in enc.items() if k != FZ}
    return enc


def is_read_only(mapping):
    """Item assignment raises TypeError (and nothing was changed)."""
    try:
        mapping[PROBE] = 1
    except TypeError:
        return True
    except Exception:  # noqa
        return False
    try:
        del mapping[PROBE]
    except Exception:  # noqa
        pass
    return False


# ---- validators of the generated specs ---------------------------------------------------------------------
def _neg(v):
    return isinstance(v, int) and not isinstance(v, bool) and v < 0


def leaf_nonneg(value, port):
    """Port validator 'nonneg': rejects a negative int.  Must never see UNSPECIFIED."""
    from plumpy.ports import UNSPECIFIED
    if value is UNSPECIFIED:
        raise AssertionError('validator called with UNSPECIFIED')
    return 'negative value' if _neg(value) else None


def leaf_pos(value, port):
    """Port validator 'pos' (Ports!ValidatorDomain = int): uses its argument as a number, as the validator of an int port may.
    Rejects 0 and negative ints; for a str / dict / None the comparison raises TypeError."""
    return None if value > 0 else 'has to be positive'


def leaf_word(value, port):
    """Port validator 'word' (domain str): uses its argument as a string.  Rejects ''; anything that is not a str has no
    `isalpha` (AttributeError)."""
    return None if value.isalpha() else 'has to be a word'


LEAF_VALIDATORS = {'none': None, 'nonneg': leaf_nonneg, 'pos': leaf_pos, 'word': leaf_word}


def ns_nonneg(values, port):
    """Namespace validator 'nonneg': rejects a mapping one of whose direct values is a negative int."""
    if not isinstance(values, collections.abc.Mapping):
        raise AssertionError('namespace validator called with a non-mapping: %r' % (values,))
    return 'negative value in namespace' if any(_neg(v) for v in values.values()) else None


def _default(node):
    d = node['def']
    if d['k'] == 'none':
        return {}
    v = model_value(d['v'])
    if d['k'] == 'call':
        return {'default': (lambda v=v: v)}
    return {'default': v}


# ---- TLA+ tree -> real Process subclass ----------------------------------------------------------------------
def _declare(spec, kind, node, prefix):
    """kind: 'input' | 'output'.  Declare the ports below `node` (a namespace record) under the dotted prefix."""
    for entry in node['ports']:
        name, p = entry['name'], entry['p']
        path = name if not prefix else prefix + '.' + name
        if p['node'] == 'leaf':
            kw = dict(required=p['dreq'], valid_type=TYPES[p['vt']],
                      validator=LEAF_VALIDATORS[p['val']])
            if kind == 'input':
                kw.update(_default(p))
                spec.input(path, **kw)
            else:
                spec.output(path, **kw)
        else:
            kw = dict(required=p['dreq'], valid_type=TYPES[p['vt']], dynamic=p['dyn'],
                      validator=ns_nonneg if p['val'] == 'nonneg' else None)
            if kind == 'input':
                spec.input_namespace(path, populate_defaults=p['pop'], **kw)
            else:
                spec.output_namespace(path, **kw)
            _declare(spec, kind, p, path)


def _root(ns, node):
    ns.required = node['dreq']
    ns.valid_type = TYPES[node['vt']]
    ns.dynamic = node['dyn']
    ns.validator = ns_nonneg if node['val'] == 'nonneg' else None


_N = [0]


def make_class(tree, kind, calls=None, ret_successful=True):
    """A fresh Process subclass (its spec is cached per class: never share classes between instances)."""
    import plumpy
    _N[0] += 1

    class Generated(plumpy.Process):
        @classmethod
        def define(cls, spec):
            super().define(spec)
            if kind == 'input':
                _root(spec.inputs, tree)
            else:
                _root(spec.outputs, tree)
            _declare(spec, kind, tree, '')

        async def run(self):
            self.verif_log = []
            for path, value in self.verif_calls:
                try:
                    self.out(path, value)
                    exc = 'none'
                except Exception as e:  # noqa
                    exc = type(e).__name__
                self.verif_log.append((exc, copy.deepcopy(self.outputs)))
            if self.verif_ret_successful:
                return 7
            return plumpy.UnsuccessfulResult(7)

    Generated.__name__ = 'Generated%d' % _N[0]
    Generated.verif_calls = ()
    Generated.verif_ret_successful = ret_successful
    return Generated


_LOOP = [None]


def loop():
    if _LOOP[0] is None or _LOOP[0].is_closed():
        _LOOP[0] = asyncio.new_event_loop()
        asyncio.set_event_loop(_LOOP[0])
        logging.disable(logging.CRITICAL)
    return _LOOP[0]


# ---- C11: one (tree, input) instance ----------------------------------------------------------------------
def _frozen_diffs(real, enc, path, diffs):
    """Every mapping the model marks frozen must refuse item assignment with TypeError."""
    if isinstance(enc, dict):
        if FZ in enc and not (isinstance(real, collections.abc.Mapping) and is_read_only(real)):
            diffs.append(('read-only at %s' % ('.'.join(path) or '<root>'), 'TypeError on item assignment', 'assignable'))
        if isinstance(real, collections.abc.Mapping):
            for k, v in enc.items():
                if k != FZ and k in real:
                    _frozen_diffs(real[k], v, path + [k], diffs)


def run_c11(tree, row):
    """Construct the real process for the row; -> (observed dict, diffs list of (what, specification, implementation))."""
    P = make_class(tree, 'input')
    raw = pyval(row['raw'])
    pristine = copy.deepcopy(raw)
    proc = None
    try:
        proc = P(raw, loop=loop())
        exc = 'none'
    except Exception as e:  # noqa
        exc = type(e).__name__
    obs = {'exc': exc}
    diffs = []
    if (exc == 'none') != (row['exc'] == 'none'):
        diffs.append(('constructor', row['exc'], exc))
    if raw != pristine:
        diffs.append(("caller's dictionary", repr(pristine), repr(raw)))
    if proc is not None:
        real_inputs = proc.inputs
        obs['inputs'] = plain(real_inputs)
        obs['raw_inputs'] = None if proc.raw_inputs is None else plain(proc.raw_inputs)
        if row['exc'] == 'none':
            want = pyval(row['parsed'])
            if obs['inputs'] != want:
                diffs.append(('inputs', repr(want), repr(obs['inputs'])))
            _frozen_diffs(real_inputs, row['parsed'], [], diffs)
        if obs['raw_inputs'] != pristine:
            diffs.append(('raw_inputs', repr(pristine), repr(obs['raw_inputs'])))
        if raw != pristine:
            pass
    return obs, diffs


# ---- C12: one (tree, calls, split, ret) instance ----------------------------------------------------------
class _Listener:
    def __init__(self):
        self.emitted = []

    def make(self):
        import plumpy
        outer = self

        class L(plumpy.ProcessListener):
            def on_output_emitted(self, process, output_port, value, dynamic):
                outer.emitted.append([output_port, copy.deepcopy(value), dynamic])
        return L()


def run_c12(tree, row):
    """Run one or two processes of one fresh class; compare each with the model's process record."""
    import plumpy
    calls = [('.'.join(c['path']), pyval(c['value'])) for c in row['calls']]
    split = row['split']
    parts = [calls] if split == 0 else [calls[:split], calls[split:]]
    P = make_class(tree, 'output', ret_successful=row['ret'])
    obs_all, diffs = [], []
    for j, part in enumerate(parts):
        want = row['procs'][j]
        tag = 'process %d: ' % (j + 1)
        proc = P(loop=loop())
        proc.verif_calls = [(p, copy.deepcopy(v)) for p, v in part]
        lst = _Listener()
        listener = lst.make()
        proc.add_process_listener(listener)
        try:
            proc.execute()
            crashed = None
        except Exception as e:  # noqa
            crashed = repr(e)
        obs = {'crashed': crashed, 'log': [[e, o] for e, o in getattr(proc, 'verif_log', [])], 'emitted': lst.emitted,
               'state': proc.state.name if hasattr(proc.state, 'name') else str(proc.state)}
        if crashed:
            diffs.append((tag + 'execute()', 'returns', crashed))
            obs_all.append(obs)
            continue
        # per call: exception or not (and which), outputs afterwards
        for k, (exc, outs) in enumerate(obs['log']):
            w = want['log'][k]
            if exc != w['exc']:
                diffs.append((tag + 'out%r' % (part[k],), w['exc'], exc))
            if outs != pyval(w['outs']):
                diffs.append((tag + 'outputs after out%r' % (part[k],), repr(pyval(w['outs'])), repr(outs)))
        if len(obs['log']) != len(want['log']):
            diffs.append((tag + 'calls made', len(want['log']), len(obs['log'])))
        wem = [['.'.join(e[0]), pyval(e[1]), e[2]] for e in want['emitted']]
        if obs['emitted'] != wem:
            diffs.append((tag + 'on_output_emitted', repr(wem), repr(obs['emitted'])))
        obs['outputs'] = copy.deepcopy(proc.outputs)
        try:
            obs['future'] = copy.deepcopy(proc.future().result()) if proc.future().done() else '<pending>'
        except Exception as e:  # noqa
            obs['future'] = 'raised %r' % (e,)
        if obs['future'] != pyval(want['future']):
            diffs.append((tag + 'future().result()', repr(pyval(want['future'])), repr(obs['future'])))
        obs['is_successful'] = proc.is_successful
        if obs['is_successful'] != want['successful']:
            diffs.append((tag + 'is_successful', want['successful'], obs['is_successful']))
        try:
            obs['result'] = proc.result()
        except Exception as e:  # noqa
            obs['result'] = 'raised %r' % (e,)
        if obs['result'] != pyval(want['result']):
            diffs.append((tag + 'result()', repr(pyval(want['result'])), repr(obs['result'])))
        if obs['state'] != want['state']:
            diffs.append((tag + 'state', want['state'], obs['state']))
        obs['spec_ports'] = list(P.spec().outputs.keys())
        if obs['spec_ports'] != list(want['ports']):
            diffs.append((tag + 'top-level ports of the class output spec afterwards', repr(list(want['ports'])),
                          repr(obs['spec_ports'])))
        obs_all.append(obs)
    return obs_all, diffs
