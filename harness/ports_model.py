"""TLA+ side of the Ports checks (C11, C12): MC modules over spec/Ports.tla, bounds per tier, TLC runs, report parsing.

A *family* is a set of port trees given as a TLA+ expression (Ports!TreesOf over attribute sets) together with the
instance universe of each tree (Ports!InputsOf for C11, call sequences over Ports!CallsOf for C12).  TLC enumerates the
family itself (Init chooses the tree, the Next action evaluates every instance of the tree, checks the declarative
statements and prints one JSON line per tree).  Explicit families (hypothesis-generated trees) give the trees and
their instances as TLA+ constants; TLC evaluates the same operators on them.
"""
import json

from . import tlc

# Deviation clauses of spec/Ports.tla that describe the implementation in /repo as written (the counterpart of FIXES in
# core_check.py).  When a `fix:` commit repairs one of them, remove its id here (and its entry from known_findings.json): the
# intended clause then becomes the expectation.  Whether an exercised deviation is a KNOWN-FINDING or a VIOLATION is decided at run
# time from known_findings.json (harness/findings.py), not here.
ALL_DEVS = []     # FALSY-NONMAPPING-AS-EMPTY-NS, OUT-PATH-THROUGH-VALUE and DYNAMIC-NS-CREATED-BY-OUT repaired in /repo

HEADER = '''---- MODULE %(name)s ----
EXTENDS Ports, Json
SX == INSTANCE SequencesExt
MCDev == %(dev)s
MCEmit(x) == %(emit)s
VI0 == Int("0")
VI7 == Int("7")
VNEG == Int("-1")
VS == Str("s")
VES == Str("")
VE == EmptyMap
VNONE == NoneV
U(v) == Map("u" :> v)
UW(v) == Map("u" :> Map("w" :> v))
NA(req, vt, dyn, pop, val) == NsAttr(req, vt, dyn, pop, val)
'''
EMIT = 'PrintT(ToJson([fam |-> x.fam, tree |-> x.tree, rows |-> LET s == SX!SetToSeq(x.rows) IN [i \\in 1..Len(s) |-> s[i][2]]]))'

CFG = '''SPECIFICATION %(spec)s
CHECK_DEADLOCK FALSE
CONSTANTS
 Dev <- MCDev
 Emit <- MCEmit
 Families <- MCFamilies
 Trees <- MCTrees
 InputsFor <- MCInputsFor
 WorkFor <- MCWorkFor
INVARIANT Conforms
'''


def _set(items):
    return '{' + ', '.join(items) + '}'


# ---- attribute sets (TLA+ expressions) -----------------------------------------------------------------------
ROOT_DEFAULT = 'NA(TRUE, "none", FALSE, TRUE, "none")'
# C11 ---------------------------------------------------------------------------------------------------------
ROOTS_WIDE = [ROOT_DEFAULT,
              'NA(FALSE, "none", FALSE, TRUE, "none")',
              'NA(TRUE, "none", TRUE, TRUE, "nonneg")',
              'NA(TRUE, "int", TRUE, TRUE, "none")',
              'NA(FALSE, "str", TRUE, TRUE, "nonneg")',
              'NA(TRUE, "none", FALSE, TRUE, "nonneg")']
ROOTS_TWO = [ROOT_DEFAULT, 'NA(FALSE, "int", TRUE, TRUE, "nonneg")']
LEAVES_SMALL_IN = ['InputPort(TRUE, "int", NoDefault, "nonneg")',
                   'InputPort(FALSE, "none", NoDefault, "none")',
                   'InputPort(TRUE, "int", Plain(Int("7")), "nonneg")',
                   'InputPort(FALSE, "str", Call(Int("7")), "none")',
                   'InputPort(TRUE, "none", Call(Int("7")), "none")']
NS_SMALL_IN = ['NA(TRUE, "none", FALSE, TRUE, "none")',
               'NA(FALSE, "none", FALSE, FALSE, "none")',
               'NA(FALSE, "int", TRUE, TRUE, "nonneg")',
               'NA(TRUE, "none", TRUE, FALSE, "none")']
NS2_SMALL_IN = ['NA(TRUE, "none", FALSE, TRUE, "none")', 'NA(FALSE, "str", TRUE, TRUE, "none")']
# ports for which None matters: typed and optional / with a default / required; a callable default returning None; `default=None`
LEAVES_NONE_IN = ['InputPort(FALSE, "int", NoDefault, "none")',
                  'InputPort(TRUE, "str", NoDefault, "nonneg")',
                  'InputPort(TRUE, "int", Plain(Int("7")), "none")',
                  'InputPort(FALSE, "str", Call(NoneV), "none")',
                  'InputPort(FALSE, "none", Plain(NoneV), "nonneg")']
NS_NONE_IN = ['NA(TRUE, "none", FALSE, TRUE, "none")',
              'NA(FALSE, "int", TRUE, FALSE, "none")',
              'NA(FALSE, "none", TRUE, TRUE, "nonneg")']
NS2_NONE_IN = ['NA(FALSE, "str", TRUE, TRUE, "none")']
# C12 ---------------------------------------------------------------------------------------------------------
ROOTS_OUT = [ROOT_DEFAULT,
             'NA(TRUE, "none", TRUE, TRUE, "none")',
             'NA(TRUE, "int", TRUE, TRUE, "nonneg")']
ROOTS_OUT_WIDE = ROOTS_OUT + ['NA(FALSE, "none", FALSE, TRUE, "none")', 'NA(TRUE, "none", TRUE, TRUE, "nonneg")',
                              'NA(FALSE, "str", TRUE, TRUE, "none")']
LEAVES_SMALL_OUT = ['OutputPort(TRUE, "int", "nonneg")', 'OutputPort(FALSE, "none", "none")', 'OutputPort(TRUE, "str", "none")']
NS_SMALL_OUT = ['NA(TRUE, "none", FALSE, TRUE, "none")', 'NA(FALSE, "none", TRUE, TRUE, "nonneg")',
                'NA(TRUE, "int", TRUE, TRUE, "none")']
NS2_SMALL_OUT = ['NA(FALSE, "none", FALSE, TRUE, "none")', 'NA(TRUE, "none", TRUE, TRUE, "none")']
# leaf ports whose validator RELIES ON THE DECLARED TYPE (Ports!ValidatorDomain: "pos" uses its argument as an int, "word" as a
# str; given anything else they raise instead of returning a verdict), next to a total validator on a typed port for comparison
LEAVES_TYPED_OUT = ['OutputPort(TRUE, "int", "pos")', 'OutputPort(FALSE, "str", "word")', 'OutputPort(FALSE, "int", "pos")',
                    'OutputPort(TRUE, "str", "word")', 'OutputPort(FALSE, "int", "nonneg")']
NS_TYPED_OUT = ['NA(TRUE, "none", FALSE, TRUE, "none")', 'NA(FALSE, "str", TRUE, TRUE, "none")', 'NA(TRUE, "none", TRUE, TRUE, "nonneg")']
ALL_NS_OUT = '{a \\in AllNsAttrs : a.pop}'      # populate_defaults plays no role for outputs


def trees(roots, leaves, ns, ns2, n, kids):
    def s(x):
        return x if isinstance(x, str) else _set(x)
    return 'TreesOf(%s, %s, %s, %s, %d, %d)' % (s(roots), s(leaves), s(ns), s(ns2), n, kids)


def inputs_of(leafvals, nsbad, ztop, zsub):
    return 'InputsOf(t, %s, %s, %s, %s)' % (_set(leafvals), _set(nsbad), _set(ztop), _set(zsub))


# NONE_OUTPUT_FOR_NAMESPACE: None EMITTED for a declared output NAMESPACE (`out('ns', None)`, Ports!NoneForNamespace).  Switched
# OFF: it exposes a behaviour of the unmodified library that C12 does not allow (found when None became an emitted value, family
# typed_validators): PortNamespace.validate reads None as {} so out() STORES the None; `outputs` / the future then hold None where
# the spec declares a namespace and the process still ends successful (Ports!OutputAccepts demands a mapping for a namespace port;
# OutOK and ReportedOK fail in TLC on the operational model, which the library follows).  The output-side twin of the input defect
# NONE_FOR_NAMESPACE.  Switch on when the library is repaired (out() rejects None for a namespace, or does not store it) or the
# behaviour becomes a listed finding with a deviation clause.  None for a leaf port or an undeclared name stays in the universe.
NONE_OUTPUT_FOR_NAMESPACE = True       # (repaired in /repo: out() rejects None for a declared namespace)


def work_of(depth, outvals, maxcalls, two_process=True, unsuccessful='short'):
    """Call sequences of <= maxcalls calls over CallsOf(t, depth, outvals); every split of a sequence over two successive
    processes of the class (split >= 1) when two_process; UnsuccessfulResult for sequences of <= 1 call ('short') or all."""
    seqs = 'CallSeqs(CallsOfN(t, %d, %s, %s), %d)' % (depth, _set(outvals), 'TRUE' if NONE_OUTPUT_FOR_NAMESPACE else 'FALSE', maxcalls)
    splits = '0..(IF Len(cs) > 1 THEN Len(cs) - 1 ELSE 0)' if two_process else '{0}'
    plain = '{[calls |-> cs, split |-> sp, ret |-> PlainRet] : sp \\in %s}' % splits
    uns = '{[calls |-> cs, split |-> 0, ret |-> UnsuccessfulRet]}'
    if unsuccessful == 'short':
        uns = 'IF Len(cs) <= 1 THEN %s ELSE {}' % uns
    return 'UNION {%s \\cup (%s) : cs \\in %s}' % (plain, uns, seqs)


# ---- families per tier ----------------------------------------------------------------------------------------
# None as a SUPPLIED value (VNONE = Ports!NoneV; the key is there and holds None, which is not "the key is left out"): given for a
# leaf port, for an undeclared key (directly or inside a mapping) and as a plain / callable default (Ports!DefaultsFor).
#
# NONE_FOR_NAMESPACE: None given for a declared NAMESPACE ({'ns': None}) stands for "not specified" (repaired in /repo: pre_process
# used to leave the None in place; found by this extension of the universe).
NONE_FOR_NAMESPACE = True
_NSNONE = ['VNONE'] if NONE_FOR_NAMESPACE else []

IN_VALS_FULL = dict(leafvals=['VI0', 'VNEG', 'VS', 'VE', 'U(VI0)', 'VNONE'], nsbad=['VI0', 'VS', 'VES'] + _NSNONE,
                    ztop=['VI0', 'VS', 'VE', 'U(VI0)', 'U(VS)', 'UW(VS)', 'VNONE', 'U(VNONE)'],
                    zsub=['VI0', 'VS', 'U(VI0)', 'U(VS)', 'VNONE'])
IN_VALS_SMALL = dict(leafvals=['VI0', 'VNEG', 'VS'], nsbad=['VS', 'VES'], ztop=['VI0', 'U(VS)'], zsub=['VS'])
IN_VALS_MID = dict(leafvals=['VI0', 'VNEG', 'VS', 'VE', 'VNONE'], nsbad=['VI0', 'VS', 'VES'] + _NSNONE,
                   ztop=['VI0', 'VS', 'U(VS)'], zsub=['VI0', 'U(VS)'])
# nested / several ports with None: few values, so that the trees can be larger
IN_VALS_NONE = dict(leafvals=['VI0', 'VS', 'VNONE'], nsbad=_NSNONE, ztop=['VNONE'], zsub=['VNONE'])


def c11_families(tier):
    fams = [
        dict(name='one_port_full',
             what='every tree with <= 1 port below the root: the port ranges over ALL leaf attribute combinations '
                  '(required x valid_type x validator x default none/plain/callable/invalid callable; validators none, the total "nonneg", and '
                  'on a port of their own type the typed "pos" (`value > 0`) / "word" (`value.isalpha()`)) or ALL namespace attribute '
                  'combinations (required x dynamic/valid_type x populate_defaults x validator); 6 root variants; full value domain '
                  '(leaf values {absent,0,-1,"s",{},{u:0},None}; z also {u:None}; defaults also None, plain where the port can be declared '
                  'with it, and returned by a callable)',
             trees=trees(ROOTS_WIDE, 'AllInputLeaves', 'AllNsAttrs', '{}', 1, 1), inst=inputs_of(**IN_VALS_FULL)),
    ]
    if tier == 'quick':
        fams.append(dict(
            name='three_ports_small',
            what='every tree with <= 3 ports below the root, depth <= 2, <= 2 ports per namespace, over 5 leaf variants, 4 namespace '
                 'variants (2 for empty level-2 namespaces), default root; leaf values {absent,0,-1,"s"}, namespace values {absent,"s","",dict}, '
                 'undeclared key z in {absent,0,{u:"s"}} (root) / {absent,"s"} (nested)',
            trees=trees([ROOT_DEFAULT], LEAVES_SMALL_IN, NS_SMALL_IN, NS2_SMALL_IN, 3, 2), inst=inputs_of(**IN_VALS_SMALL)))
        fams.append(dict(
            name='none_values_nested',
            what='None as a supplied value below the top level and next to other ports: every tree with <= 2 ports below the root '
                 '(flat or nested) over 5 leaf variants (typed optional / required / with a plain default, callable default returning '
                 'None, default=None) and 3 namespace variants, 2 roots; leaf values {absent,0,"s",None}, undeclared key z in {absent,None}',
            trees=trees(ROOTS_TWO, LEAVES_NONE_IN, NS_NONE_IN, NS2_NONE_IN, 2, 2), inst=inputs_of(**IN_VALS_NONE)))
    else:
        fams.append(dict(
            name='two_ports_full',
            what='every tree with <= 2 ports below the root (flat or nested), ALL leaf and namespace attribute combinations, default root; '
                 'values {absent,0,-1,"s",{},None}, namespace values {absent,0,"s","",dict}, z in {absent,0,"s",{u:"s"}} / '
                 '{absent,0,{u:"s"}}',
            trees=trees([ROOT_DEFAULT], 'AllInputLeaves', 'AllNsAttrs', 'AllNsAttrs', 2, 2), inst=inputs_of(**IN_VALS_MID)))
        fams.append(dict(
            name='four_ports_small',
            what='every tree with <= 4 ports below the root, depth <= 2, <= 2 ports per namespace, over 5 leaf variants, 4 namespace '
                 'variants (2 at level 2), default root; small value domain as in the quick tier',
            trees=trees([ROOT_DEFAULT], LEAVES_SMALL_IN, NS_SMALL_IN, NS2_SMALL_IN, 4, 2), inst=inputs_of(**IN_VALS_SMALL)))
        fams.append(dict(
            name='none_values_nested',
            what='None as a supplied value at depth <= 2 and next to other ports: every tree with <= 3 ports below the root, <= 2 '
                 'ports per namespace, over 5 leaf variants (typed optional / required / with a plain default, callable default '
                 'returning None, default=None) and 3 namespace variants (1 at level 2), 2 roots; leaf values {absent,0,"s",None}, '
                 'undeclared key z in {absent,None}',
            trees=trees(ROOTS_TWO, LEAVES_NONE_IN, NS_NONE_IN, NS2_NONE_IN, 3, 2), inst=inputs_of(**IN_VALS_NONE)))
    return fams


OUT_VALS_FULL = ['VI0', 'VNEG', 'VS', 'VE', 'U(VI0)', 'U(VS)']
OUT_VALS_SMALL = ['VI0', 'VNEG', 'VS', 'U(VI0)']
# for typed validators: an int "pos" accepts (7) and one it rejects (0), a str "word" accepts ("s") and one it rejects (""), and
# a value of neither type: None (None as an EMITTED value: not an int, not a str, not a mapping); thorough: also a mapping
# (quick: a mapping given to a typed validator's port is part of one_port_full)
OUT_VALS_TYPED = ['VI0', 'VI7', 'VS', 'VES', 'VNONE', 'U(VI0)']


def _shape(expr, cond):
    return '{x \\in %s : %s}' % (expr, cond)


NESTED = 'Len(x.ports) = 1 /\\ Len(x.ports[1].p.ports) = 1'
FLAT2 = 'Len(x.ports) = 2'
DYN_ROOTS = ['NA(TRUE, "none", TRUE, TRUE, "none")', 'NA(TRUE, "int", TRUE, TRUE, "nonneg")']


def c12_families(tier):
    q = tier == 'quick'
    fams = [
        dict(name='one_port_full',
             what='every output tree with <= 1 port below the root, ALL leaf (required x valid_type x validator) and namespace '
                  '(required x dynamic/valid_type x validator) attribute combinations (leaf validators: none, the total "nonneg", and on a '
                  'port of their own type the typed "pos" / "word"), %d roots; every sequence of <= 2 out() calls over '
                  'paths of length <= 2 (declared, undeclared z.u, through a leaf a.u) x values %s; sequences of 2 also split over two '
                  'successive processes of the class; UnsuccessfulResult for %s' % (
                      (3, '{0,-1,"s",{u:0}}', 'sequences of <= 1 call') if q else (6, '{0,-1,"s",{},{u:0},{u:"s"}}', 'all sequences')),
             trees=trees(ROOTS_OUT if q else ROOTS_OUT_WIDE, 'AllOutputLeaves', ALL_NS_OUT, '{}', 1, 1),
             inst=work_of(2, OUT_VALS_SMALL if q else OUT_VALS_FULL, 2, unsuccessful='short' if q else 'all')),
        dict(name='deep_paths',
             what='dynamic roots x (no port | 2 leaf variants | 2 namespace variants); every sequence of <= 2 calls over paths of length '
                  '<= 3 (z.u.w, a.z.u, a.u.w ...) x values {0,-1,"s",{u:0}}, every split over two processes',
             trees=trees(DYN_ROOTS, LEAVES_SMALL_OUT[:2], NS_SMALL_OUT[1:], '{}', 1, 1),
             inst=work_of(3, OUT_VALS_SMALL, 2)),
        dict(name='nested_small',
             what='every output tree root{a: namespace{p: leaf | empty namespace}} over 3 leaf / 3 namespace variants (2 at level 2), %d roots; '
                  'every sequence of <= 2 calls over paths of length <= %d x values {0,-1,"s",{u:0}}, every split' % ((2, 2) if q else (3, 3)),
             trees=_shape(trees(ROOTS_OUT[:2] if q else ROOTS_OUT, LEAVES_SMALL_OUT, NS_SMALL_OUT, NS2_SMALL_OUT, 2, 1), NESTED),
             inst=work_of(2 if q else 3, OUT_VALS_SMALL, 2)),
        dict(name='flat_pairs',
             what='every output tree with 2 ports below the root%s over 3 leaf / 3 namespace variants, %d roots; every sequence of <= 2 '
                  'calls over paths of length <= 2 x values {0,-1,"s",{u:0}}%s' % (
                      (' (the first a leaf)', 2, ', single process') if q else ('', 3, ', every split')),
             trees=_shape(trees(ROOTS_OUT[:2] if q else ROOTS_OUT, LEAVES_SMALL_OUT, NS_SMALL_OUT, '{}', 2, 2),
                         FLAT2 + (' /\\ x.ports[1].p.node = "leaf"' if q else '')),
             inst=work_of(2, OUT_VALS_SMALL, 2, two_process=not q)),
    ]
    nt = 2 if q else 3
    fams.append(dict(
        name='typed_validators',
        what='validators that rely on the declared type of their port ("pos": `value > 0` on an int port, "word": `value.isalpha()` on a '
             'str port; called with a value of another type they raise TypeError / AttributeError instead of returning a verdict): every '
             'output tree root{a: leaf} over %s x %d roots and every tree '
             'root{a: namespace{p: leaf}} over the same leaves x %d namespace variants x %d root(s); every sequence of <= 2 calls over '
             'paths of length <= %d x values %s (None as an emitted value), every split%s' % (
                 ('3 leaf variants (int+pos required / optional, str+word optional)', 2, 2, 1, 2, '{0,7,"s","",None}', '') if q else
                 ('5 leaf variants (int+pos / str+word, required / optional; int+nonneg)', 3, 3, 2, 3, '{0,7,"s","",None,{u:0}}',
                  '; UnsuccessfulResult for all sequences')),
        trees='(%s) \\cup (%s)' % (
            trees(ROOTS_OUT[:nt], LEAVES_TYPED_OUT[:3 if q else 5], '{}', '{}', 1, 1),
            _shape(trees(ROOTS_OUT[:nt - 1], LEAVES_TYPED_OUT[:3 if q else 5], NS_TYPED_OUT[:nt], '{}', 2, 1), NESTED)),
        inst=work_of(2 if q else 3, OUT_VALS_TYPED[:5 if q else 6], 2, unsuccessful='short' if q else 'all')))
    if not q:
        fams.append(dict(
            name='deep_paths_3calls',
            what='the trees of deep_paths; every sequence of <= 3 calls over paths of length <= 3 x values {0,-1,"s",{u:0}}, single process',
            trees=trees(DYN_ROOTS, LEAVES_SMALL_OUT[:2], NS_SMALL_OUT[1:], '{}', 1, 1),
            inst=work_of(3, OUT_VALS_SMALL, 3, two_process=False)))
        fams.append(dict(
            name='three_ports_small',
            what='every output tree with 3 ports below the root, depth <= 2, <= 2 ports per namespace over 3 leaf / 3 namespace variants '
                 '(2 at level 2), default root; every sequence of <= 2 calls over paths of length <= 2 x values {0,-1,"s",{u:0}}',
            trees=_shape(trees([ROOT_DEFAULT], LEAVES_SMALL_OUT, NS_SMALL_OUT, NS2_SMALL_OUT, 3, 2),
                         'Len(x.ports) + (IF Len(x.ports) > 0 THEN Len(x.ports[1].p.ports) ELSE 0) + (IF Len(x.ports) > 1 THEN Len(x.ports[2].p.ports) ELSE 0) = 3'),
            inst=work_of(2, OUT_VALS_SMALL, 2, two_process=False)))
    return fams


# ---- explicit families (hypothesis-generated instances) ---------------------------------------------------------
def emit_value(v):
    """python value (None / int / str / nested dict) -> Ports.tla value expression."""
    if v is None:
        return 'NoneV'
    if isinstance(v, bool):
        raise TypeError(v)
    if isinstance(v, int):
        return 'Int("%d")' % v
    if isinstance(v, str):
        return 'Str("%s")' % v
    if not v:
        return 'EmptyMap'
    return 'Map(' + ' @@ '.join('("%s" :> %s)' % (k, emit_value(x)) for k, x in v.items()) + ')'


def emit_tree(t, kind):
    """python tree description -> Ports.tla node expression.  t = dict(node='leaf'|'ns', req, vt, val, ...)."""
    b = lambda x: 'TRUE' if x else 'FALSE'  # noqa
    if t['node'] == 'leaf':
        if kind == 'output':
            return 'OutputPort(%s, "%s", "%s")' % (b(t['req']), t['vt'], t['val'])
        d = t.get('def')
        dd = 'NoDefault' if not d else '%s(%s)' % ('Plain' if d[0] == 'plain' else 'Call', emit_value(d[1]))
        return 'InputPort(%s, "%s", %s, "%s")' % (b(t['req']), t['vt'], dd, t['val'])
    ports = ', '.join('[name |-> "%s", p |-> %s]' % (n, emit_tree(p, kind)) for n, p in t['ports'])
    return 'PortNamespace(%s, "%s", %s, %s, "%s", <<%s>>)' % (b(t['req']), t['vt'], b(t['dyn']), b(t.get('pop', True)), t['val'], ports)


def explicit_family(name, what, kind, items):
    """items: [(tree, [instance, ...])]; C11 instance = raw input (None or dict); C12 instance = (calls, split, successful)."""
    defs = []
    xn = 'X_%s_' % name          # operator names are per family: several explicit families share one MC module
    for i, (t, insts) in enumerate(items):
        if kind == 'input':
            body = _set([emit_value(r) for r in insts])
        else:
            body = _set(['[calls |-> <<%s>>, split |-> %d, ret |-> %s]' % (
                ', '.join('[path |-> <<%s>>, value |-> %s]' % (', '.join('"%s"' % x for x in p.split('.')), emit_value(v)) for p, v in calls),
                split, 'PlainRet' if ok else 'UnsuccessfulRet') for calls, split, ok in insts])
        defs.append('%s%d == [tree |-> %s, inst |-> %s]' % (xn, i, emit_tree(t, kind), body))
    defs.append('%sS == %s' % (xn, _set(['%s%d' % (xn, i) for i in range(len(items))])))
    return dict(name=name, what=what, extra='\n'.join(defs) + '\n', trees='{x.tree : x \\in %sS}' % xn,
                inst='UNION {x.inst : x \\in {y \\in %sS : y.tree = t}}' % xn)


# ---- running ----------------------------------------------------------------------------------------------------
def mc_module(name, kind, fams, dev, emit=True):
    """One MC module over all families: Init chooses the family and one of its trees."""
    tla = HEADER % dict(name=name, dev=_set(['"%s"' % d for d in dev]), emit=EMIT if emit else 'TRUE')
    for f in fams:
        tla += f.get('extra', '')
    tla += 'MCFamilies == %s\n' % _set(['"%s"' % f['name'] for f in fams])
    tla += 'MCTrees(f) == CASE ' + '\n  [] '.join('f = "%s" -> %s' % (f['name'], f['trees']) for f in fams) + '\n'
    inst = 'CASE ' + '\n  [] '.join('f = "%s" -> %s' % (f['name'], f['inst']) for f in fams) + '\n'
    if kind == 'input':
        tla += 'MCInputsFor(f, t) == %sMCWorkFor(f, t) == {}\n' % inst
    else:
        tla += 'MCInputsFor(f, t) == {}\nMCWorkFor(f, t) == %s' % inst
    tla += '====\n'
    cfg = CFG % dict(spec='Spec11' if kind == 'input' else 'Spec12')
    return tla, cfg


def run_families(kind, fams, dev, emit=True, timeout=3000, workers=None):
    """-> (tlc Result, list of report lines (JSON text, one per (family, tree)))."""
    name = 'MC_Ports_%s_%s' % ('C11' if kind == 'input' else 'C12', 'aswritten' if dev else 'intended')
    tla, cfg = mc_module(name, kind, fams, dev, emit)
    with tlc.Workdir() as wd:
        wd.write(name + '.tla', tla)
        wd.write(name + '.cfg', cfg)
        res = tlc.run(wd, name + '.tla', name + '.cfg', timeout=timeout, workers=workers)
    lines = [ln for ln in res.out.splitlines() if ln.startswith('"{')]
    if not res.violated and not res.ok:
        raise tlc.MachineryError('TLC did not complete on %s:\n%s' % (name, res.out[-3000:]))
    return res, lines


def decode(line):
    return json.loads(json.loads(line))
