"""The implementation side of the ProcessCore binding.

`Run` instantiates a real plumpy.Process for a program / plan given in the vocabulary of
spec/ProcessCore.tla, drives it on a single-stepping loop and produces

  * the event log in the specification's vocabulary (same tuples as S.log),
  * the public projection after every action (same shape as `project_model` gives for a TLC state).

No plumpy source is changed: user hooks are overridden in a generated subclass, notifications come
through a ProcessListener, transitions through add_state_event_callback, and CancellableAction
objects are numbered in creation order by wrapping their constructor inside this interpreter only.
"""
import asyncio
import warnings

import kiwipy
import plumpy
from plumpy import futures as pfutures
from plumpy import process_states as ps
from plumpy.base import state_machine as sm
from plumpy.process_comms import MessageBuilder

from . import vloop


warnings.filterwarnings('ignore', category=RuntimeWarning, message='coroutine .* was never awaited')


class Injected(Exception):
    """An exception raised by generated user code; `tag` is its name in the specification."""

    def __init__(self, tag):
        super().__init__(tag)
        self.tag = tag

    def __reduce__(self):
        return (Injected, (self.tag,))


def exc_tag(e):
    if e is None:
        return '-'
    if isinstance(e, Injected):
        return e.tag
    if isinstance(e, plumpy.KilledError):
        return 'KilledError'
    if isinstance(e, asyncio.CancelledError):
        return 'CancelledError'
    return type(e).__name__


_LOCK = __import__('threading').Lock()          # a value that can be neither copied nor pickled


def pyval(v):
    """model value -> python value"""
    if v == '-':
        return None
    if v == 'lk':
        return _LOCK
    if isinstance(v, str) and len(v) > 1 and v[0] == 'm' and v[1:].isdigit():
        return ['m', int(v[1:])]          # a MUTABLE value: the step that receives it mutates it in place
    if isinstance(v, str) and len(v) > 1 and v[0] == 'v' and v[1:].isdigit():
        return int(v[1:])
    return v


def mval(v):
    """python value -> model value"""
    if v is None:
        return '-'
    if v is _LOCK:
        return 'lk'
    if v is True:
        return 'True'
    if v is False:
        return 'False'
    if isinstance(v, int):
        return 'v%d' % v
    if isinstance(v, BaseException):
        return exc_tag(v)
    if isinstance(v, list) and len(v) >= 2 and v[0] == 'm':
        return 'm%d' % v[1] + ''.join('+' for _ in v[2:])      # 'm1' as handed over; 'm1+' once mutated
    if isinstance(v, (str, list, tuple, dict)):
        return v
    return repr(v)


# ---- numbering of CancellableAction objects (harness-side wrapping only) -------------------------
_ACTS = []
_CURRENT = [None]        # the process of the run in progress (garbage of earlier runs must not be attributed to it)
_orig_ca_init = pfutures.CancellableAction.__init__


def _action_owner(fn):
    import functools
    if isinstance(fn, functools.partial):
        return getattr(fn.func, '__self__', None)
    for c in getattr(fn, '__closure__', None) or ():
        try:
            v = c.cell_contents
        except ValueError:
            continue
        if isinstance(v, plumpy.Process):
            return v
    return None


def _ca_init(self, action, cookie=None):
    _orig_ca_init(self, action, cookie)
    owner = _action_owner(action)
    if owner is not None and owner is not _CURRENT[0]:
        self._verif_id = -1
        return
    _ACTS.append(self)
    self._verif_id = len(_ACTS)


pfutures.CancellableAction.__init__ = _ca_init


def act_status(a):
    if a.cancelled():
        return 'cancelled'
    if not a.done():
        return 'pending'
    e = a.exception()
    if e is not None:
        return 'failed:' + exc_tag(e)
    return 'doneFalse' if a.result() is False else 'done'


LABEL = {ps.ProcessState.CREATED: 'CREATED', ps.ProcessState.RUNNING: 'RUNNING', ps.ProcessState.WAITING: 'WAITING',
         ps.ProcessState.FINISHED: 'FINISHED', ps.ProcessState.EXCEPTED: 'EXCEPTED', ps.ProcessState.KILLED: 'KILLED'}

USER_HOOKS = ['on_run', 'on_wait', 'on_finish', 'on_except', 'on_kill', 'on_running', 'on_waiting', 'on_finished',
              'on_excepted', 'on_killed', 'on_exit_running', 'on_exit_waiting', 'on_pausing', 'on_paused',
              'on_playing', 'on_close', 'on_output_emitting', 'on_output_emitted', 'on_create']


class Hooks:
    """Plan: list of dicts {hook, occ, req, arg}; occurrence counters only for hooks named in the plan."""

    def __init__(self, plan, log):
        self.plan = plan
        self.names = {p['hook'] for p in plan}
        self.occ = {n: 0 for n in self.names}
        self.log = log

    def fire(self, proc, name):
        run = getattr(self, 'run', None)
        if name not in self.names or (run is not None and getattr(run, 'proc', proc) not in (proc, None)):
            return          # (run.proc is None: the process is being constructed)
        self.occ[name] += 1
        k = self.occ[name]
        for p in self.plan:
            if p['hook'] == name and p['occ'] == k:
                self.perform(proc, p, name, k)
                return

    def fire_comm(self, subject):
        """the k-th state_changed broadcast after construction (hook 'bcast'): a planned fault makes broadcast_send raise"""
        if 'bcast' not in self.names:
            return
        self.occ['bcast'] += 1
        k = self.occ['bcast']
        for p in self.plan:
            if p['hook'] == 'bcast' and p['occ'] == k and p['req'] == 'fault':
                self.log.append(('fault', 'bcast', k, p['arg']))
                raise comm_exception(p['arg'])

    def fire_sub(self, name):
        """the communicator is asked to subscribe the process (hooks 'sub_rpc', 'sub_bc'): a planned fault makes it raise"""
        if name not in self.names:
            return
        self.occ[name] += 1
        for p in self.plan:
            if p['hook'] == name and p['occ'] == self.occ[name] and p['req'] == 'fault':
                self.log.append(('fault', name, self.occ[name], p['arg']))
                raise comm_exception(p['arg'])

    def perform(self, proc, p, name, k):
        req, arg = p['req'], p['arg']
        if req == 'fault':
            self.log.append(('fault', name, k, arg))
            raise Injected(arg)
        if req == 'save':
            self.run.snapshot()
            return
        ret, exc = '-', '-'
        try:
            if req == 'kill':
                ret = proc.kill(pyval(arg))
            elif req == 'pause':
                ret = proc.pause(pyval(arg))
            elif req == 'play':
                ret = proc.play()
            elif req == 'resume':
                ret = proc.resume() if arg == 'NULL' else proc.resume(pyval(arg))
            else:
                return
        except Exception as e:  # the generated hook records the outcome of its re-entrant call and goes on
            exc = exc_tag(e)
        self.log.append(('call', req, '-' if req == 'play' else arg, ret_tag(ret), exc, name))


def ret_tag(r):
    if r is True:
        return 'True'
    if r is False:
        return 'False'
    if r is None or r == '-':
        return '-'
    if isinstance(r, pfutures.CancellableAction):
        return 'act:%d' % r._verif_id
    return 'other:%r' % (r,)


class Passive(plumpy.ProcessListener):
    """A listener that only counts what it is told (C02: every listener is notified even if another one raises)."""

    def __init__(self, counter):
        super().__init__()
        self.counter = counter

    def _n(self, *a, **k):
        self.counter[0] += 1
    on_process_running = on_process_waiting = on_process_paused = on_process_played = _n
    on_output_emitted = on_process_finished = on_process_excepted = on_process_killed = _n


class ChildProc(plumpy.Process):
    """A child launched from a workchain step: waits until the environment resumes it, finishes with that value."""

    def run(self):
        return ps.Wait(self.finish)

    def finish(self, value):
        self.out('value', value)
        return value

    @classmethod
    def define(cls, spec):
        super().define(spec)
        spec.outputs.dynamic = True


class Recorder(plumpy.ProcessListener):
    def __init__(self, log, hooks):
        super().__init__()
        self.log = log
        self.hooks = hooks

    def _n(self, proc, evt, arg='-'):
        self.log.append(('notify', evt, arg))
        self.hooks.fire(proc, 'L_' + evt)

    def on_process_running(self, process):
        self._n(process, 'running')

    def on_process_waiting(self, process):
        self._n(process, 'waiting')

    def on_process_paused(self, process):
        self._n(process, 'paused')

    def on_process_played(self, process):
        self._n(process, 'played')

    def on_output_emitted(self, process, output_port, value, dynamic):
        self._n(process, 'output', output_port)

    def on_process_finished(self, process, outputs):
        self._n(process, 'finished')

    def on_process_excepted(self, process, reason):
        e = process.future().exception()
        tag = exc_tag(e)
        # the reason handed to listeners is str(exception): it must be the text of the future's exception
        self._n(process, 'excepted', tag if reason == str(e) else 'MISMATCH:%s' % reason)

    def on_process_killed(self, process, msg):
        self._n(process, 'killed', 'NOMSG' if msg is None else (msg or {}).get('message') if isinstance(msg, dict) else msg)


def build_class(prog, out_missing=False):
    """A Process subclass whose step i behaves as descriptor prog[i-1] (step 1 is run())."""

    def command(self, d):
        cmd = d['cmd']
        if cmd == 'stop':
            v = pyval(d['val'])
            return v if d.get('plain', True) else ps.Stop(v, True)
        if cmd == 'unsucc':
            return plumpy.UnsuccessfulResult(pyval(d['val']))
        if cmd == 'continue':
            return ps.Continue(getattr(self, 'step%d' % d['next']), *[pyval(a) for a in d['args']],
                               **{k: pyval(v) for k, v in d['kw']})
        if cmd == 'wait':
            return ps.Wait(getattr(self, 'step%d' % d['next']), msg=pyval(d['val']))
        if cmd == 'kill':
            if d['val'] == 'NOMSG':
                return ps.Kill()
            return ps.Kill(MessageBuilder.kill(text=pyval(d['val'])))
        if cmd == 'raise':
            raise Injected(d['val'])
        raise AssertionError(cmd)

    def body(self, i, d, args, kwargs):
        self._vlog.append(('step', i, tuple(mval(a) for a in args), tuple(sorted((k, mval(v)) for k, v in kwargs.items())),
                           self.paused, mval(self.status)))
        if self.inputs['dflt'] != 'd0':           # every step reads a parsed input that came from a declared default
            raise AssertionError('parsed input lost: %r' % (self.inputs,))
        for a in list(args) + list(kwargs.values()):
            if isinstance(a, list) and a and a[0] == 'm':
                a.append('used')          # consume the mutable argument in place (a checkpoint must not alias it)
        if d['status'] != '-':
            self.set_status(d['status'])
        for port, val in d['emits']:
            self.out(port, pyval(val))
        self._vhooks.fire(self, 'step')

    ns = {}
    for idx, d in enumerate(prog):
        i = idx + 1

        def mk(i=i, d=d):
            if d['kind'] == 'sync':
                def fn(self, *args, **kwargs):
                    body(self, i, d, args, kwargs)
                    return command(self, d)
            else:
                async def fn(self, *args, **kwargs):
                    body(self, i, d, args, kwargs)
                    for _ in range(d['n']):
                        await asyncio.sleep(0)
                    return command(self, d)
            fn.__name__ = 'step%d' % i
            return fn
        ns['step%d' % i] = mk()
    ns['run'] = ns['step1']

    def define(cls, spec):
        super(klass, cls).define(spec)
        spec.outputs.dynamic = True
        spec.inputs.dynamic = True
        spec.input('dflt', default='d0')           # (parsed inputs differ from the raw ones, also when none are given)
        if out_missing:
            spec.output('never_emitted', required=True)
    ns['define'] = classmethod(define)

    def mk_hook(name):
        def override(self, *a, **k):
            getattr(super(klass, self), name)(*a, **k)
            self._vhooks.fire(self, name)
        override.__name__ = name
        return override
    for h in USER_HOOKS:
        ns[h] = mk_hook(h)
    klass = type('GenProc', (plumpy.Process,), ns)
    from . import outline_real
    return outline_real.register(klass)      # importable: bundles identify the class by module and name


def build_workchain_class(prog, awt):
    """Programs with awaitables: a real WorkChain with the linear outline (step1, ..., stepN)."""
    from plumpy import workchains as wcm
    ns = {}
    for idx, d in enumerate(prog):
        i = idx + 1

        def mk(i=i, d=d):
            def before(self):
                if self.inputs['dflt'] != 'd0':
                    raise AssertionError('parsed input lost: %r' % (self.inputs,))
                self._vlog.append(('step', i, (), (), self.paused, mval(self.status)))
                self._vlog.append(('ctx', tuple((k, mval(v.get('value')) if isinstance(v, dict) else mval(v))     # child: outputs
                                               for k, v in self.ctx.__dict__.items()),
                                   tuple(self._vrun.awaitable_done(j + 1) for j in range(len(awt)))))
                for j in d.get('makes', ()):
                    self._vrun.awaitable(j)                                               # created (children: launched) here
                futs = {}
                if d['cmd'] == 'await':
                    futs = {awt[j - 1]: self._vrun.awaitable(j) for j in d['aws']}
                self._vhooks.fire(self, 'step')
                return futs

            def after(self, futs):
                if d['cmd'] == 'await':
                    if d['via'] == 'call':
                        self.to_context(**futs)
                        return None
                    return wcm.ToContext(**futs)
                return None

            if d['kind'] == 'sync':
                def fn(self):
                    return after(self, before(self))
            else:
                async def fn(self):
                    futs = before(self)
                    for _ in range(d['n']):
                        await asyncio.sleep(0)
                    return after(self, futs)
            fn.__name__ = 'step%d' % i
            return fn
        ns['step%d' % i] = mk()

    def define(cls, spec):
        super(klass, cls).define(spec)
        spec.outputs.dynamic = True
        spec.inputs.dynamic = True
        spec.input('dflt', default='d0')
        spec.outline(*[getattr(cls, 'step%d' % (k + 1)) for k in range(len(prog))])
    ns['define'] = classmethod(define)

    def mk_hook(name):
        def override(self, *a, **k):
            getattr(super(klass, self), name)(*a, **k)
            self._vhooks.fire(self, name)
        override.__name__ = name
        return override
    for h in USER_HOOKS:
        ns[h] = mk_hook(h)
    klass = type('GenWorkChain', (wcm.WorkChain,), ns)
    from . import outline_real
    return outline_real.register(klass)


class HarnessCommunicator(kiwipy.LocalCommunicator):
    """In-process communicator: records state_changed broadcasts, can make broadcast_send fail at a planned occurrence."""

    def __init__(self, run):
        super().__init__()
        self.run = run
        self.armed = False

    def add_rpc_subscriber(self, subscriber, identifier=None):
        self.run.hooks.fire_sub('sub_rpc')
        return super().add_rpc_subscriber(subscriber, identifier)

    def add_broadcast_subscriber(self, subscriber, identifier=None):
        self.run.hooks.fire_sub('sub_bc')
        return super().add_broadcast_subscriber(subscriber, identifier)

    def broadcast_send(self, body, sender=None, subject=None, correlation_id=None):
        if self.armed and isinstance(subject, str) and subject.startswith('state_changed'):
            self.run.hooks.fire_comm(subject)
        if isinstance(subject, str) and subject.startswith('state_changed'):
            _, frm, to = subject.split('.')
            self.run.log.append(('bcast', 'state_changed', '-' if frm == 'None' else frm.upper(), to.upper(),
                                 ) if sender == self.run.expected_sender() else ('bcast', 'WRONG-SENDER', repr(sender), subject))
        return super().broadcast_send(body, sender=sender, subject=subject, correlation_id=correlation_id)


def comm_exception(tag):
    import aio_pika.exceptions as ae
    if tag == 'ConnectionClosed':
        return ae.ConnectionClosed(0, 'closed')
    if tag == 'ChannelInvalidStateError':
        return ae.ChannelInvalidStateError('invalid')
    if tag == 'TimeoutError':
        return kiwipy.TimeoutError('timeout')
    return Injected(tag)


class Run:
    """One execution of the real implementation, driven action by action."""

    def __init__(self, prog, plan=(), out_missing=False, medium='pickle', listener=True, check_roundtrip=False,
                 inputs=None, awt=(), children=False, comm=False):
        del _ACTS[:]
        self.loop = vloop.install()
        self.log = []
        self.hooks = Hooks(list(plan), self.log)
        self.hooks.run = self
        self.medium = medium
        self.snap = None
        self.check_roundtrip = check_roundtrip
        self.roundtrips = 0
        self.awt = list(awt)
        self.futs = {}
        self.child_tasks = set()
        self.use_children = children
        cls = build_workchain_class(prog, self.awt) if self.awt else build_class(prog, out_missing)
        self.cls = cls
        self.comm = HarnessCommunicator(self) if comm else None
        self.replies = []
        self.rpc_tramp = []          # rpc indices whose trampoline has not run yet
        self.rpc_tasks = {}          # task -> rpc index
        self.rpc_started = set()
        self.proc = None
        kw = {}
        if inputs is not None:
            kw['inputs'] = dict(inputs)
        if comm:
            kw['communicator'] = self.comm
        # construction is part of the behaviour: on_create (hook 'on_create') and the first announcement (hook 'bcast',
        # occurrence 1) happen inside the constructor; a failure there must reach the caller and leaves no process
        cls._vhooks, cls._vlog, cls._vrun = self.hooks, self.log, self
        if comm:
            self.comm.armed = True
        self.use_listener = listener
        self.n2 = [0]
        self.task = None
        try:
            self.proc = p = cls(**kw)
        except Exception as e:  # noqa
            self.log.append(('ctor-raise', exc_tag(e)))
            return
        self._attach(p)

    def expected_sender(self):
        return self.proc.pid if self.proc is not None else _AnyPid()

    # ---- remote control through the communicator ------------------------------------------------------
    def deliver(self, kind, intent, text):
        from plumpy.process_comms import MessageBuilder
        p = self.proc
        msg = {'pause': MessageBuilder.pause, 'play': MessageBuilder.play, 'kill': MessageBuilder.kill,
               'status': MessageBuilder.status}.get(intent, lambda text=None: {'intent': intent, 'message': text})(text=pyval(text))
        ident = str(p.pid)
        # the documented client side: RemoteProcessThreadController builds the message and hands it to the communicator
        # (intents it has no method for are sent as raw messages)
        from plumpy.process_comms import RemoteProcessThreadController
        ctl = RemoteProcessThreadController(self.comm)
        if kind == 'rpc':
            try:
                if intent == 'pause':
                    fut = ctl.pause_process(ident, pyval(text))
                elif intent == 'play':
                    fut = ctl.play_process(ident)
                elif intent == 'kill':
                    fut = ctl.kill_process(ident, pyval(text))
                elif intent == 'status':
                    fut = ctl.get_status(ident)
                else:
                    fut = self.comm.rpc_send(ident, msg)
            except kiwipy.UnroutableError:
                self.log.append(('rpc', intent, 'unroutable'))
                self.settle()
                return
            if fut.exception() is not None:
                self.log.append(('rpc', intent, type(fut.exception()).__name__))
            elif intent == 'status':
                info = fut.result()
                self.log.append(('rpc', 'status', info['state'].split('.')[-1], info['paused']))
            elif not asyncio.isfuture(fut.result()) and not hasattr(fut.result(), 'add_done_callback'):
                # answered on delivery instead of through an action scheduled on the loop: no counterpart in the specification,
                # reported as what it is (a divergence of the event log and of the reply list, not a failure of the harness)
                self.replies.append(fut.result())
                self.log.append(('rpc', intent, 'immediate'))
            else:
                self.replies.append(fut.result())
                self.rpc_tramp.append(len(self.replies))
                self.log.append(('rpc', intent, 'scheduled'))
        else:
            subscribed = ident in self.comm._broadcast_subscribers
            if intent == 'pause':
                ctl.pause_all(pyval(text))
            elif intent == 'play':
                ctl.play_all()
            elif intent == 'kill':
                ctl.kill_all(pyval(text))
            else:
                self.comm.broadcast_send(msg, sender='env', subject=intent)
            if not subscribed:
                self.log.append(('bcast', intent, 'unroutable'))
            elif intent in ('pause', 'play', 'kill'):
                self.replies.append(None)
                self.rpc_tramp.append(len(self.replies))
                self.log.append(('bcast', intent, 'scheduled'))
            else:
                self.log.append(('bcast', intent, 'ignored'))
        self.settle()

    def reply_status(self, f):
        if f is None:
            return 'n/a'
        if not hasattr(f, 'cancelled'):
            return 'immediate:' + mval(f)
        if f.cancelled():
            return 'cancelled'
        if not f.done():
            return 'pending'
        e = f.exception()
        if e is not None:
            return 'failed:' + exc_tag(e)
        return 'done:' + mval(f.result())

    # ---- awaitables (futures completed by the environment, or child processes launched by the step) ----
    def awaitable(self, j):
        if j not in self.futs:
            if self.use_children:
                before = len(self.loop.tasks)
                child = self.proc.launch(ChildProc)
                self.child_tasks.update(self.loop.tasks[before:])
                self.futs[j] = child
            else:
                self.futs[j] = self.loop.create_future()
        return self.futs[j]

    def _fut(self, j):
        f = self.futs.get(j)
        return f.future() if isinstance(f, plumpy.Process) else f

    def awaitable_done(self, j):
        f = self._fut(j)
        return bool(f is not None and f.done())

    def complete(self, j, kind, val):
        f = self.futs[j]
        if isinstance(f, plumpy.Process):
            if kind == 'ok':
                f.resume(val)
            else:
                f.fail(Injected(val), None)
        elif kind == 'ok':
            f.set_result(val)
        else:
            f.set_exception(Injected(val))
        self.log.append(('complete', j, kind, val))
        self.run_children()
        self.settle()

    def run_children(self):
        """Children are other processes: their own callbacks are not steps of the process under test.  Run them to
        quiescence wherever they sit in the ready queue (the model completes an awaitable in one environment step)."""
        while True:
            for h in list(self.loop.ready):
                if vloop.owner_of(h) in self.child_tasks and not h._cancelled:
                    self.loop.ready.remove(h)
                    self.loop.ready.appendleft(h)
                    self.loop.step_one()
                    break
            else:
                return

    def _attach(self, p):
        """Harness-side wiring of a (new or restored) process instance; nothing here is persisted."""
        _CURRENT[0] = p
        p._vrun = self
        p._vlog = self.log
        p._vhooks = self.hooks
        if self.use_listener:
            self.listener = Recorder(self.log, self.hooks)
            p.add_process_listener(self.listener)
            self.n2 = [0]
            self.passive = [Passive(self.n2), Passive(self.n2)]
            for q in self.passive:
                p.add_process_listener(q)
        p.add_state_event_callback(sm.StateEventHook.EXITING_STATE, lambda m, h, st: self.hooks.fire(p, 'cb_exiting'))
        p.add_state_event_callback(sm.StateEventHook.ENTERING_STATE, lambda m, h, st: self.hooks.fire(p, 'cb_entering'))

        def entered(m, h, from_state):
            if self.proc is not p:       # an abandoned instance being torn down by the garbage collector
                return
            self.log.append(('enter', LABEL[from_state.LABEL] if from_state is not None else '-', LABEL[p.state]))
            self.hooks.fire(p, 'cb_entered')
        p.add_state_event_callback(sm.StateEventHook.ENTERED_STATE, entered)

        def cleanup():
            if self.proc is not p:
                return
            self.log.append(('cleanup',))
            self.hooks.fire(p, 'cleanup')
        p.add_cleanup(cleanup)
        self.task = self.loop.create_task(p.step_until_terminated())
        self.task_reported = False
        self.cb_tasks = {}        # task -> kind
        self.cb_reported = set()
        self.mark = 0

    # ---- checkpoints -------------------------------------------------------------------------------
    def snapshot(self):
        """Bundle the process as it is now and pass the bundle through the serialisation medium.
        C07: save -> load -> save must give the same bundle and the same observable process."""
        from . import outline_real
        self.log.append(('saved',))
        dumped = outline_real.dump(plumpy.Bundle(self.proc), self.medium)
        self.snap = (dumped, len(self.log))
        b1 = outline_real.load(dumped, self.medium)
        if self.check_roundtrip and self.medium != 'none':
            tmp = vloop.VLoop()
            twin = b1.unbundle(plumpy.LoadSaveContext(loop=tmp))
            twin._vlog, twin._vhooks = [], Hooks([], [])
            b2 = outline_real.through(plumpy.Bundle(twin), self.medium)
            d = bundle_diff(b1, b2)
            o1, o2 = observables(self.proc), observables(twin)
            if d or o1 != o2:
                self.log.append(('roundtrip-mismatch', str(d[:3]), str([(k, o1[k], o2[k]) for k in o1 if o1[k] != o2[k]])))
            self.roundtrips += 1

    def restore(self):
        """Abandon the running instance; load the checkpoint in a fresh event loop and start stepping it."""
        dumped, nlog = self.snap
        from . import outline_real
        bundle = outline_real.load(dumped, self.medium)
        old = self.proc
        old._vlog = []                   # whatever the abandoned instance still does is of no concern
        old._vhooks = Hooks([], [])
        del self.log[nlog:]
        self.log.append(('restored',))
        del _ACTS[:]
        self.loop = vloop.install()
        self.proc = p = bundle.unbundle(plumpy.LoadSaveContext(loop=self.loop))
        self._attach(p)

    # ---- classification of real handles --------------------------------------------------------
    def classify(self, h):
        owner = vloop.owner_of(h)
        if owner is self.task:
            return 'task'
        if owner in self.cb_tasks:
            return 'cb' + self.cb_tasks[owner]
        q = getattr(h._callback, '__qualname__', '')
        if owner in self.rpc_tasks and owner.done():
            return 'noise'                # e.g. the Task.cancel handle scheduled by _chain_future on a finished task
        if owner in self.rpc_tasks:
            i = self.rpc_tasks[owner]
            return ('rpcW%d' if i in self.rpc_started else 'rpc%d') % i
        if q == 'run_coroutine_threadsafe.<locals>.callback' and self.rpc_tramp:
            return 'rpcT%d' % self.rpc_tramp[0]
        # (recognised by what they are attached to, not by the private names of the callbacks)
        if getattr(getattr(h._callback, '__self__', None), 'process', None) is self.proc and h._args:
            for j in self.futs:
                if self._fut(j) is h._args[0]:
                    return 'aw%d' % j
        if 'try_killing' in q or (q.startswith('Process.init.<locals>') and h._args and isinstance(h._args[0], asyncio.Future)):
            fut = h._args[0] if h._args else None
            return 'trykill' if fut is not None and fut.cancelled() else 'noise'
        return 'noise'

    def settle(self):
        """Run leading handles that have no counterpart in the specification (noise)."""
        if self.child_tasks:
            self.run_children()
        while True:
            h = self.loop.peek()
            if h is None or self.classify(h) != 'noise':
                return
            self.loop.step_one()

    def next_kind(self):
        self.settle()
        h = self.loop.peek()
        return None if h is None else self.classify(h)

    def run_handle(self):
        kind = self.next_kind()
        if kind is None:
            return None
        ntasks = len(self.loop.tasks)
        self.loop.step_one()
        if kind.startswith('rpcT'):
            self.rpc_tasks[self.loop.tasks[ntasks]] = self.rpc_tramp.pop(0)
        elif kind.startswith('rpc') and not kind.startswith('rpcW'):
            self.rpc_started.add(int(kind[3:]))
        self._after_handle()
        self.settle()
        return kind

    def _after_handle(self):
        while self.loop.errors:             # exceptions raised inside loop callbacks (reported to the loop's handler)
            ctx = self.loop.errors.pop(0)
            msg = str(ctx.get('message', ''))
            if msg.endswith('was never retrieved') or msg.startswith('Task was destroyed'):
                continue                    # garbage-collection time reports (also of earlier runs' objects): not deterministic, not an escape
            self.log.append(('looperr', exc_tag(ctx.get('exception'))))
        if self.task.done() and not self.task_reported:
            self.task_reported = True
            if self.task.cancelled():
                self.log.append(('taskfailed', 'CancelledError'))
            else:
                e = self.task.exception()
                self.log.append(('taskfailed', exc_tag(e)) if e is not None else ('taskdone',))
        for t, kind in self.cb_tasks.items():
            if t.done() and t not in self.cb_reported:
                self.cb_reported.add(t)
                e = t.exception()
                if e is not None:
                    self.log.append(('cbtaskfailed', exc_tag(e)))

    # ---- environment actions -----------------------------------------------------------------------
    def env(self, name, arg='-'):
        p = self.proc
        ret, exc = '-', '-'
        if name == 'cancel':
            p.future().cancel()
            self.log.append(('cancel',))
            self.settle()
            return
        if name == 'taskcancel':            # the owner of the stepping task cancels it (wait_for timeout, runner shutdown)
            self.task.cancel()
            self.log.append(('taskcancel',))
            self.settle()
            return
        if name in ('cbok', 'cbraise'):
            kind = name[2:]
            log = self.log

            def cb():
                log.append(('cb', kind))
                if kind == 'raise':
                    raise Injected('CB')
            before = len(self.loop.tasks)
            p.call_soon(cb)
            self.cb_tasks[self.loop.tasks[before]] = kind
            self.log.append(('callsoon', kind))
            self.settle()
            return
        try:
            if name == 'kill':
                ret = p.kill(pyval(arg))
            elif name == 'pause':
                ret = p.pause(pyval(arg))
            elif name == 'play':
                ret = p.play()
            elif name == 'resume':
                ret = p.resume() if arg == 'NULL' else p.resume(pyval(arg))
            elif name == 'fail':
                ret = p.fail(Injected(arg), None)
            elif name == 'close':
                ret = p.close()
            else:
                raise AssertionError(name)
        except Exception as e:
            exc = exc_tag(e)
        self.log.append(('call', name, arg, ret_tag(ret), exc, 'env'))
        self.settle()

    # ---- observation ------------------------------------------------------------------------------
    def new_log(self):
        out = self.log[self.mark:]
        self.mark = len(self.log)
        return [norm(e) for e in out]

    def projection(self):
        p = self.proc
        if p is None:         # the constructor raised: there is no process (project_model gives the same record)
            return dict(UNBORN)
        f = p.future()
        if f.cancelled():
            fut = ['cancelled', '-']
        elif not f.done():
            fut = ['pending', '-']
        elif f.exception() is not None:
            e = f.exception()
            fut = ['killed', str(e)] if isinstance(e, plumpy.KilledError) else ['exc', exc_tag(e)]
        else:
            fut = ['result', flat_outputs(f.result())]
        if self.task.done():
            # (a stepping task that ends cancelled did not return normally: a CancelledError escaped from step())
            task = 'failed:CancelledError' if self.task.cancelled() else \
                ('failed:' + exc_tag(self.task.exception()) if self.task.exception() is not None else 'done')
        else:
            task = 'live'
        return {
            'state': LABEL[p.state], 'paused': p.paused, 'killing': p.is_killing, 'status': mval(p.status),
            'fut': fut, 'closed': is_closed(p), 'task': task, 'outputs': flat_outputs(p.outputs),
            'acc': accessors(p), 'acts': [act_status(a) for a in _ACTS],
            'rpcs': [self.reply_status(f) for f in self.replies],
            'n2': self.n2[0] if self.use_listener else None,
        }


def _plain(v):
    if isinstance(v, BaseException):
        return ('exc', type(v).__name__, tuple(_plain(a) for a in v.args))
    if isinstance(v, dict):
        return {k: _plain(x) for k, x in v.items() if k != 'traceback'}      # traceback text: optional dependency (C07)
    if isinstance(v, (list, tuple)):
        return [_plain(x) for x in v]
    if isinstance(v, (set, frozenset)):
        return sorted(repr(_plain(x)) for x in v)
    if isinstance(v, str) and v.startswith('!!python/object') :
        return v
    return v


def bundle_diff(a, b, path=''):
    """Structural comparison of two bundles (exceptions by type and args, traceback text ignored)."""
    a, b = _plain(a), _plain(b)
    out = []

    def walk(x, y, p):
        if isinstance(x, dict) and isinstance(y, dict):
            for k in sorted(set(x) | set(y), key=str):
                if k not in x or k not in y:
                    out.append((p + '/' + str(k), x.get(k, '<absent>'), y.get(k, '<absent>')))
                else:
                    walk(x[k], y[k], p + '/' + str(k))
        elif isinstance(x, list) and isinstance(y, list) and len(x) == len(y):
            for i, (u, v) in enumerate(zip(x, y)):
                walk(u, v, '%s[%d]' % (p, i))
        elif x != y:
            out.append((p, x, y))
    walk(a, b, path)
    return out


def observables(p):
    """What C07 says a loaded process must report like the original."""
    def deep(d):
        return {k: deep(v) for k, v in d.items()} if hasattr(d, 'items') else d
    return {'pid': p.pid, 'state': LABEL[p.state], 'raw_inputs': deep(p.raw_inputs) if p.raw_inputs is not None else None,
            'inputs': deep(p.inputs) if p.inputs is not None else None, 'outputs': deep(p.outputs), 'status': p.status,
            'paused': p.paused, 'ctime': p.creation_time, 'outcome': accessors(p),
            'ctx': deep(p.ctx.__dict__) if hasattr(p, 'ctx') else None}


class _AnyPid:
    def __eq__(self, other):
        return True


def _noop():
    pass


def is_closed(p):
    """Closedness through the public API: add_cleanup refuses a closed process (a no-op cleanup is harmless otherwise)."""
    try:
        p.add_cleanup(_noop)
        return False
    except plumpy.ClosedError:
        return True


def flat_outputs(d):
    return [[k, mval(v)] for k, v in d.items()]


def accessors(p):
    """The accessor family of C02, normalised; disagreement among accessors is made visible."""
    st = LABEL[p.state]

    def call(fn):
        try:
            return ('ok', fn())
        except Exception as e:  # noqa
            return ('raise', e)
    res = call(p.result)
    suc = call(p.successful)
    km = call(p.killed_msg)
    if st == 'FINISHED':
        ok = res[0] == 'ok' and suc[0] == 'ok' and p.is_successful == suc[1] and not p.killed() and p.exception() is None and km[0] == 'raise'
        out = ['FINISHED', mval(res[1]) if res[0] == 'ok' else 'RAISES', bool(suc[1]) if suc[0] == 'ok' else 'RAISES']
    elif st == 'EXCEPTED':
        ok = res[0] == 'raise' and res[1] is p.exception() and suc[0] == 'raise' and not p.is_successful and not p.killed() and km[0] == 'raise'
        out = ['EXCEPTED', exc_tag(p.exception())]
    elif st == 'KILLED':
        ok = res[0] == 'raise' and isinstance(res[1], plumpy.KilledError) and suc[0] == 'raise' and not p.is_successful and p.killed() and km[0] == 'ok' and p.exception() is None
        msg = km[1] if km[0] == 'ok' else None
        out = ['KILLED', 'NOMSG' if km[0] == 'ok' and msg is None else (msg or {}).get('message') if isinstance(msg, dict) else mval(msg)]
    else:
        ok = res[0] == 'raise' and isinstance(res[1], plumpy.InvalidStateError) and suc[0] == 'raise' and not p.is_successful and not p.killed() and km[0] == 'raise' and p.exception() is None
        out = ['LIVE']
    if not ok or p.has_terminated() != (st in ('FINISHED', 'EXCEPTED', 'KILLED')):
        out = ['INCONSISTENT'] + out
    return out


def norm(e):
    """tuples/lists -> lists, recursively (JSON-like).  A text with blanks in it is a sentence generated by the library (the
    harness's own texts are single tokens): its wording is nobody's property, so it is compared as one opaque token."""
    if isinstance(e, (tuple, list)):
        return [norm(x) for x in e]
    if isinstance(e, dict):
        return {k: norm(v) for k, v in e.items()}
    if isinstance(e, str) and ' ' in e:
        return 'LIBTEXT'
    return e


# ---- the specification's state in the same shape ----------------------------------------------------
UNBORN = {'state': 'UNBORN', 'paused': False, 'killing': False, 'status': '-', 'fut': ['pending', '-'], 'closed': False,
          'task': 'live', 'outputs': [], 'acc': ['LIVE'], 'acts': [], 'n2': 0, 'rpcs': []}


def project_model(S):
    if not S.get('born', True):
        return dict(UNBORN, outputs=norm(S['outputs']))
    cur = S['cur']
    st = S['st']
    if st == 'FINISHED':
        acc = ['FINISHED', cur['val'], cur['succ']]
    elif st == 'EXCEPTED':
        acc = ['EXCEPTED', cur['val']]
    elif st == 'KILLED':
        acc = ['KILLED', cur['val']]
    else:
        acc = ['LIVE']
    fut = S['fut']
    fv = fut['val']
    if fut['st'] == 'result':
        fv = norm(fv)
    pc = S['task']['pc']
    return {
        'state': st, 'paused': S['pausedF'] != 'none', 'killing': S['killing'] != 0, 'status': S['status'],
        'fut': [fut['st'], fv], 'closed': S['closed'],
        'task': 'failed:' + S['task']['err'] if pc == 'failed' else 'done' if pc == 'done' else 'live',
        'outputs': norm(S['outputs']), 'acc': acc, 'acts': [a['status'] for a in S['acts']],
        'n2': 2 * sum(1 for e in S['log'] if e[0] == 'notify'),
        'rpcs': ['n/a' if m['kind'] == 'bcast' else ('pending' if m['st'] in ('sched', 'await', 'woken') else m['st']) for m in S['rpcs']],
    }
