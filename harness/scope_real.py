"""The implementation side of spec/Scope.tla (C18).

Real plumpy.Process subclasses are generated from a scenario (harness/scope_model.py): async step bodies await futures
that the harness completes, launch children, call self.call_soon, execute() other processes re-entrantly; every body
segment, lifecycle hook (the termination hooks on_terminated / on_close included), cleanup callback (add_cleanup), listener
callback and call_soon callback samples `Process.current()` and appends
[point, process id, sampled process id or 0] to the log - the same entries as S.log of the specification.

Two drivers:
  * AnyRun  - scenarios of mode "any" on harness/vloop.py inside this interpreter, one specification action at a time
              (RunHandle = exactly one callback of the loop; environment requests from the main context);
  * idle_*  - scenarios of mode "idle" (re-entrant execute() needs nest_asyncio, whose patch of asyncio is global and
              irreversible): a CHILD interpreter (`python -m harness.scope_real`, jobs as JSON on stdin) runs them on the
              loop that plumpy.set_event_loop_policy() installs; the environment is a driver task that performs the next
              request of the behaviour whenever it finds the ready queue otherwise empty, and samples as the observer.

No plumpy source is changed; only public API is used, plus the module-level ContextVar `PROCESS_STACK` (the anchored
state of the property) to read the final stack of finished tasks, when it exists under that name.
"""
import asyncio
import contextvars
import json
import logging
import os
import subprocess
import sys
import warnings

warnings.filterwarnings('ignore', category=RuntimeWarning, message='coroutine .* was never awaited')

HOOKS = ['on_create', 'on_run', 'on_running', 'on_exit_running', 'on_exit_waiting', 'on_wait', 'on_waiting', 'on_finish',
         'on_finished', 'on_kill', 'on_killed', 'on_except', 'on_excepted', 'on_pausing', 'on_paused', 'on_playing',
         'on_terminated', 'on_close']
AFTER = {'on_terminated'}      # hooks sampled a second time (point '<hook>.1') after super() returned: the process was closed
LISTENER = {'on_process_running': 'L_running', 'on_process_waiting': 'L_waiting', 'on_process_paused': 'L_paused',
            'on_process_played': 'L_played', 'on_process_finished': 'L_finished', 'on_process_excepted': 'L_excepted',
            'on_process_killed': 'L_killed'}


class Injected(Exception):
    pass


class Env:
    """What the generated classes of one scenario talk to; reset for every behaviour."""

    def __init__(self):
        self.reset(None)

    gen = 0

    def reset(self, loop, nfut=0):
        self.gen += 1           # objects of earlier behaviours (torn down by the garbage collector) must not write into this log
        self.log = []
        self.nested = []        # processes whose execute() is in progress (innermost last)
        self.procs = {}
        self.futs = {f: loop.create_future() for f in range(1, nfut + 1)} if loop is not None else {}


def cur_id():
    import plumpy
    c = plumpy.Process.current()
    if c is None:
        return 0
    return getattr(c, '_vp', -1)


def build(scn, env):
    """scenario -> {process id: generated Process subclass} bound to `env`"""
    import plumpy
    from plumpy import process_states as ps

    def rec(pt, vp, gen):
        if gen == env.gen:
            env.log.append([pt, vp, cur_id()])

    class Recorder(plumpy.ProcessListener):
        pass

    def mk_l(pt):
        def cb(self, process, *a, **k):
            rec(pt, process._vp, process._vgen)
        return cb
    for meth, pt in LISTENER.items():
        setattr(Recorder, meth, mk_l(pt))
    listener = Recorder()
    classes = {}

    def mk_cb(vp, raising, fut=0):
        gen = env.gen

        def cb():
            rec('cb', vp, gen)
            if raising:
                raise Injected('cb')

        async def acb():                      # a coroutine callback: samples on entry and after an await
            rec('cb', vp, gen)
            await env.futs[fut]
            rec('cb.1', vp, gen)
        return acb if fut else cb
    env.mk_cb = mk_cb

    def mk_cleanup(proc, vp):
        """the next cleanup callback of `proc`: samples as cleanup<k>, k counting the registrations of that process"""
        proc._vcl = k = getattr(proc, '_vcl', 0) + 1
        gen = env.gen
        return lambda: rec('cleanup%d' % k, vp, gen)

    def mk_step(vp, si, st):
        ops, end = st['ops'], st['end']

        async def fn(self, *args):
            rec('b%d.0' % si, vp, self._vgen)
            for k, o in enumerate(ops, 1):
                if o['op'] == 'aw':
                    await env.futs[o['arg']]
                elif o['op'] == 'launch':
                    self.launch(classes[o['arg']])
                elif o['op'] == 'soon':
                    self.call_soon(mk_cb(vp, o['arg'] == 1, o.get('x', 0)))
                elif o['op'] == 'addcl':
                    self.add_cleanup(mk_cleanup(self, vp))
                elif o['op'] == 'osoon':
                    env.procs[o['arg']].call_soon(mk_cb(o['arg'], False, o.get('x', 0)))
                elif o['op'] == 'ofail':
                    env.procs[o['arg']].fail(Injected('reported by process %d' % vp), None)
                elif o['op'] == 'okill':
                    env.procs[o['arg']].kill()
                elif o['op'] == 'opause':
                    env.procs[o['arg']].pause()
                elif o['op'] == 'nest':
                    q = classes[o['arg']]()
                    env.nested.append(q)
                    try:
                        q.execute()
                    finally:
                        env.nested.pop()
                rec('b%d.%d' % (si, k), vp, self._vgen)
            if end == 'stop':
                return None
            nxt = getattr(self, 'step%d' % (si + 1))
            return ps.Continue(nxt) if end == 'cont' else ps.Wait(nxt)
        fn.__name__ = 'step%d' % si
        return fn

    for vp, P in enumerate(scn['procs'], 1):
        ns = {'_vp': vp}
        for si, st in enumerate(P['steps'], 1):
            ns['step%d' % si] = mk_step(vp, si, st)
        ns['run'] = ns['step1']

        def mk_class(vp=vp, ns=ns, ncl=P.get('cl', 0)):
            def mk_hook(name):
                def override(self, *a, **k):
                    rec(name, vp, self._vgen)
                    ret = getattr(super(klass, self), name)(*a, **k)
                    if name in AFTER:
                        rec(name + '.1', vp, self._vgen)
                    return ret
                override.__name__ = name
                return override
            for h in HOOKS:
                ns[h] = mk_hook(h)

            def __init__(self, *a, **k):
                super(klass, self).__init__(*a, **k)
                self._vgen = env.gen
                env.procs[vp] = self
                self.add_process_listener(listener)
            ns['__init__'] = __init__

            def init(self):                   # called by the metaclass after CREATED was entered
                super(klass, self).init()
                for _ in range(ncl):
                    self.add_cleanup(mk_cleanup(self, vp))
            ns['init'] = init
            klass = type('Scope%s_%d' % (scn['name'], vp), (plumpy.Process,), ns)
            return klass
        classes[vp] = mk_class()
    return classes


def request(env, name, arg):
    """One environment request of the specification on the real objects."""
    if name == 'complete':
        env.futs[arg].set_result(None)
    elif name == 'kill':
        env.procs[arg].kill()
    elif name == 'pause':
        env.procs[arg].pause()
    elif name == 'close':
        env.procs[arg].close()
    elif name == 'play':
        env.procs[arg].play()
    elif name == 'resume':
        env.procs[arg].resume()
    elif name == 'callsoon':
        env.procs[arg].call_soon(env.mk_cb(arg, False))
    else:
        raise AssertionError(name)


def stack_of(task):
    """The process stack a finished task leaves in its context, as process ids (None: cannot be read)."""
    import plumpy
    var = getattr(plumpy.processes, 'PROCESS_STACK', None)
    if var is None or not hasattr(task, 'get_context'):
        return None
    ctx = task.get_context()
    v = ctx.get(var)
    if v is None:
        v = contextvars.Context().run(var.get)        # never set in that context: the shared default object
    return [getattr(p, '_vp', -1) for p in v]


def final_facts(tasks, skip=()):
    out = []
    for t in tasks:
        if t in skip:
            out.append(None)
            continue
        done = t.done()
        exc = None
        if done and not t.cancelled() and t.exception() is not None:
            exc = type(t.exception()).__name__
        out.append({'done': done, 'exc': exc, 'stack': stack_of(t) if done else None})
    return out


def expected_final(S):
    """The same facts from a specification state."""
    out = []
    for T in S['tasks']:
        if T['kind'] == 'drv':
            out.append(None)
            continue
        c = S['ctx'][T['c'] - 1]
        out.append({'done': T['done'], 'exc': None if T['exc'] == '-' or not T['done'] else T['exc'], 'stack': (list(c['val']) if c['set'] else list(S['deflt'])) if T['done'] else None})
    return out


def diff_final(want, got):
    diffs = []
    for i, (w, g) in enumerate(zip(want, got)):
        if w is None or g is None:
            continue
        if g['stack'] is None:
            w = dict(w, stack=None)
        if w != g:
            diffs.append(('task%d' % (i + 1), w, g))
    if len(want) != len(got):
        diffs.append(('tasks', len(want), len(got)))
    return diffs


def model_log(S):
    return [[e['pt'], e['p'], e['obs']] for e in S['log']]


def diff_log(want, got):
    if want == got:
        return []
    n = 0
    while n < min(len(want), len(got)) and want[n] == got[n]:
        n += 1
    return [('log[%d]' % n, want[n] if n < len(want) else None, got[n] if n < len(got) else None)]


# ---- mode "any": the single-stepping loop ---------------------------------------------------------------------
_CLASSES = {}


def classes_for(scn, tag):
    key = (tag, json.dumps(scn, sort_keys=True, default=sorted))
    if key not in _CLASSES:
        env = Env()
        _CLASSES[key] = (env, build(scn, env))
    return _CLASSES[key]


class AnyRun:
    def __init__(self, scn):
        from . import vloop
        self.vloop = vloop
        self.scn = scn
        self.loop = loop = vloop.install()
        self.env, self.classes = classes_for(scn, 'any')
        self.env.reset(loop, scn['nfut'])
        self.obs = []
        for vp, P in enumerate(scn['procs'], 1):
            if P['role'] == 'top':
                p = self.classes[vp]()
                loop.create_task(p.step_until_terminated())

        async def observer():
            while True:
                self.obs.append(cur_id())
                await asyncio.sleep(0)
        self.obs_task = loop.create_task(observer())
        self.observe()

    @property
    def log(self):
        return self.env.log

    def tasks(self):
        return [t for t in self.loop.tasks if t is not self.obs_task]

    def observe(self):
        """code outside: the observer coroutine gets a turn, and the main context is sampled"""
        for h in list(self.loop.ready):
            if self.vloop.owner_of(h) is self.obs_task and not h._cancelled:
                self.loop.ready.remove(h)
                self.loop.ready.appendleft(h)
                self.loop.step_one()
                break
        self.obs.append(cur_id())

    def head(self):
        for h in list(self.loop.ready):
            if h._cancelled:
                self.loop.ready.remove(h)
                continue
            if self.vloop.owner_of(h) is not self.obs_task:
                return h
        return None

    def head_id(self):
        h = self.head()
        if h is None:
            return None
        owner = self.vloop.owner_of(h)
        if owner is None:
            return 0
        return self.tasks().index(owner) + 1

    def _run(self, h):
        self.loop.ready.remove(h)
        self.loop.ready.appendleft(h)
        self.loop.step_one()
        self.observe()

    def settle(self):
        """Leading callbacks that belong to no task (bookkeeping of the implementation, e.g. the done-callback of the process
        future): no user code runs in them, so when exactly they run - and how many there are - is not compared."""
        while True:
            h = self.head()
            if h is None or self.vloop.owner_of(h) is not None:
                return
            self._run(h)

    def run_handle(self, want):
        if want == 0:                      # the specification runs such a callback
            h = self.head()
            if h is not None and self.vloop.owner_of(h) is None:
                self._run(h)
            return None
        self.settle()
        got = self.head_id()
        if got != want:
            return 'specification runs the handle of task %r, the loop has %r next' % (want, got)
        task = self.tasks()[want - 1]
        self._run(self.head())
        # Where a coroutine yields to the loop without waiting for anything (e.g. `await asyncio.sleep(0)` between two steps) is
        # an implementation choice the property does not fix: the specification's callback runs the task until it waits for
        # something, so a task that merely re-scheduled itself is continued (the harness owns the order of this loop).
        for _ in range(50):
            h = next((x for x in self.loop.ready if not x._cancelled and self.vloop.owner_of(x) is task), None)
            if h is None:
                break
            self._run(h)
        return None

    def perform(self, act):
        name, arg = act
        if name == 'run':
            return self.run_handle(arg)
        request(self.env, name, arg)
        self.observe()
        return None

    def problems(self):
        d = []
        if any(o != 0 for o in self.obs):
            d.append(('observer', 0, [o for o in self.obs if o != 0][0]))
        if self.loop.errors:
            d.append(('looperr', None, repr(self.loop.errors[0].get('exception') or self.loop.errors[0].get('message'))))
        return d

    def compare(self, S, final=False):
        d = diff_log(model_log(S), self.log) + self.problems()
        if not d and final:
            d = diff_final(expected_final(S), final_facts(self.tasks()))
            if not d:
                self.settle()
                want = [t for t in S['ready'] if t != 0]
                if self.head_id() != (want[0] if want else None):
                    d = [('ready', want, self.head_id())]
        return d


    def dispose(self):
        """Unwind what is still pending (the observer; blocked tasks of a behaviour prefix) inside their own contexts, so that
        the garbage collector has no coroutine to close at an arbitrary later point."""
        self.env.gen += 1
        for t in self.loop.tasks:
            if not t.done():
                t.cancel()
        try:
            self.loop.drain(1000)
        except Exception:  # noqa: teardown only
            pass


def replay_any(scn, states):
    """states: the specification states of one behaviour (initial state first).  -> None or a divergence record"""
    run = AnyRun(scn)
    try:
        return _replay_any(run, states)
    finally:
        run.dispose()


def _replay_any(run, states):
    d = run.compare(states[0])
    if d:
        return {'at': 0, 'diffs': d, 'log': run.log}
    for i, S in enumerate(states[1:], 1):
        err = run.perform(S['act'])
        if err:
            return {'at': i, 'diffs': [('handle', err, None)], 'log': run.log}
        d = run.compare(S, final=(i == len(states) - 1))
        if d:
            return {'at': i, 'diffs': d, 'log': run.log}
    return None


# ---- mode "idle": the real re-entrant loop, in a child interpreter -------------------------------------------------
def idle_behaviour(loop, scn, script):
    """Run one behaviour; -> {'log', 'obs', 'final', 'errors', 'left'}"""
    env, classes = classes_for(scn, 'idle')
    env.reset(loop, scn['nfut'])
    tasks = []
    errors = []
    orig_create = loop.__class__.create_task

    def create_task(coro, **kw):
        t = orig_create(loop, coro, **kw)
        tasks.append(t)
        return t
    loop.create_task = create_task
    loop.set_exception_handler(lambda l, c: errors.append(repr(c.get('exception') or c.get('message'))))
    obs = []
    script = list(script)
    try:
        for vp, P in enumerate(scn['procs'], 1):
            if P['role'] == 'top':
                p = classes[vp]()
                loop.create_task(p.step_until_terminated())

        async def driver():
            while True:
                obs.append(cur_id())
                # nothing else can run and the innermost run_until_complete is not about to return: the environment's turn
                if not loop._ready and not (env.nested and env.nested[-1].has_terminated()):
                    if not script:
                        return
                    name, arg = script.pop(0)
                    request(env, name, arg)
                await asyncio.sleep(0)
        drv = loop.create_task(driver())
        loop.run_until_complete(drv)
        obs.append(cur_id())                                  # the main context, after the run
    finally:
        del loop.create_task
    for _ in range(100):          # callbacks still queued when the driver left (tasks that merely re-scheduled themselves)
        if not loop._ready:
            break
        loop.run_until_complete(asyncio.sleep(0))
    return {'log': env.log, 'obs': [o for o in obs if o != 0], 'nobs': len(obs), 'final': final_facts(tasks, skip=(drv,)),
            'errors': errors, 'left': len(script)}


def child_main():
    import signal
    logging.disable(logging.CRITICAL)
    jobs = json.load(sys.stdin)
    import plumpy
    plumpy.set_event_loop_policy()
    loop = asyncio.get_event_loop()
    out = []

    class Hung(KeyboardInterrupt):      # asyncio tasks re-raise it instead of storing it, so it unwinds nested loop runs
        pass

    def on_alarm(*_a):
        raise Hung('no progress for %s s' % per)
    per = int(os.environ.get('VERIF_C18_BEHAVIOUR_TIMEOUT', '30'))
    signal.signal(signal.SIGALRM, on_alarm)
    poisoned = False
    for job in jobs:
        if poisoned:                    # the loop was abandoned in the middle of nested runs: the parent starts a fresh interpreter
            out.append({'skipped': True})
            continue
        signal.alarm(per)
        try:
            out.append(idle_behaviour(loop, job['scn'], job['script']))
        except Hung as e:
            out.append({'crash': 'the behaviour does not terminate on the implementation (%s)' % e})
            poisoned = True
        except BaseException as e:      # noqa: the parent reports it as a divergence of that behaviour
            import traceback
            out.append({'crash': '%s: %s' % (type(e).__name__, e), 'tb': traceback.format_exc()[-1500:]})
        finally:
            signal.alarm(0)
    json.dump(out, sys.stdout)


def run_children(jobs, procs=None, timeout=900, _depth=0):
    """jobs: [{'scn', 'script'}] -> results in the same order, computed by child interpreters in parallel."""
    from concurrent.futures import ThreadPoolExecutor
    from . import tlc
    if not jobs:
        return []
    procs = procs or min(16, os.cpu_count() or 1)
    n = max(1, (len(jobs) + procs - 1) // procs)
    chunks = [jobs[i:i + n] for i in range(0, len(jobs), n)]
    verif = os.path.dirname(os.path.dirname(os.path.abspath(__file__)))
    env = dict(os.environ)
    src = os.environ.get('VERIF_REPO_SRC', '/repo/src')
    env['PYTHONPATH'] = os.pathsep.join([src, verif] + ([env['PYTHONPATH']] if env.get('PYTHONPATH') else []))

    def one(chunk):
        p = subprocess.run([sys.executable, '-m', 'harness.scope_real'], input=json.dumps(chunk), cwd=verif, env=env,
                           stdout=subprocess.PIPE, stderr=subprocess.PIPE, text=True, timeout=timeout + 30)
        if p.returncode != 0:
            raise tlc.MachineryError('child interpreter failed (rc=%s): %s' % (p.returncode, p.stderr[-2000:]))
        return json.loads(p.stdout)
    try:
        with ThreadPoolExecutor(len(chunks)) as ex:
            res = list(ex.map(one, chunks))
    except subprocess.TimeoutExpired as e:
        raise tlc.MachineryError('child interpreter timed out') from e
    out = [r for chunk in res for r in chunk]
    again = [i for i, r in enumerate(out) if r.get('skipped')]
    if again and _depth < 20:
        for i, r in zip(again, run_children([jobs[i] for i in again], procs, timeout, _depth + 1)):
            out[i] = r
    return out


def by_process(log):
    out = {}
    for pt, p, obs in log:
        out.setdefault(p, []).append([pt, obs])
    return out


def diff_idle(S, res):
    """Compare what a child interpreter recorded with the final specification state of the behaviour."""
    if 'crash' in res:
        return [('crash', None, res['crash'] + ' ' + res.get('tb', ''))]
    d = diff_log(model_log(S), res['log'])
    if d and by_process(model_log(S)) == by_process(res['log']):
        # every process sampled exactly what the specification says, only the interleaving of different processes differs:
        # the property does not fix that order (it depends on how many bookkeeping callbacks the loop runs per batch)
        d = []
        res['reordered'] = True
    if res['obs']:
        d.append(('observer', 0, res['obs'][0]))
    if res['errors']:
        d.append(('looperr', None, res['errors'][0]))
    if res['left']:
        d.append(('script', 'all requests performed', '%d left' % res['left']))
    if not d:
        d = diff_final(expected_final(S), res['final'])
    return d


if __name__ == '__main__':
    child_main()
