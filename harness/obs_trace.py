"""Direction V: the repository's own test-suite under the trace recorder, validated by TLC (spec/ObservableTrace.tla)."""
import copy
import json
import os
import subprocess
import tempfile
import time

from . import tlc

VERIF = os.path.dirname(os.path.dirname(os.path.abspath(__file__)))
CFG = 'SPECIFICATION TSpec\nCHECK_DEADLOCK FALSE\nCONSTRAINT Constraint\nPOSTCONDITION Post\n'


def record(timeout=600):
    """Run /repo's test-suite with the recorder plugin; -> (traces, summary line)"""
    repo_src = os.environ.get('VERIF_REPO_SRC', '/repo/src')
    repo = os.path.dirname(repo_src.rstrip('/'))
    if not os.path.isdir(os.path.join(repo, 'tests')):
        repo = '/repo'          # a scratch copy of src only: the tests of /repo run against it
    fd, out = tempfile.mkstemp(prefix='verif-traces-', suffix='.json')
    os.close(fd)
    env = dict(os.environ, PYTHONPATH=repo_src + os.pathsep + VERIF, VERIF_TRACE_OUT=out)
    try:
        p = subprocess.run(['/venv/bin/python', '-m', 'pytest', '-q', '-p', 'no:cacheprovider', '-p', 'harness.trace_plugin',
                            '--timeout=60', '--continue-on-collection-errors', '--ignore=tests/rmq', 'tests'],
                           cwd=repo, env=env, stdout=subprocess.PIPE, stderr=subprocess.STDOUT, text=True, timeout=timeout)
        tail = p.stdout.strip().splitlines()[-1] if p.stdout.strip() else ''
        traces = json.load(open(out)) if os.path.getsize(out) else []
    except subprocess.TimeoutExpired:
        traces, tail = [], 'test-suite timed out'
    finally:
        if os.path.exists(out):
            os.remove(out)
    return traces, tail


def validate(traces):
    """-> (accepted count, [(trace index (1-based), matched prefix length, trace length)])"""
    if not traces:
        return 0, []
    with tlc.Workdir() as wd:
        wd.write('ObservableTrace.cfg', CFG)
        path = wd.write('traces.json', json.dumps(traces))
        res = tlc.run(wd, 'ObservableTrace.tla', 'ObservableTrace.cfg', workers=1, env={'TRACE_FILE': path}, timeout=900)
    vals = res.printed_json()
    acc = [v for v in vals if v and v[0] == 'ACCEPTED']
    if not acc:
        raise tlc.MachineryError('trace validation produced no verdict:\n%s' % res.out[-3000:])
    rej = [(v[1], v[2], v[3]) for v in vals if v and v[0] == 'REJECTED']
    return acc[0][1], rej, res


def kinds_of(traces, rejected):
    """the event each rejected trace stops at"""
    out = []
    for i, n, ln in rejected:
        ev = traces[i - 1]['events'][n] if n < ln else ['<end>']
        out.append({'trace': i, 'cls': traces[i - 1]['cls'], 'at': n + 1, 'event': ev, 'events': traces[i - 1]['events']})
    return out


def run_stage(owned):
    """owned(event) -> bool: is a rejection at this event a violation of the property whose check is running?"""
    t0 = time.time()
    traces, tail = record()
    if not traces:
        return {'note': 'no traces recorded (%s)' % tail, 'processes': 0, 'violations': [], 'wall_s': time.time() - t0}
    acc, rej, res = validate(traces)
    # the binding is demonstrated, not assumed: one corrupted field must be rejected
    probe, flipped = None, None
    for t in traces:
        if any(e[0] == 'obs' and e[1] == 'RUNNING' for e in t['events']):
            probe = [copy.deepcopy(traces[0]), copy.deepcopy(t)]
            for e in probe[1]['events']:
                if e[0] == 'obs' and e[1] == 'RUNNING':
                    e[3] = 'result'          # a live process whose future is resolved
                    break
            flipped = 2
            break
    selftest = None
    if flipped:
        acc2, rej2, _ = validate(probe)
        selftest = any(r[0] == flipped for r in rej2) and not any(r[0] == 1 for r in rej2)
        if not selftest:
            raise tlc.MachineryError('trace validation accepted a corrupted trace (or rejected an intact one): the binding is broken')
    rejs = kinds_of(traces, rej)
    return {'processes': len(traces), 'events': sum(len(t['events']) for t in traces), 'accepted': acc, 'rejected': len(rej),
            'states': res.distinct, 'violations': [r for r in rejs if owned(r['event'])], 'other_rejections': len([r for r in rejs if not owned(r['event'])]),
            'suite': tail, 'corrupted_trace_rejected': selftest, 'wall_s': round(time.time() - t0, 1),
            'sample': {'cls': traces[len(traces) // 2]['cls'], 'events': traces[len(traces) // 2]['events'][:14]}}
