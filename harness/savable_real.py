"""The implementation side of spec/Savable.tla (C19).

An instance of the specification's universe (chain of auto_persist declarations, instantiated class, member kinds,
loader configuration, unknown-class flavour) is turned into real classes (built with type(), registered in a module
object inserted in sys.modules so that object loaders can resolve them) and a real object; the object is saved, the
original is mutated, the saved state is loaded and saved again.  `execute` returns the observation in the vocabulary of
the specification's `out` record: stage/exception, facts about the loaded object (sets of (path, kind, detail)),
second save == first save, saved state unchanged by the mutation, and whether the custom loader resolved the class.

Only public plumpy API is used: Savable, auto_persist, LoadSaveContext, SavableFuture, ObjectLoader,
get/set_object_loader.
"""
import asyncio
import inspect
import sys
import types

MODNAME = 'verif_c19_mod'
ALLNAMES = ('a', 'b', 'c', 'x', 'm', 's', 'f')
META = '!!meta'

_S = {}


class Boom(Exception):
    """The exception stored in a failed future; `tag` is its name in the specification."""

    def __init__(self, tag):
        super().__init__(tag)
        self.tag = tag


def setup():
    """Create (once per process) the module, the custom loader, the helper classes and an event loop."""
    if _S:
        return _S
    import plumpy
    from plumpy import loaders
    mod = types.ModuleType(MODNAME)
    sys.modules[MODNAME] = mod
    loop = asyncio.new_event_loop()
    asyncio.set_event_loop(loop)

    class CustomLoader(loaders.ObjectLoader):
        """A loader with its own identifier scheme 'custom|module|name' (disjoint from DefaultObjectLoader's)."""
        calls = []

        def load_object(self, identifier):
            CustomLoader.calls.append(identifier)
            parts = identifier.split('|')
            if len(parts) != 3 or parts[0] != 'custom':
                raise ValueError('identifier %r is not in the custom format' % (identifier,))
            m = sys.modules.get(parts[1])
            if m is None:
                raise ValueError('no module %r' % parts[1])
            try:
                return getattr(m, parts[2])
            except AttributeError:
                raise ValueError('no object %r' % (identifier,))

        def identify_object(self, obj):
            ident = 'custom|%s|%s' % (obj.__module__, obj.__name__)
            self.load_object(ident)
            CustomLoader.calls.pop()
            return ident
    CustomLoader.__module__ = MODNAME
    CustomLoader.__qualname__ = 'CustomLoader'
    mod.CustomLoader = CustomLoader

    def plain(path):
        return {'c': ['v:' + path]}

    def fut(kind, path):
        f = plumpy.SavableFuture(loop=loop)
        if kind == 'futR':
            f.set_result(plain(path + '.result'))
        elif kind == 'futT':
            f.set_result((plain(path + '.result[0]'),))
        elif kind == 'futE':
            f.set_exception(Boom('E1'))
        elif kind == 'futC':
            f.cancel()
        return f

    def n1_init(self, path):
        self.x = plain(path + '.x')
        self.m = self.nm

    def nm(self):
        return 'nm'
    N1 = plumpy.auto_persist('x', 'm')(type('N1', (plumpy.Savable,), {'__module__': MODNAME, '__init__': n1_init, 'nm': nm}))
    mod.N1 = N1

    def n2_init(self, path):
        self.x = plain(path + '.x')
        self.s = N1(path + '.s')
        self.f = fut('futR', path + '.f')
    N2 = plumpy.auto_persist('x', 's', 'f')(type('N2', (plumpy.Savable,), {'__module__': MODNAME, '__init__': n2_init}))
    mod.N2 = N2

    def make(kind, path, holder, name):
        if kind == 'value':
            return plain(path)
        if kind == 'none':
            return None
        if kind == 'tuple':
            return (plain(path + '[0]'),)          # an immutable container holding a mutable value
        if kind == 'method':
            return getattr(holder, 'm_' + name)
        if kind == 'sav1':
            return N1(path)
        if kind == 'sav2':
            return N2(path)
        return fut(kind, path)

    _S.update(plumpy=plumpy, loaders=loaders, mod=mod, loop=loop, CustomLoader=CustomLoader, N1=N1, N2=N2, make=make, chains={})
    return _S


def build_chain(chain):
    """K1 <- K2 <- ... with the declarations of `chain` = [{'way': 'none'|'deco'|'hook', 'names': iterable}]; registered in the
    module.  'deco' = @auto_persist(*names); 'hook' = a persist() classmethod calling super().persist() and cls.auto_persist(*names)."""
    S = setup()
    plumpy = S['plumpy']
    key = tuple((d['way'], tuple(sorted(d['names']))) for d in chain)
    mod = S['mod']

    def k_init(self, kinds):
        for n in sorted(kinds):
            setattr(self, n, S['make'](kinds[n], 'o.' + n, self, n))
    ns = {'__module__': MODNAME, '__init__': k_init}
    for n in ('a', 'b', 'c'):
        def meth(self, _n=n):
            return _n
        meth.__name__ = 'm_' + n
        ns['m_' + n] = meth
    base = plumpy.Savable
    classes = []
    for i, (way, names) in enumerate(key, 1):
        body = dict(ns) if i == 1 else {'__module__': MODNAME}
        if way == 'hook':
            cell = []

            def persist(cls, _cell=cell, _names=names):
                super(_cell[0], cls).persist()
                cls.auto_persist(*_names)
            body['persist'] = classmethod(persist)
        cls = type('K%d' % i, (base,), body)
        if way == 'hook':
            cell.append(cls)
        if way == 'deco':
            cls = plumpy.auto_persist(*names)(cls)
        classes.append(cls)
        base = cls
    for i in (1, 2, 3):
        if i <= len(classes):
            setattr(mod, 'K%d' % i, classes[i - 1])
        elif hasattr(mod, 'K%d' % i):
            delattr(mod, 'K%d' % i)
    return classes


# ---- descriptions --------------------------------------------------------------------------------------
def is_plain(v):
    return isinstance(v, dict) and META not in v and set(v) == {'c'}


def is_tuple(v):
    return isinstance(v, tuple) and len(v) == 1 and is_plain(v[0])


def exc_tag(e):
    return getattr(e, 'tag', None) or type(e).__name__


def reach_ids(S, x, out, keep):
    """ids of every container reachable from x (objects, futures, plain values and their inner lists)."""
    plumpy = S['plumpy']
    if is_plain(x):
        out.add(id(x))
        out.add(id(x['c']))
        keep.append(x)
    elif is_tuple(x):
        reach_ids(S, x[0], out, keep)
    elif isinstance(x, plumpy.SavableFuture):
        out.add(id(x))
        keep.append(x)
        if x.done() and not x.cancelled() and x.exception() is None:
            reach_ids(S, x.result(), out, keep)
    elif isinstance(x, plumpy.Savable):
        out.add(id(x))
        keep.append(x)
        for n in ALLNAMES:
            if n in vars(x) and not inspect.ismethod(vars(x)[n]):
                reach_ids(S, vars(x)[n], out, keep)


def facts(S, x, path, avoid, holder, out):
    plumpy = S['plumpy']
    if x is None:
        out.add((path, 'none', '-'))
    elif isinstance(x, str):
        out.add((path, 'str', x))
    elif inspect.ismethod(x):
        out.add((path, 'meth', x.__name__ + ('@self' if x.__self__ is holder else '@other')))
    elif is_plain(x):
        if id(x) in avoid or id(x['c']) in avoid:
            out.add((path, 'shared', '-'))
        out.add((path, 'plain', x['c'][0]))
    elif is_tuple(x):
        out.add((path, 'tuple', '-'))
        facts(S, x[0], path + '[0]', avoid, holder, out)
    elif isinstance(x, plumpy.SavableFuture):
        if id(x) in avoid:
            out.add((path, 'shared', '-'))
        if x.cancelled():
            out.add((path, 'fut', 'CANCELLED'))
        elif not x.done():
            out.add((path, 'fut', 'PENDING'))
        else:
            out.add((path, 'fut', 'FINISHED'))
            e = x.exception()
            if e is not None:
                out.add((path + '.exc', 'exc', exc_tag(e)))
            else:
                facts(S, x.result(), path + '.result', avoid, x, out)
    elif isinstance(x, plumpy.Savable):
        if id(x) in avoid:
            out.add((path, 'shared', '-'))
        out.add((path, 'obj', type(x).__name__))
        for n in ALLNAMES:
            if n in vars(x):
                facts(S, vars(x)[n], path + '.' + n, avoid, x, out)
    elif isinstance(x, dict):
        out.add((path, 'dict', '-'))
    else:
        out.add((path, 'other', repr(x)))
    return out


def canon(x):
    """A saved state as a comparable value (exceptions by tag, everything else structurally)."""
    if isinstance(x, dict):
        return ('d', tuple(sorted((str(k), canon(v)) for k, v in x.items())))
    if isinstance(x, (list, tuple)):
        return ('l', tuple(canon(v) for v in x))
    if isinstance(x, BaseException):
        return ('e', exc_tag(x))
    return x


def mutate(S, x):
    """What the environment does to the original after save(): every mutable value changes in place, pending futures resolve."""
    plumpy = S['plumpy']
    if is_plain(x):
        x['c'][0] += '!'
    elif is_tuple(x):
        mutate(S, x[0])                      # the tuple cannot change, what it holds can
    elif isinstance(x, plumpy.SavableFuture):
        if not x.done():
            x.set_result('late')
        elif not x.cancelled() and x.exception() is None:
            mutate(S, x.result())
    elif isinstance(x, plumpy.Savable):
        for n in ALLNAMES:
            if n in vars(x) and not inspect.ismethod(vars(x)[n]):
                mutate(S, vars(x)[n])


def unknown_name(ident):
    if '|' in ident:
        p = ident.split('|')
        return '|'.join(p[:-1] + ['Nope'])
    return ident.split(':')[0] + ':Nope'


def tamper(saved, how):
    if how == 'noattr':
        saved[META]['class_name'] = unknown_name(saved[META]['class_name'])
    elif how == 'malformed':
        saved[META]['class_name'] = 'X-' + saved[META]['class_name'].replace(':', '-').replace('|', '-')
    elif how == 'nocls':
        del saved[META]['class_name']
    elif how == 'nometa':
        del saved[META]
    elif how == 'nested':
        for k, v in saved.items():
            if k != META and isinstance(v, dict) and META in v:
                v[META]['class_name'] = unknown_name(v[META]['class_name'])


def execute(inst):
    """-> observation dict {pre, stage, exc, facts(set of triples), resave, stable, usedC}"""
    S = setup()
    plumpy, loaders, CL = S['plumpy'], S['loaders'], S['CustomLoader']
    classes = build_chain(inst['chain'])
    cfg = inst['ldr']
    loaders.set_object_loader(CL() if cfg == 'global' else None)
    try:
        sctx = plumpy.LoadSaveContext(loader=CL()) if cfg in ('persave', 'ctxboth') else None
        lctx = plumpy.LoadSaveContext(loader=CL()) if cfg == 'ctxboth' else None
        obs = {'pre': '-', 'stage': 'ok', 'exc': '-', 'facts': set(), 'resave': False, 'stable': True, 'usedC': False}
        if inst.get('first'):
            # order of use: an instance of another class of the chain is saved and loaded first
            try:
                other = classes[inst['first'] - 1]({n: 'value' for n in inst['kinds']})
                plumpy.Savable.load(other.save(sctx), lctx)
            except BaseException as e:  # noqa
                obs['pre'] = type(e).__name__
        orig = classes[inst['t'] - 1](dict(inst['kinds']))
        avoid, keep = set(), []
        reach_ids(S, orig, avoid, keep)
        try:
            saved = orig.save(sctx)
        except BaseException as e:  # noqa  (CancelledError is a BaseException)
            obs.update(stage='save', exc=type(e).__name__)
            return obs
        tamper(saved, inst['unk'])
        before = canon(saved)
        root_ident = saved.get(META, {}).get('class_name')
        mutate(S, orig)
        obs['stable'] = canon(saved) == before
        del CL.calls[:]
        try:
            loaded = plumpy.Savable.load(saved, lctx)
        except BaseException as e:  # noqa
            obs.update(stage='load', exc=type(e).__name__, usedC=root_ident in CL.calls)
            return obs
        obs['usedC'] = root_ident in CL.calls
        facts(S, loaded, 'o', avoid, None, obs['facts'])
        saved_cmp = canon(saved)
        try:
            saved2 = loaded.save(sctx)
        except BaseException as e:  # noqa
            obs.update(stage='resave', exc=type(e).__name__)
            return obs
        obs['resave'] = canon(saved2) == saved_cmp
        return obs
    finally:
        loaders.set_object_loader(None)


def expected(out):
    """The specification's `out` record in the shape of an observation."""
    return {'pre': out['pre'], 'stage': out['stage'], 'exc': out['exc'], 'facts': set(tuple(f) for f in out['facts']), 'resave': out['resave'],
            'stable': out['stable'], 'usedC': out['used'] == 'C'}


def norm_inst(inst):
    """An instance parsed from TLC output -> plain python (chain: list of {'deco','names': sorted list})."""
    return {'chain': [{'way': str(d['way']), 'names': sorted(d['names'])} for d in inst['chain']], 't': int(inst['t']),
            'kinds': dict(inst['kinds']), 'ldr': str(inst['ldr']), 'unk': str(inst['unk']), 'first': int(inst.get('first', 0))}


def diff(exp, obs):
    out = []
    for k in ('pre', 'stage', 'exc', 'resave', 'stable', 'usedC'):
        if exp[k] != obs[k]:
            out.append([k, exp[k], obs[k]])
    if exp['facts'] != obs['facts']:
        out.append(['facts', sorted(exp['facts'] - obs['facts']), sorted(obs['facts'] - exp['facts'])])
    return out
