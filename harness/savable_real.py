"""The implementation side of spec/Savable.tla (C19).

An instance of the specification's universe (chain of auto_persist declarations, instantiated class, member kinds,
loader configuration, unknown-class / unknown-loader flavour, how the load context is supplied, what was loaded through
it before; "unknown" also by REMOVING the class, or the recorded loader's class, from the module between save and load) is turned into real classes (built with type(), registered in a module object inserted in sys.modules so that
object loaders can resolve them) and a real object; (a prior bundle is loaded, another class of the chain is used,) the
object is saved, the original is mutated, the saved state is loaded and saved again - every load of the session through the
same load context (None, or ONE LoadSaveContext object).  `execute` returns the observation in the vocabulary of the
specification's `out` record: stage/exception, facts about the loaded object (sets of (path, kind, detail)), second save ==
first save, saved state unchanged by the mutation, which loader resolved the class (of the bundle under test and of the
prior one), and the loader found in the caller's load context afterwards.

Only public plumpy API is used: Savable, auto_persist, LoadSaveContext (and its public attribute `loader`), SavableFuture,
ObjectLoader, DefaultObjectLoader, get/set_object_loader.
"""
import asyncio
import inspect
import re
import sys
import types

MODNAME = 'verif_c19_mod'
ALLNAMES = ('a', 'b', 'c', 'x', 'm', 's', 'f')
META = '!!meta'

_S = {}


class Boom(Exception):
    """The exception stored in a failed future; `tag` is its name in the specification."""

    def __init__(self, tag):
        super().__init__(tag)
        self.tag = tag


def setup():
    """Create (once per process) the module, the custom loader, the helper classes and an event loop."""
    if _S:
        return _S
    import plumpy
    from plumpy import loaders
    mod = types.ModuleType(MODNAME)
    sys.modules[MODNAME] = mod
    loop = asyncio.new_event_loop()
    asyncio.set_event_loop(loop)

    class CustomLoader(loaders.ObjectLoader):
        """A loader with its own identifier scheme 'custom|module|name' (disjoint from DefaultObjectLoader's)."""
        calls = []

        def load_object(self, identifier):
            CustomLoader.calls.append(identifier)
            parts = identifier.split('|')
            if len(parts) != 3 or parts[0] != 'custom':
                raise ValueError('identifier %r is not in the custom format' % (identifier,))
            m = sys.modules.get(parts[1])
            if m is None:
                raise ValueError('no module %r' % parts[1])
            try:
                return getattr(m, parts[2])
            except AttributeError:
                raise ValueError('no object %r' % (identifier,))

        def identify_object(self, obj):
            ident = 'custom|%s|%s' % (obj.__module__, obj.__name__)
            self.load_object(ident)
            CustomLoader.calls.pop()
            return ident
    CustomLoader.__module__ = MODNAME
    CustomLoader.__qualname__ = 'CustomLoader'
    mod.CustomLoader = CustomLoader

    class AliasLoader(loaders.DefaultObjectLoader):
        """A loader that keeps writing the stable legacy name L<i> for the chain class K<i>: identifiers in the DEFAULT loader's
        format, which the default loader resolves too - to the stand-in class that lives under that name."""
        calls = []
        _legacy = re.compile(r'^%s:L(\d)$' % re.escape(MODNAME))

        def load_object(self, identifier):
            AliasLoader.calls.append(identifier)
            m = self._legacy.match(identifier) if isinstance(identifier, str) else None
            if m:
                try:
                    return getattr(mod, 'K' + m.group(1))
                except AttributeError:
                    raise ValueError('no class carries the legacy name %r today' % (identifier,))
            return super().load_object(identifier)

        def identify_object(self, obj):
            m = re.match(r'^K(\d)$', getattr(obj, '__name__', ''))
            if m and obj.__module__ == MODNAME:
                return '%s:L%s' % (MODNAME, m.group(1))
            ident = super().identify_object(obj)         # verifies by loading
            AliasLoader.calls.pop()
            return ident
    AliasLoader.__module__ = MODNAME
    AliasLoader.__qualname__ = 'AliasLoader'
    mod.AliasLoader = AliasLoader
    # the stand-ins: Savables that declare nothing, under the legacy names
    for i in (1, 2, 3):
        setattr(mod, 'L%d' % i, type('L%d' % i, (plumpy.Savable,), {'__module__': MODNAME}))

    def plain(path):
        return {'c': ['v:' + path]}

    def fut(kind, path):
        f = plumpy.SavableFuture(loop=loop)
        if kind == 'futR':
            f.set_result(plain(path + '.result'))
        elif kind == 'futT':
            f.set_result((plain(path + '.result[0]'),))
        elif kind == 'futN':
            f.set_result(None)                     # an action that returns nothing
        elif kind == 'futZ':
            f.set_result('')                       # a falsy immutable result
        elif kind == 'futE':
            f.set_exception(Boom('E1'))
        elif kind == 'futC':
            f.cancel()
        return f

    def n1_init(self, path):
        self.x = plain(path + '.x')
        self.m = self.nm

    def nm(self):
        return 'nm'
    N1 = plumpy.auto_persist('x', 'm')(type('N1', (plumpy.Savable,), {'__module__': MODNAME, '__init__': n1_init, 'nm': nm}))
    mod.N1 = N1

    def n2_init(self, path):
        self.x = plain(path + '.x')
        self.s = N1(path + '.s')
        self.f = fut('futR', path + '.f')
    N2 = plumpy.auto_persist('x', 's', 'f')(type('N2', (plumpy.Savable,), {'__module__': MODNAME, '__init__': n2_init}))
    mod.N2 = N2

    def make(kind, path, holder, name):
        if kind == 'value':
            return plain(path)
        if kind == 'none':
            return None
        if kind == 'tuple':
            return (plain(path + '[0]'),)          # an immutable container holding a mutable value
        if kind == 'method':
            return getattr(holder, 'm_' + name)
        if kind == 'sav1':
            return N1(path)
        if kind == 'sav2':
            return N2(path)
        return fut(kind, path)

    _S.update(plumpy=plumpy, loaders=loaders, mod=mod, loop=loop, CustomLoader=CustomLoader, AliasLoader=AliasLoader, N1=N1, N2=N2, make=make, chains={})
    return _S


def build_chain(chain):
    """K1 <- K2 <- ... with the declarations of `chain` = [{'way': 'none'|'deco'|'hook', 'names': iterable}]; registered in the
    module.  'deco' = @auto_persist(*names); 'hook' = a persist() classmethod calling super().persist() and cls.auto_persist(*names)."""
    S = setup()
    plumpy = S['plumpy']
    key = tuple((d['way'], tuple(sorted(d['names']))) for d in chain)
    mod = S['mod']

    def k_init(self, kinds):
        for n in sorted(kinds):
            setattr(self, n, S['make'](kinds[n], 'o.' + n, self, n))
    ns = {'__module__': MODNAME, '__init__': k_init}
    for n in ('a', 'b', 'c'):
        def meth(self, _n=n):
            return _n
        meth.__name__ = 'm_' + n
        ns['m_' + n] = meth
    base = plumpy.Savable
    classes = []
    for i, (way, names) in enumerate(key, 1):
        body = dict(ns) if i == 1 else {'__module__': MODNAME}
        if way == 'hook':
            cell = []

            def persist(cls, _cell=cell, _names=names):
                super(_cell[0], cls).persist()
                cls.auto_persist(*_names)
            body['persist'] = classmethod(persist)
        cls = type('K%d' % i, (base,), body)
        if way == 'hook':
            cell.append(cls)
        if way == 'deco':
            cls = plumpy.auto_persist(*names)(cls)
        classes.append(cls)
        base = cls
    for i in (1, 2, 3):
        if i <= len(classes):
            setattr(mod, 'K%d' % i, classes[i - 1])
        elif hasattr(mod, 'K%d' % i):
            delattr(mod, 'K%d' % i)
    return classes


# ---- descriptions --------------------------------------------------------------------------------------
def is_plain(v):
    return isinstance(v, dict) and META not in v and set(v) == {'c'}


def is_tuple(v):
    return isinstance(v, tuple) and len(v) == 1 and is_plain(v[0])


def exc_tag(e):
    return getattr(e, 'tag', None) or type(e).__name__


def reach_ids(S, x, out, keep):
    """ids of every container reachable from x (objects, futures, plain values and their inner lists)."""
    plumpy = S['plumpy']
    if is_plain(x):
        out.add(id(x))
        out.add(id(x['c']))
        keep.append(x)
    elif is_tuple(x):
        reach_ids(S, x[0], out, keep)
    elif isinstance(x, plumpy.SavableFuture):
        out.add(id(x))
        keep.append(x)
        if x.done() and not x.cancelled() and x.exception() is None:
            reach_ids(S, x.result(), out, keep)
    elif isinstance(x, plumpy.Savable):
        out.add(id(x))
        keep.append(x)
        for n in ALLNAMES:
            if n in vars(x) and not inspect.ismethod(vars(x)[n]):
                reach_ids(S, vars(x)[n], out, keep)


def facts(S, x, path, avoid, holder, out):
    plumpy = S['plumpy']
    if x is None:
        out.add((path, 'none', '-'))
    elif isinstance(x, str):
        out.add((path, 'str', x))
    elif inspect.ismethod(x):
        out.add((path, 'meth', x.__name__ + ('@self' if x.__self__ is holder else '@other')))
    elif is_plain(x):
        if id(x) in avoid or id(x['c']) in avoid:
            out.add((path, 'shared', '-'))
        out.add((path, 'plain', x['c'][0]))
    elif is_tuple(x):
        out.add((path, 'tuple', '-'))
        facts(S, x[0], path + '[0]', avoid, holder, out)
    elif isinstance(x, plumpy.SavableFuture):
        if id(x) in avoid:
            out.add((path, 'shared', '-'))
        if x.cancelled():
            out.add((path, 'fut', 'CANCELLED'))
        elif not x.done():
            out.add((path, 'fut', 'PENDING'))
        else:
            out.add((path, 'fut', 'FINISHED'))
            e = x.exception()
            if e is not None:
                out.add((path + '.exc', 'exc', exc_tag(e)))
            else:
                facts(S, x.result(), path + '.result', avoid, x, out)
    elif isinstance(x, plumpy.Savable):
        if id(x) in avoid:
            out.add((path, 'shared', '-'))
        out.add((path, 'obj', type(x).__name__))
        for n in ALLNAMES:
            if n in vars(x):
                facts(S, vars(x)[n], path + '.' + n, avoid, x, out)
    elif isinstance(x, dict):
        out.add((path, 'dict', '-'))
    else:
        out.add((path, 'other', repr(x)))
    return out


def canon(x):
    """A saved state as a comparable value (exceptions by tag, everything else structurally)."""
    if isinstance(x, dict):
        return ('d', tuple(sorted((str(k), canon(v)) for k, v in x.items())))
    if isinstance(x, (list, tuple)):
        return ('l', tuple(canon(v) for v in x))
    if isinstance(x, BaseException):
        return ('e', exc_tag(x))
    return x


def mutate(S, x):
    """What the environment does to the original after save(): every mutable value changes in place, pending futures resolve."""
    plumpy = S['plumpy']
    if is_plain(x):
        x['c'][0] += '!'
    elif is_tuple(x):
        mutate(S, x[0])                      # the tuple cannot change, what it holds can
    elif isinstance(x, plumpy.SavableFuture):
        if not x.done():
            x.set_result('late')
        elif not x.cancelled() and x.exception() is None:
            mutate(S, x.result())
    elif isinstance(x, plumpy.Savable):
        for n in ALLNAMES:
            if n in vars(x) and not inspect.ismethod(vars(x)[n]):
                mutate(S, vars(x)[n])


def unknown_name(ident):
    if '|' in ident:
        p = ident.split('|')
        return '|'.join(p[:-1] + ['Nope'])
    return ident.split(':')[0] + ':Nope'


def tamper(saved, how):
    if how == 'noattr':
        saved[META]['class_name'] = unknown_name(saved[META]['class_name'])
    elif how == 'malformed':
        saved[META]['class_name'] = 'X-' + saved[META]['class_name'].replace(':', '-').replace('|', '-')
    elif how == 'nocls':
        del saved[META]['class_name']
    elif how == 'nometa':
        del saved[META]
    elif how == 'noldr':
        saved[META]['user']['object_loader'] = unknown_name(saved[META]['user']['object_loader'])
    elif how == 'badldr':
        saved[META]['user']['object_loader'] = 'X-' + saved[META]['user']['object_loader'].replace(':', '-').replace('|', '-')
    elif how == 'nested':
        for k, v in saved.items():
            if k != META and isinstance(v, dict) and META in v:
                v[META]['class_name'] = unknown_name(v[META]['class_name'])


def unplug(S, inst, sl):
    """The environment changes under the saved state: the class of the object under test ('gone') or the class of the loader the
    state records ('ldrgone') is removed from the module (the interpreter keeps running).  -> [(name, object)] to put back."""
    if inst['unk'] == 'gone':
        name = 'K%d' % inst['t']
    elif inst['unk'] == 'ldrgone':
        name = type(sl).__name__
    else:
        return []
    obj = getattr(S['mod'], name)
    delattr(S['mod'], name)
    return [(name, obj)]


def save_loader(S, cfg):
    """The loader of the save context of a loader configuration (None = no save context)."""
    if cfg in ('persave', 'ctxboth'):
        return S['CustomLoader']()
    if cfg == 'peralias':
        return S['AliasLoader']()
    return None


def loader_tag(S, ldr):
    if ldr is None:
        return 'none'
    if isinstance(ldr, S['CustomLoader']):
        return 'C'
    if isinstance(ldr, S['AliasLoader']):
        return 'A'
    if type(ldr) is S['loaders'].DefaultObjectLoader:
        return 'D'
    return 'other:' + repr(ldr)


def used_by(S, ident):
    """Which recording loader was asked for `ident` since the records were cleared ('-' = neither)."""
    if ident is None:
        return '-'
    if ident in S['CustomLoader'].calls:
        return 'C'
    if ident in S['AliasLoader'].calls:
        return 'A'
    return '-'


def clear_calls(S):
    del S['CustomLoader'].calls[:]
    del S['AliasLoader'].calls[:]


def execute(inst):
    """-> observation dict {prior, priorUsed, pre, stage, exc, facts(set of triples), resave, stable, used, ctx}"""
    S = setup()
    plumpy, loaders, CL = S['plumpy'], S['loaders'], S['CustomLoader']
    classes = build_chain(inst['chain'])
    cfg = inst['ldr']
    loaders.set_object_loader(CL() if cfg == 'global' else None)
    removed = []
    try:
        sl = save_loader(S, cfg)
        sctx = plumpy.LoadSaveContext(loader=sl) if sl is not None else None
        # the load context the caller supplies to EVERY load of the session: one object (or None)
        if cfg == 'ctxboth':
            lctx = plumpy.LoadSaveContext(loader=CL())
        elif inst.get('lc', 'asis') == 'shared':
            lctx = plumpy.LoadSaveContext()
        else:
            lctx = None
        obs = {'prior': '-', 'priorUsed': '-', 'pre': '-', 'stage': 'ok', 'exc': '-', 'facts': set(), 'resave': False, 'stable': True,
               'used': '-', 'ctx': 'absent'}

        def seen():
            obs['ctx'] = 'absent' if lctx is None else loader_tag(S, lctx.loader)
            return obs
        if inst.get('prior', 'none') != 'none':
            # a bundle saved with its own save context is loaded through the session's load context first
            ident = None
            try:
                q = S['N1']('q').save(plumpy.LoadSaveContext(loader=CL()) if inst['prior'] == 'custom' else None)
                ident = q.get(META, {}).get('class_name')
                clear_calls(S)
                plumpy.Savable.load(q, lctx)
            except BaseException as e:  # noqa
                obs['prior'] = type(e).__name__
            obs['priorUsed'] = used_by(S, ident)
        if inst.get('first'):
            # order of use: an instance of another class of the chain is saved and loaded first
            try:
                other = classes[inst['first'] - 1]({n: 'value' for n in inst['kinds']})
                plumpy.Savable.load(other.save(sctx), lctx)
            except BaseException as e:  # noqa
                obs['pre'] = type(e).__name__
        orig = classes[inst['t'] - 1](dict(inst['kinds']))
        avoid, keep = set(), []
        reach_ids(S, orig, avoid, keep)
        try:
            saved = orig.save(sctx)
        except BaseException as e:  # noqa  (CancelledError is a BaseException)
            obs.update(stage='save', exc=type(e).__name__)
            return seen()
        tamper(saved, inst['unk'])
        before = canon(saved)
        root_ident = saved.get(META, {}).get('class_name')
        mutate(S, orig)
        obs['stable'] = canon(saved) == before
        removed = unplug(S, inst, sl)
        clear_calls(S)
        try:
            loaded = plumpy.Savable.load(saved, lctx)
        except BaseException as e:  # noqa
            obs.update(stage='load', exc=type(e).__name__, used=used_by(S, root_ident))
            return seen()
        obs['used'] = used_by(S, root_ident)
        seen()
        facts(S, loaded, 'o', avoid, None, obs['facts'])
        saved_cmp = canon(saved)
        try:
            saved2 = loaded.save(sctx)
        except BaseException as e:  # noqa
            obs.update(stage='resave', exc=type(e).__name__)
            return obs
        obs['resave'] = canon(saved2) == saved_cmp
        return obs
    finally:
        for name, obj in removed:
            setattr(S['mod'], name, obj)
        loaders.set_object_loader(None)


def _rec(tag):
    """A loader of the specification as the recording loaders can witness it."""
    return tag if tag in ('C', 'A') else '-'


def expected(out):
    """The specification's `out` record in the shape of an observation."""
    return {'prior': out['prior'], 'priorUsed': _rec(out['priorUsed']), 'pre': out['pre'], 'stage': out['stage'], 'exc': out['exc'],
            'facts': set(tuple(f) for f in out['facts']), 'resave': out['resave'], 'stable': out['stable'], 'used': _rec(out['used']),
            'ctx': out['ctx']}


def norm_inst(inst):
    """An instance parsed from TLC output -> plain python (chain: list of {'deco','names': sorted list})."""
    return {'chain': [{'way': str(d['way']), 'names': sorted(d['names'])} for d in inst['chain']], 't': int(inst['t']),
            'kinds': dict(inst['kinds']), 'ldr': str(inst['ldr']), 'unk': str(inst['unk']), 'first': int(inst.get('first', 0)),
            'lc': str(inst.get('lc', 'asis')), 'prior': str(inst.get('prior', 'none'))}


def diff(exp, obs):
    out = []
    for k in ('prior', 'priorUsed', 'pre', 'stage', 'exc', 'resave', 'stable', 'used', 'ctx'):
        if exp[k] != obs[k]:
            out.append([k, exp[k], obs[k]])
    if exp['facts'] != obs['facts']:
        out.append(['facts', sorted(exp['facts'] - obs['facts']), sorted(obs['facts'] - exp['facts'])])
    return out
