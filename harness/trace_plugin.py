"""pytest plugin (direction V): records, for EVERY plumpy.Process the repository's own test-suite creates or recreates, the
observable events of its life and writes them as JSON for TLC (spec/ObservableTrace.tla).

Nothing in /repo is changed: the plugin is loaded with `-p harness.trace_plugin` (PYTHONPATH=/verif) and wraps, inside the
test interpreter only, Process.init (to attach to each instance) and, per instance, transition_to and the public control
methods.  Only state-event callbacks are used (they are not persisted, so bundles taken by the tests are unaffected).

events:  ["ts"] / ["te"]                       a transition_to call starts / ends (brackets, nested for the failed-transition route)
         ["enter", from, to]                   ENTERED_STATE callback
         ["cs", name] / ["ce", name, ret, exc] a control call (kill/pause/play/resume/fail) starts / ends
         ["obs", state, paused, fut, closed, consistent]   the public projection at a stable point (no transition in progress);
                                                           closed: "T" | "F" | "?" (not observable)
"""
import json
import os

TRACES = []
_LABEL = None


def _label(s):
    return None if s is None else s.name


def _fut(p):
    f = p.future()
    if f.cancelled():
        return 'cancelled'
    if not f.done():
        return 'pending'
    e = f.exception()
    if e is None:
        return 'result'
    import plumpy
    return 'killed' if isinstance(e, plumpy.KilledError) else 'exc'


def _consistent(p):
    """the accessor family of C02 agrees with itself and with the state label"""
    import plumpy
    from plumpy.process_states import ProcessState as PS

    def call(fn):
        try:
            return ('ok', fn())
        except Exception as e:  # noqa
            return ('raise', e)
    st = p.state
    res, suc, km = call(p.result), call(p.successful), call(p.killed_msg)
    if st == PS.FINISHED:
        return res[0] == 'ok' and suc[0] == 'ok' and p.is_successful == suc[1] and not p.killed() and p.exception() is None \
            and km[0] == 'raise' and p.has_terminated()
    if st == PS.EXCEPTED:
        return res[0] == 'raise' and (res[1] is p.exception() or p.exception() is None) and suc[0] == 'raise' and not p.is_successful \
            and not p.killed() and km[0] == 'raise' and p.has_terminated()
    if st == PS.KILLED:
        return res[0] == 'raise' and isinstance(res[1], plumpy.KilledError) and suc[0] == 'raise' and not p.is_successful \
            and p.killed() and km[0] == 'ok' and p.exception() is None and p.has_terminated()
    return res[0] == 'raise' and isinstance(res[1], plumpy.InvalidStateError) and suc[0] == 'raise' and not p.is_successful \
        and not p.killed() and km[0] == 'raise' and p.exception() is None and not p.has_terminated()


def _attach(p):
    import functools
    from plumpy.base import state_machine as sm
    ev = []
    TRACES.append({'cls': type(p).__name__, 'init': _label(p.state), 'events': ev})
    depth = [0]

    def obs():
        if depth[0] == 0:
            try:
                c = getattr(p, '_closed', None)     # private: 'unknown' if the attribute is ever renamed (no verdict then)
                ev.append(['obs', _label(p.state), bool(p.paused), _fut(p), ('T' if c else 'F') if isinstance(c, bool) else '?',
                           bool(_consistent(p))])
            except Exception as e:  # noqa  (never disturb the test)
                ev.append(['obs-error', repr(e)])

    p.add_state_event_callback(sm.StateEventHook.ENTERED_STATE,
                               lambda m, h, frm: ev.append(['enter', _label(frm.LABEL) if frm is not None else 'NONE', _label(p.state)]))
    orig_tt = p.transition_to

    @functools.wraps(orig_tt)
    def transition_to(new_state, **kw):
        if new_state is None:
            return orig_tt(new_state, **kw)
        ev.append(['ts'])
        depth[0] += 1
        try:
            return orig_tt(new_state, **kw)
        finally:
            depth[0] -= 1
            ev.append(['te'])
            obs()
    p.transition_to = transition_to

    def wrap(name):
        orig = getattr(p, name)

        @functools.wraps(orig)
        def method(*a, **k):
            ev.append(['cs', name])
            depth[0] += 1
            ret, exc = 'None', '-'
            try:
                r = orig(*a, **k)
                ret = 'True' if r is True else 'False' if r is False else 'None' if r is None else 'fut'
                return r
            except BaseException as e:
                exc = type(e).__name__
                raise
            finally:
                depth[0] -= 1
                ev.append(['ce', name, ret, exc])
                obs()
        setattr(p, name, method)
    for n in ('kill', 'pause', 'play', 'resume', 'fail'):
        wrap(n)
    obs()


def pytest_configure(config):
    import plumpy
    from plumpy import processes
    orig_init = processes.Process.init

    def init(self):
        orig_init(self)
        try:
            _attach(self)
        except Exception as e:  # noqa
            TRACES.append({'cls': type(self).__name__, 'init': 'ATTACH-FAILED', 'events': [['attach-error', repr(e)]]})
    init.__name__ = 'init'
    processes.Process.init = init


def pytest_sessionfinish(session, exitstatus):
    out = os.environ.get('VERIF_TRACE_OUT')
    if out:
        with open(out, 'w') as fh:
            json.dump(TRACES, fh)
