"""Shared driver of the checks decided on spec/ProcessCore.tla + ProcessProps.tla (C01-C06, C13 ...).

A check =
  (1) TLC, exhaustive, on the bounded instance(s) of the property: its invariants / action properties;
  (2) direction P: TLC state graphs (no VIEW, so states are behaviour prefixes) dumped and EVERY maximal
      behaviour replayed into the real plumpy.Process on the single-stepping loop, comparing the public
      projection and the event log after every action;
  (3) known-findings bookkeeping and evidence.
"""
import json
import multiprocessing
import os
import re
import time

from . import pools, tlaval, core_model, core_real, core_replay, evidence, findings, tlc

VERIF = os.path.dirname(os.path.dirname(os.path.abspath(__file__)))

# repairs present in /repo (fix: commits); the specification's clauses for them are switched on
FIXES = ['F1', 'F2', 'F4', 'F5', 'F6', 'F7', 'F8', 'F9', 'F10', 'F11', 'F12', 'F13', 'F13b', 'F15', 'F16', 'F17']

REENTRANT_HOOKS = ['step', 'L_running', 'L_waiting', 'L_paused', 'L_played', 'L_output']


def reentrant_plans(hooks, reqs, occs=(1, 2)):
    pe = core_model.plan_entry
    return [[pe(h, o, r, a)] for h in hooks for o in occs for r, a in reqs]


# ---- parallel replay ---------------------------------------------------------------------------------
_G = {}


def _replay_chunk(args):
    init, paths = args
    import logging
    logging.disable(logging.CRITICAL)
    out = []
    devs = set()
    nontrivial = 0
    for p in paths:
        fin = _G['nodes'][p[-1][1]]['S'] if p else _G['nodes'][init]['S']
        if any(not a.endswith('RunHandle') for a, _ in p) or any(e[0] in ('fault', 'call') for e in fin['log']):
            nontrivial += 1
        r = core_replay.replay_path(_G['progs'], _G['plans'], _G['nodes'], init, p, _G.get('run_kw'))
        for _, nid in p[-1:]:
            devs |= set(_G['nodes'][nid]['S']['dev'])
        if r:
            r['path'] = [a for a, _ in p]
            S0 = _G['nodes'][init]['S']
            r['prog'] = _G['progs'][S0['pi'] - 1]
            r['plan'] = _G['plans'][S0['pl'] - 1]
            out.append(r)
    return out, sorted(devs), nontrivial


def graph_dump(name, progs, plans, alphabet, k, extra_defs='', procs=None, fixes=FIXES, overrides=(), base='ProcessProps',
               spec='Spec', run_kw=None, workers=None):
    """Phase 1 of graph_replay (TLC only; may run concurrently with other TLC runs): dump the full state graph. -> dict"""
    plans = [list(p) for p in plans]
    tla, cfg = core_model.mc_module('MC_' + name, progs, plans, fixes, alphabet, k, base=base, extra_defs=extra_defs,
                                    overrides=overrides, spec=spec)
    t0 = time.time()
    wd = tlc.Workdir()
    wd.__enter__()
    try:
        wd.write('MC_%s.tla' % name, tla)
        wd.write('MC_%s.cfg' % name, cfg)
        dot = os.path.join(wd.path, 'graph')
        res = tlc.run(wd, 'MC_%s.tla' % name, 'MC_%s.cfg' % name, args=['-dump', 'dot,actionlabels', dot], workers=workers)
    except BaseException:
        wd.__exit__(None, None, None)
        raise
    return {'wd': wd, 'dot': dot + '.dot', 'res': res, 'tlc_s': time.time() - t0, 'plans': plans}


def graph_replay(name, progs, plans, alphabet, k, extra_defs='', procs=None, fixes=FIXES, overrides=(), base='ProcessProps',
                 spec='Spec', run_kw=None, dump=None):
    """Dump the full state graph of the instance and replay every maximal path. -> dict"""
    if dump is None:
        dump = graph_dump(name, progs, plans, alphabet, k, extra_defs=extra_defs, fixes=fixes, overrides=overrides, base=base, spec=spec)
    plans, res = dump['plans'], dump['res']
    t1 = time.time()
    try:
        nodes, edges, inits = tlc.load_dot(dump['dot'])
    finally:
        dump['wd'].__exit__(None, None, None)
    t0 = t1 - dump['tlc_s']
    t2 = time.time()
    jobs = []
    total = 0
    for init in inits:
        paths = tlc.maximal_paths(edges, init)
        total += len(paths)
        n = max(1, len(paths) // 8)
        for i in range(0, len(paths), n):
            jobs.append((init, paths[i:i + n]))
    _G.update(progs=progs, plans=plans, nodes=nodes, run_kw=run_kw)
    procs = procs or min(16, os.cpu_count() or 1)
    divergent, devs, sample, nontrivial = [], set(), None, 0
    if total:
        for out, d, nt in pools.fork_map(_replay_chunk, jobs, procs):
            divergent.extend(out)
            devs |= set(d)
            nontrivial += nt
        init0, p0 = jobs[len(jobs) // 2]
        S0 = nodes[init0]['S']
        longest = max(p0[0:50], key=len)
        sample = {'program': progs[S0['pi'] - 1]['name'], 'plan': plans[S0['pl'] - 1], 'actions': [a for a, _ in longest],
                  'final_state': nodes[longest[-1][1]]['S']['st'] if longest else 'CREATED'}
    _G.clear()
    return {'states': len(nodes), 'transitions': sum(len(v) for v in edges.values()), 'paths': total, 'divergent': divergent,
            'devs': devs, 'sample': sample, 'nontrivial': nontrivial, 'tlc_s': t1 - t0, 'parse_s': t2 - t1, 'replay_s': time.time() - t2,
            'generated': res.generated}


def graph_replay_split(r, dump=None, max_progs=3):
    """graph_replay of a large family in groups of programs (the components of different programs are disjoint): the parsed
    graph of one group at a time is all that is held in memory (a 17-program, K=3 checkpoint instance is several GB otherwise)."""
    progs = r['progs']
    if dump is not None or len(progs) <= max_progs:
        return graph_replay(dump=dump, **r)
    tot = None
    for i in range(0, len(progs), max_progs):
        g = graph_replay(**dict(r, progs=progs[i:i + max_progs], name='%s_g%d' % (r['name'], i // max_progs)))
        if tot is None:
            tot = g
        else:
            for k in ('states', 'transitions', 'paths', 'nontrivial', 'tlc_s', 'parse_s', 'replay_s', 'generated'):
                tot[k] += g[k]
            tot['divergent'].extend(g['divergent'])
            tot['devs'] |= g['devs']
            tot['sample'] = tot['sample'] or g['sample']
    return tot


# ---- deep random behaviours: tlc -simulate, every behaviour replayed ----------------------------------------
_SIM_HEAD = re.compile(r'^\\\* <(.*?) line \d+, col \d+ to line \d+, col \d+ of module \w+>\s*$')


def _parse_sim_file(path):
    """one behaviour written by `tlc -simulate file=...`: -> [(action label, state dict)]"""
    out, label, buf = [], None, None
    with open(path) as fh:
        for line in fh:
            m = _SIM_HEAD.match(line)
            if m:
                if buf is not None:
                    out.append((label, tlaval.parse_state(''.join(buf))))
                label, buf = m.group(1), None
                continue
            if line.startswith('STATE_'):
                buf = []
                continue
            if line.startswith('====') or line.startswith('----'):
                continue
            if buf is not None:
                buf.append(line)
    if buf is not None:
        out.append((label, tlaval.parse_state(''.join(buf))))
    return out


def _sim_chunk(files):
    import logging
    logging.disable(logging.CRITICAL)
    out, devs, steps = [], set(), 0
    for f in files:
        beh = _parse_sim_file(f)
        if not beh:
            continue
        nodes = {i: st for i, (_, st) in enumerate(beh)}
        path = [(beh[i][0], i) for i in range(1, len(beh))]
        steps += len(path)
        devs |= set(beh[-1][1]['S']['dev'])
        r = core_replay.replay_path(_G['progs'], _G['plans'], nodes, 0, path, _G.get('run_kw'))
        if r:
            S0 = nodes[0]['S']
            r['path'] = [a for a, _ in path]
            r['prog'] = _G['progs'][S0['pi'] - 1]
            r['plan'] = _G['plans'][S0['pl'] - 1]
            out.append(r)
    return out, sorted(devs), steps, len(files)


def simulate_replay(name, progs, plans, alphabet, k, depth=40, num=800, seed=0, invariants=(), extra_defs='', fixes=FIXES, overrides=(),
                    base='ProcessProps', spec='Spec', run_kw=None, workers=8, tlc_only=False, sim=None):
    """Random behaviours far beyond the exhaustive bounds (TLC simulation mode, invariants evaluated on the way), each one
    replayed into the real Process with the comparison after every action.  -> dict"""
    if sim is None:
        sim = simulate_dump(name, progs, plans, alphabet, k, depth=depth, num=num, seed=seed, invariants=invariants, extra_defs=extra_defs,
                            fixes=fixes, overrides=overrides, base=base, spec=spec, workers=workers)
    wd, res = sim['wd'], sim['res']
    t1 = time.time()
    try:
        files = sorted(os.path.join(wd.path, 'tr', f) for f in os.listdir(os.path.join(wd.path, 'tr')))
        _G.update(progs=progs, plans=sim['plans'], run_kw=run_kw)
        n = max(1, len(files) // 32)
        jobs = [files[i:i + n] for i in range(0, len(files), n)]
        divergent, devs, steps, nb = [], set(), 0, 0
        if files:
            for out, d, st, nf in pools.fork_map(_sim_chunk, jobs):
                divergent.extend(out)
                devs |= set(d)
                steps += st
                nb += nf
    finally:
        _G.clear()
        wd.cleanup()
    return {'behaviours': nb, 'steps': steps, 'divergent': divergent, 'devs': devs, 'tlc_s': sim['tlc_s'], 'replay_s': time.time() - t1,
            'violated': res.violated, 'res': res, 'depth': depth, 'K': k}


def simulate_dump(name, progs, plans, alphabet, k, depth=40, num=800, seed=0, invariants=(), extra_defs='', fixes=FIXES, overrides=(),
                  base='ProcessProps', spec='Spec', workers=8, run_kw=None):
    plans = [list(p) for p in plans]
    cfgx = ''.join('INVARIANT %s\n' % i for i in invariants)
    tla, cfg = core_model.mc_module('MC_' + name, progs, plans, fixes, alphabet, k, base=base, cfg_extra=cfgx, extra_defs=extra_defs,
                                    overrides=overrides, spec=spec)
    t0 = time.time()
    wd = tlc.Workdir()
    try:
        wd.write('MC_%s.tla' % name, tla)
        wd.write('MC_%s.cfg' % name, cfg)
        tr = wd.sub('tr')
        per = max(1, num // workers)
        res = tlc.run(wd, 'MC_%s.tla' % name, 'MC_%s.cfg' % name, workers=workers,
                      args=['-simulate', 'file=%s/b,num=%d' % (tr, per), '-depth', str(depth), '-seed', str(seed + 1)])
    except BaseException:
        wd.cleanup()
        raise
    return {'wd': wd, 'res': res, 'tlc_s': time.time() - t0, 'plans': plans}


def model_check(name, progs, plans, alphabet, k, invariants=(), properties=(), extra_defs='', view=False, fixes=FIXES,
                timeout=3000, overrides=(), base='ProcessProps', spec='Spec', workers=None):
    cfgx = ''.join('INVARIANT %s\n' % i for i in invariants) + ''.join('PROPERTY %s\n' % i for i in properties)
    if view:
        cfgx += 'VIEW View\n'
    tla, cfg = core_model.mc_module('MC_' + name, progs, plans, fixes, alphabet, k, base=base, cfg_extra=cfgx,
                                    extra_defs=extra_defs, overrides=overrides, spec=spec)
    with tlc.Workdir() as wd:
        wd.write('MC_%s.tla' % name, tla)
        wd.write('MC_%s.cfg' % name, cfg)
        res = tlc.run(wd, 'MC_%s.tla' % name, 'MC_%s.cfg' % name, timeout=timeout, workers=workers)
    return res


_COUNTER = [0]


def write_replay(pid, kind, payload):
    d = os.path.join(VERIF, 'evidence', 'replays')
    os.makedirs(d, exist_ok=True)
    _COUNTER[0] += 1
    path = os.path.join(d, '%s_%s_%d_%d.json' % (pid, kind, os.getpid(), _COUNTER[0]))
    with open(path, 'w') as fh:
        json.dump(payload, fh, indent=1, default=str)
    return path


def default_sims(tier, seed, mc_runs, replay_runs):
    """Deep random behaviours for (at most three of) the replay configurations: same family, a request budget far beyond the
    exhaustive bound, the invariants of the model-checking run of the same name."""
    inv = {m['name']: list(m.get('invariants', ())) for m in mc_runs}
    sims = []
    for r in [r for r in replay_runs if (r.get('run_kw') or {}).get('medium') != 'none'][:3]:
        # (a raw bundle may be loaded once only: the loaded process shares its mutable values, see DESIGN.md section 6)
        s = {k: v for k, v in r.items() if k in ('progs', 'plans', 'alphabet', 'extra_defs', 'overrides', 'base', 'spec', 'run_kw', 'fixes')}
        s.update(name=r['name'] + '_sim', k=r['k'] + (6 if tier == 'quick' else 12), depth=50 if tier == 'quick' else 90,
                 num=480 if tier == 'quick' else 8000, seed=seed * 1000 + len(sims), invariants=inv.get(r['name'], []))
        sims.append(s)
    return sims


def run_check(pid, tier, seed, mc_runs, replay_runs, level_text, assumptions, rule, level='model_checking', extra_cov=None,
              extra_violations=0, suite_traces=None, sim_runs=None):
    """mc_runs: list of dicts for model_check; replay_runs: list of dicts for graph_replay; sim_runs: for simulate_replay
    (default: derived from the replay configurations)."""
    if sim_runs is None:
        sim_runs = default_sims(tier, seed, mc_runs, replay_runs)
    t0 = time.time()
    violations = 0
    states = transitions = 0
    mc_summ = []
    # The TLC invocations of a check (model checking, graph dumps, the test-suite trace stage) are independent: in the quick
    # tier, where start-up dominates, they run concurrently; parsing and replaying (fork pools) follow in the main thread.
    par = int(os.environ.get('VERIF_TLC_PAR', '4' if tier == 'quick' else '1'))
    from concurrent.futures import ThreadPoolExecutor
    pool = ThreadPoolExecutor(max_workers=max(par, 1))
    wk = None if par <= 1 else max(2, (os.cpu_count() or 4) // par)
    mc_f = [pool.submit(model_check, workers=wk, **m) for m in mc_runs]
    dump_f = [pool.submit(graph_dump, workers=wk, **r) for r in replay_runs] if par > 1 else None
    sim_f = [pool.submit(simulate_dump, workers=min(8, wk or 8), **{k: v for k, v in r.items() if k != 'run_kw'}) for r in sim_runs] if par > 1 else None
    suite_f = None
    if suite_traces is not None and par > 1:
        from . import obs_trace
        suite_f = pool.submit(obs_trace.run_stage, suite_traces)
    def abandon():           # a machinery failure: leave no scratch directory behind
        for f in (dump_f or []) + (sim_f or []):
            try:
                f.result()['wd'].cleanup()
            except BaseException:  # noqa
                pass
    for m, f in zip(mc_runs, mc_f):
        try:
            res = f.result()
        except BaseException:
            abandon()
            raise
        states += res.distinct
        transitions += res.generated
        mc_summ.append({'instance': m['name'], 'distinct_states': res.distinct, 'states_generated': res.generated,
                        'depth': res.depth, 'invariants': list(m.get('invariants', ())) + list(m.get('properties', ())),
                        'K': m['k'], 'programs': [p['name'] for p in m['progs']], 'plans': len(m['plans']),
                        'alphabet': sorted(m['alphabet']), 'wall_s': round(res.wall, 1)})
        if res.violated:
            tr = res.trace()
            path = write_replay(pid, 'tlc', {'kind': 'tlc-counterexample', 'violated': res.violated, 'instance': m['name'],
                                             'trace': [{'action': a, 'state': s} for a, s in tr]})
            print('TLC: %s violated in %s; behaviour: %s' % (res.violated, m['name'], [a for a, _ in tr][1:]))
            print('VIOLATION property=%s replay=%s' % (pid, path))
            violations += 1
        elif not res.ok:
            abandon()
            raise tlc.MachineryError('TLC did not complete on %s:\n%s' % (m['name'], res.out[-3000:]))
    replayed = 0
    nontrivial = 0
    devs = set()
    samples = []
    rp_summ = []
    dumps = [None] * len(replay_runs)
    if dump_f is not None:
        import concurrent.futures as cf
        cf.wait(dump_f + sim_f + ([suite_f] if suite_f is not None else []))       # (no thread is left running when the replay pools fork)
        err = [f.exception() for f in dump_f + sim_f if f.exception() is not None]
        if err:
            abandon()
            raise err[0]
        dumps = [f.result() for f in dump_f]
    pool.shutdown(wait=True)
    for r, dmp in zip(replay_runs, dumps):
        g = graph_replay_split(r, dump=dmp)
        replayed += g['paths']
        nontrivial += g['nontrivial']
        devs |= g['devs']
        if g['sample']:
            samples.append(g['sample'])
        rp_summ.append({'instance': r['name'], 'states': g['states'], 'behaviours_replayed': g['paths'],
                        'divergent': len(g['divergent']), 'tlc_s': round(g['tlc_s'], 1), 'parse_s': round(g['parse_s'], 1),
                        'replay_s': round(g['replay_s'], 1)})
        for d in g['divergent'][:5]:
            path = write_replay(pid, 'divergence', {'kind': 'replay-divergence', 'program': d['prog'], 'plan': d['plan'],
                                                    'run_kw': r.get('run_kw') or {},
                                                    'fixes': FIXES, 'actions': d['path'], 'at': d['at'], 'diffs': d['diffs']})
            print('DIVERGENCE program=%s plan=%s after %s: %s' % (d['prog']['name'], d['plan'], d['path'][:d['at']], d['diffs'][:3]))
            print('VIOLATION property=%s replay=%s' % (pid, path))
        violations += len(g['divergent'])
    sim_summ = []
    for i, r in enumerate(sim_runs):
        g = simulate_replay(sim=sim_f[i].result() if sim_f is not None else None, **r)
        replayed += g['behaviours']
        nontrivial += g['behaviours']
        devs |= g['devs']
        sim_summ.append({'instance': r['name'], 'K': r['k'], 'depth': r['depth'], 'seed': r['seed'], 'behaviours_replayed': g['behaviours'],
                         'steps': g['steps'], 'divergent': len(g['divergent']), 'invariants': list(r.get('invariants', ())),
                         'tlc_s': round(g['tlc_s'], 1), 'replay_s': round(g['replay_s'], 1)})
        if g['violated']:
            tr = g['res'].trace()
            path = write_replay(pid, 'tlc', {'kind': 'tlc-counterexample (simulation)', 'violated': g['violated'], 'instance': r['name'],
                                             'trace': [{'action': a, 'state': s} for a, s in tr]})
            print('TLC: %s violated in %s (simulation); behaviour: %s' % (g['violated'], r['name'], [a for a, _ in tr][1:]))
            print('VIOLATION property=%s replay=%s' % (pid, path))
            violations += 1
        elif not g['res'].ok:
            raise tlc.MachineryError('TLC simulation did not complete on %s:\n%s' % (r['name'], g['res'].out[-3000:]))
        for d in g['divergent'][:5]:
            path = write_replay(pid, 'divergence', {'kind': 'replay-divergence', 'program': d['prog'], 'plan': d['plan'],
                                                    'run_kw': r.get('run_kw') or {},
                                                    'fixes': FIXES, 'actions': d['path'], 'at': d['at'], 'diffs': d['diffs']})
            print('DIVERGENCE (simulated behaviour) program=%s plan=%s after %s: %s' % (d['prog']['name'], d['plan'], d['path'][:d['at']], d['diffs'][:3]))
            print('VIOLATION property=%s replay=%s' % (pid, path))
        violations += len(g['divergent'])
    suite = None
    if suite_traces is not None:
        # direction V: the repository's own test-suite under the recorder, validated by TLC against ObservableTrace.tla
        from . import obs_trace
        suite = suite_f.result() if suite_f is not None else obs_trace.run_stage(suite_traces)
        for v in suite['violations'][:5]:
            path = write_replay(pid, 'suitetrace', {'kind': 'rejected-test-suite-trace', 'process_class': v['cls'], 'first_unexplained_event': v['at'],
                                                   'event': v['event'], 'events': v['events']})
            print('TRACE REJECTED (test-suite process %s): event %d %s is not a step of the observable protocol' % (v['cls'], v['at'], v['event']))
            print('VIOLATION property=%s replay=%s' % (pid, path))
        violations += len(suite['violations'])
        replayed += suite.get('accepted', 0)
        suite = {k: v for k, v in suite.items() if k != 'violations'}
    findings.print_known(pid, devs)
    cov = {
        'states': max(states, 1), 'transitions': max(transitions, 1), 'traces_validated_against_impl': replayed,
        'samples': samples or [{'note': 'no behaviour replayed'}],
        'evaluations': replayed, 'distinct_nontrivial': nontrivial,
        'rule': rule + '; non-trivial = a replayed behaviour with at least one environment request, re-entrant call or injected fault '
                       '(behaviours are distinct maximal paths of the state graph)',
        'exhaustive': True,
        'model_checking': mc_summ, 'replay': rp_summ, 'simulation': sim_summ, 'deviation_clauses_exercised': sorted(devs),
        'fixes_modelled': FIXES,
    }
    if suite is not None:
        cov['test_suite_traces'] = suite
    if extra_cov:
        cov.update(extra_cov)
        cov['traces_validated_against_impl'] += extra_cov.get('outline_behaviours_on_impl', 0)
        cov['evaluations'] += extra_cov.get('outline_behaviours_on_impl', 0)
        cov['distinct_nontrivial'] += extra_cov.get('outline_behaviours_on_impl', 0)
        cov['states'] += extra_cov.get('outline_states', 0)
    violations += extra_violations
    evidence.write(pid, tier, seed, level, cov, time.time() - t0, violations, assumptions)
    return 1 if violations else 0


def replay_file(path):
    """./check <id> --replay <file>: re-run a recorded divergence / counterexample against the real code."""
    import logging
    logging.disable(logging.CRITICAL)
    rec = json.load(open(path))
    if rec.get('kind') == 'replay-divergence':
        run = core_real.Run(rec['program']['steps'], rec['plan'], rec['program']['outMissing'], awt=rec['program'].get('awt', ()),
                            **rec.get('run_kw', {}))
        for a in rec['actions'][:rec['at']]:
            name, params = core_replay.split_action(a)
            name = core_replay.ALIASES.get(name, name)
            if name == 'RunHandle':
                run.run_handle()
            elif name == 'EnvCallSoon':
                run.env('cb' + params[0])
            elif name == 'EnvComplete':
                run.complete(params[0], params[1][0], params[1][1])
            elif name in ('EnvRpc', 'EnvBcast'):
                if len(params) == 1:           # FRpc(<<intent, text>>)
                    params = params[0]
                run.deliver('rpc' if name == 'EnvRpc' else 'bcast', params[0], params[1])
            elif name == 'EnvSave':
                run.snapshot()
            elif name == 'EnvRestore':
                run.restore()
            else:
                n, arg = core_replay.ENV_ACTIONS[name]
                run.env(n, params[0] if params else arg)
            print(a, '->', run.projection())
        print('log:', run.log)
        print('recorded diffs (field, specification, implementation):', rec['diffs'])
        return 1
    print(json.dumps(rec, indent=1)[:4000])
    return 1
