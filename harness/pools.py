"""Fork pools that fail loudly: multiprocessing.Pool waits for ever when a worker is killed (e.g. by the OOM killer);
concurrent.futures reports a broken pool, which is turned into a machinery failure (exit 2), never into a verdict."""
import concurrent.futures as cf
import multiprocessing
import os


class PoolBroken(RuntimeError):
    pass


def fork_map(fn, jobs, procs=None, ordered=False):
    """Results of fn(job) for every job, from forked worker processes (in completion order unless `ordered`)."""
    jobs = list(jobs)
    if not jobs:
        return
    procs = max(1, min(procs or min(16, os.cpu_count() or 1), len(jobs)))
    ctx = multiprocessing.get_context('fork')
    with cf.ProcessPoolExecutor(max_workers=procs, mp_context=ctx) as ex:
        futs = [ex.submit(fn, j) for j in jobs]
        try:
            for f in (futs if ordered else cf.as_completed(futs)):
                yield f.result()
        except cf.process.BrokenProcessPool as e:
            from . import tlc
            raise tlc.MachineryError('a worker process of the replay pool died (killed? out of memory?): %s' % (e,)) from e
