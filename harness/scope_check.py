"""Driver of C18 on spec/Scope.tla: TLC verdict, behaviours of the dumped state graph replayed on real processes."""
import json
import multiprocessing
import os
import random
import time

from . import evidence, findings, scope_model as M, scope_real as R, tlc

VERIF = os.path.dirname(os.path.dirname(os.path.abspath(__file__)))
PID = 'C18'


# ---- behaviours of the state graph ----------------------------------------------------------------------------------
def succ(edges, n):
    """distinct successors (the dump lists a transition once per disjunct of Next that produces it)"""
    return list(dict.fromkeys(m for _, m in edges.get(n, []) if m != n))


def count_paths(edges, init):
    """number of maximal paths from each node reachable from init (the graph is acyclic)"""
    cnt = {}
    stack = [(init, False)]
    while stack:
        n, done = stack.pop()
        if done:
            s = succ(edges, n)
            cnt[n] = sum(cnt[m] for m in s) if s else 1
            continue
        if n in cnt:
            continue
        stack.append((n, True))
        for m in succ(edges, n):
            if m not in cnt:
                stack.append((m, False))
    return cnt


def all_paths(edges, init):
    out, stack = [], [(init, [init])]
    while stack:
        n, p = stack.pop()
        s = succ(edges, n)
        if not s:
            out.append(p)
        for m in s:
            stack.append((m, p + [m]))
    return out


def select_paths(edges, init, limit, rng):
    """All maximal paths when there are at most `limit`; otherwise a set of paths that covers every edge of the graph
    plus uniformly drawn maximal paths up to `limit`.  -> (paths as node lists, total number of maximal paths, exhaustive)"""
    cnt = count_paths(edges, init)
    total = cnt[init]
    if total <= limit:
        return all_paths(edges, init), total, True
    pred = {init: None}
    order = [init]
    for n in order:
        for m in succ(edges, n):
            if m not in pred:
                pred[m] = n
                order.append(m)
    covered = set()
    paths = []

    def finish(p):
        n = p[-1]
        while True:
            s = succ(edges, n)
            if not s:
                return p
            fresh = [m for m in s if (n, m) not in covered]
            m = fresh[0] if fresh else s[rng.randrange(len(s))]
            covered.add((n, m))
            p.append(m)
            n = m
    for u in order:
        for v in succ(edges, u):
            if (u, v) in covered:
                continue
            pre = []
            x = u
            while x is not None:
                pre.append(x)
                x = pred[x]
            pre.reverse()
            for a, b in zip(pre, pre[1:]):
                covered.add((a, b))
            covered.add((u, v))
            paths.append(finish(pre + [v]))
    seen = {tuple(p) for p in paths}
    tries = 0
    while len(paths) < limit and tries < 4 * limit:
        tries += 1
        p = [init]
        n = init
        while True:
            s = succ(edges, n)
            if not s:
                break
            r = rng.randrange(cnt[n])
            for m in s:
                if r < cnt[m]:
                    break
                r -= cnt[m]
            p.append(m)
            n = m
        if tuple(p) not in seen:
            seen.add(tuple(p))
            paths.append(p)
    return paths, total, False


# ---- replay ------------------------------------------------------------------------------------------------------------
_G = {}


def _any_chunk(args):
    import logging
    logging.disable(logging.CRITICAL)
    scn, paths = args
    out = []
    for p in paths:
        r = R.replay_any(scn, [_G['nodes'][n]['S'] for n in p])
        if r:
            r['path'] = p
            out.append(r)
    return out


def actions_of(nodes, p):
    return [list(nodes[n]['S']['act']) for n in p[1:]]


def nontrivial(S):
    """a behaviour in which code of at least two processes was sampled, one of them outside a plain step body"""
    procs = {e['p'] for e in S['log']}
    return len(procs) >= 2 and any(not e['pt'].startswith('b') for e in S['log'])


def write_replay(kind, payload):
    d = os.path.join(VERIF, 'evidence', 'replays')
    os.makedirs(d, exist_ok=True)
    n = 0
    while True:
        n += 1
        path = os.path.join(d, '%s_%s_%d_%d.json' % (PID, kind, os.getpid(), n))
        if not os.path.exists(path):
            break
    with open(path, 'w') as fh:
        json.dump(payload, fh, indent=1, default=sorted)
    return path


def run_impl(scn, actions):
    """A behaviour prefix on the implementation -> recorded log (both modes)."""
    if scn['mode'] == 'any':
        run = R.AnyRun(scn)
        err = None
        for a in actions:
            err = run.perform(a)
            if err:
                break
        out = {'log': list(run.log), 'error': err, 'problems': run.problems()}
        run.dispose()
        return out
    res = R.run_children([{'scn': scn, 'script': [a for a in actions if a[0] != 'run']}], procs=1)[0]
    return {'log': res.get('log'), 'error': res.get('crash'), 'problems': res.get('errors')}


def first_violation(nodes, edges, inits, accepted):
    """A shortest behaviour of the graph that ends in a state violating CurrentIsRunning for the accepted deviations."""
    fallback = (None, None)
    for init in inits:
        pred = {init: None}
        order = [init]
        for n in order:
            for e in nodes[n]['S']['log']:
                if e['obs'] != e['p'] and e['dev'] not in accepted:
                    p = []
                    x = n
                    while x is not None:
                        p.append(x)
                        x = pred[x]
                    if e['pt'] != 'on_create':          # prefer a hook of a process that is being stepped
                        return list(reversed(p)), e
                    if fallback[0] is None:
                        fallback = (list(reversed(p)), e)
            for m in succ(edges, n):
                if m not in pred:
                    pred[m] = n
                    order.append(m)
    return fallback


def run_check(tier, seed, fixes, limit, procs=None):
    import plumpy  # noqa: imported before the workers fork
    t0 = time.time()
    rng = random.Random(seed)
    listed = findings.deviations(PID)
    replayed, mc_only = M.family(tier)
    violations = 0
    # (1) the verdict: TLC on every scenario, only the listed deviations tolerated
    resA, _ = M.run_tlc('C18_props', replayed + mc_only, fixes, listed)
    if not resA.ok and not resA.violated:
        raise tlc.MachineryError('TLC did not complete:\n%s' % resA.out[-3000:])
    # (2) the state graph of the model of the code as it is (as-written clause tolerated so that the graph is complete)
    accept = sorted(set(listed) | {M.DEV, M.DEV_CLOSE})
    tB = time.time()
    resB, graph = M.run_tlc('C18_graph', replayed, fixes, accept, dump=True)
    if resB.violated or not resB.ok or graph is None:
        if resB.violated:
            tr = resB.trace()
            path = write_replay('tlc', {'kind': 'tlc-trace', 'violated': resB.violated, 'fixes': sorted(fixes), 'deviations': accept,
                                        'trace': [{'action': a, 'state': s} for a, s in tr]})
            print('TLC: %s violated by the model of the code as written' % resB.violated)
            print('VIOLATION property=%s replay=%s' % (PID, path))
            evidence.write(PID, tier, seed, 'model_checking',
                           {'states': max(1, resA.distinct + resB.distinct), 'transitions': max(1, resA.generated + resB.generated),
                            'traces_validated_against_impl': 0,
                            'samples': [{'tlc_violation': resB.violated}], 'evaluations': 0, 'distinct_nontrivial': 0,
                            'rule': 'stopped at a TLC violation'}, time.time() - t0, 1, ASSUMPTIONS)
            return 1
        raise tlc.MachineryError('TLC did not complete on the graph instance:\n%s' % resB.out[-3000:])
    nodes, edges, inits = graph
    t_graph = time.time() - tB
    by_name = {s['name']: M.jsonable(s) for s in replayed}
    if resA.violated:
        p, entry = first_violation(nodes, edges, inits, set(listed))
        rec = {'kind': 'tlc-counterexample', 'violated': resA.violated, 'fixes': sorted(fixes), 'deviations_listed': listed}
        if p is not None and resA.violated == 'CurrentIsRunning':
            S = nodes[p[-1]]['S']
            scn = by_name[replayed[S['sc'] - 1]['name']]
            acts = actions_of(nodes, p)
            impl = run_impl(scn, acts)
            want = R.model_log(S)
            got = (impl['log'] or [])[:len(want)] if scn['mode'] == 'any' else [e for e in (impl['log'] or [])][:len(want)]
            rec.update(scenario=scn, actions=acts, model_log=want, implementation_log=impl['log'],
                       violating_sample={'point': entry['pt'], 'process': entry['p'], 'observed_current': entry['obs'],
                                         'clause': entry['dev']},
                       confirmed_on_implementation=(got == want))
            print('TLC: CurrentIsRunning violated: scenario %s, after %s: %s of process %d sees Process.current() = %s '
                  '[implementation behaves the same: %s]' % (scn['name'], acts, entry['pt'], entry['p'],
                                                           entry['obs'] or None, got == want))
        else:
            rec['trace'] = [{'action': a, 'state': s} for a, s in resA.trace()]
            print('TLC: %s violated' % resA.violated)
        path = write_replay('tlc', rec)
        print('VIOLATION property=%s replay=%s' % (PID, path))
        violations += 1
    # (3) behaviours -> implementation
    t_sel = time.time()
    any_jobs, idle_jobs, per_scn = [], [], {}
    for init in inits:
        S0 = nodes[init]['S']
        sc = replayed[S0['sc'] - 1]
        scn = by_name[sc['name']]
        paths, total, exhaustive = select_paths(edges, init, limit, rng)
        per_scn[sc['name']] = {'mode': sc['mode'], 'behaviours_in_graph': total, 'replayed': len(paths), 'all': exhaustive, 'divergent': 0}
        if sc['mode'] == 'any':
            n = max(1, len(paths) // 32)
            for i in range(0, len(paths), n):
                any_jobs.append((scn, paths[i:i + n]))
        else:
            for p in paths:
                idle_jobs.append((sc['name'], p))
    t_rep = time.time()
    t_select = t_rep - t_sel
    divergent = []
    _G['nodes'] = nodes
    if any_jobs:
        from . import pools
        for out in pools.fork_map(_any_chunk, any_jobs, procs):
            divergent.extend(out)
    t_any = time.time() - t_rep
    t_rep = time.time()
    results = R.run_children([{'scn': by_name[name], 'script': [a for a in actions_of(nodes, p) if a[0] != 'run']}
                              for name, p in idle_jobs], procs=procs)
    reordered = 0
    for (name, p), res in zip(idle_jobs, results):
        d = R.diff_idle(nodes[p[-1]]['S'], res)
        reordered += 1 if res.get('reordered') else 0
        if d:
            divergent.append({'path': p, 'at': len(p) - 1, 'diffs': d, 'log': res.get('log')})
    t_idle = time.time() - t_rep
    _G.clear()
    for d in divergent:
        p = d['path']
        S0 = nodes[p[0]]['S']
        per_scn[replayed[S0['sc'] - 1]['name']]['divergent'] += 1
    for d in divergent[:5]:
        p = d['path']
        scn = by_name[replayed[nodes[p[0]]['S']['sc'] - 1]['name']]
        acts = actions_of(nodes, p)
        path = write_replay('divergence', {'kind': 'replay-divergence', 'scenario': scn, 'fixes': sorted(fixes), 'actions': acts,
                                           'at': d['at'], 'diffs': d['diffs'], 'model_log': R.model_log(nodes[p[d['at']]]['S']),
                                           'implementation_log': d['log']})
        print('DIVERGENCE scenario=%s after %s: (what, specification, implementation) %s' % (scn['name'], acts[:d['at']], d['diffs'][:2]))
        print('VIOLATION property=%s replay=%s' % (PID, path))
    violations += len(divergent)
    # (4) bookkeeping
    leaves, used, nontriv, samples = set(), set(), 0, []
    replayed_n = 0
    seen = set()
    for group in [pp for _, pp in any_jobs] + [[p for _, p in idle_jobs]]:
        for p in group:
            replayed_n += 1
            S = nodes[p[-1]]['S']
            key = (S['sc'], tuple(tuple(nodes[n]['S']['act']) for n in p[1:]))
            if key in seen:
                continue
            seen.add(key)
            if nontrivial(S):
                nontriv += 1
            if p[-1] not in leaves:
                leaves.add(p[-1])
                used |= {e['dev'] for e in S['log'] if e['dev'] != '-'}
    for name in list(per_scn)[:1] + [n for n in per_scn if per_scn[n]['mode'] == 'idle'][:2]:
        for init in inits:
            if replayed[nodes[init]['S']['sc'] - 1]['name'] == name:
                p = max(all_paths_some(edges, init, 40), key=len)
                S = nodes[p[-1]]['S']
                samples.append({'scenario': by_name[name], 'actions': actions_of(nodes, p),
                                'log(point, process, Process.current())': R.model_log(S)})
    if reordered:
        print('NOTE: %d behaviours on the real loop interleaved the samples of different processes in another order than the '
              'specification (per-process sequences identical); not a violation' % reordered)
    findings.print_known(PID, used & set(listed))
    cov = {
        'states': resA.distinct + resB.distinct, 'transitions': resA.generated + resB.generated,
        'traces_validated_against_impl': replayed_n, 'evaluations': replayed_n, 'distinct_nontrivial': nontriv,
        'samples': samples or [{'note': 'nothing replayed'}],
        'rule': 'states/transitions: sum of the two TLC runs of this check (verdict instance: only listed deviations tolerated; graph '
                'instance: the model of the code as written, dumped); behaviours = maximal paths of the TLC state graph of spec/Scope.tla per scenario (every order in which the environment '
                'completes the awaited futures, placements of kill/pause/play/resume/call_soon between callbacks; every process overrides the '
                'termination hooks on_terminated (sampled on entry and after the process was closed) / on_close and registers add_cleanup '
                'callbacks at construction and from steps, which sample too); all of them when a '
                'scenario has at most %d, otherwise an edge cover of the graph plus uniformly drawn paths; each is replayed on generated '
                'real Process subclasses (mode any: harness/vloop.py, one callback per RunHandle; mode idle: child interpreters on the '
                'nest_asyncio loop) comparing the (point, process, Process.current()) sequence, the observer samples and the stacks '
                'finished tasks leave; non-trivial = distinct (scenario, action sequence) with samples of >= 2 processes and at least '
                'one hook / listener / callback sample' % limit,
        'exhaustive': all(v['all'] for v in per_scn.values()),
        'model_checking': {'instance': 'C18_props', 'scenarios': [s['name'] for s in replayed + mc_only], 'distinct_states': resA.distinct,
                           'states_generated': resA.generated, 'depth': resA.depth, 'invariants': M.INVARIANTS,
                           'violated': resA.violated, 'wall_s': round(resA.wall, 1), 'deviations_tolerated': listed},
        'graph': {'distinct_states': resB.distinct, 'states_generated': resB.generated, 'tlc_and_parse_s': round(t_graph, 1),
                  'deviations_tolerated': accept},
        'replay': per_scn, 'replay_any_s': round(t_any, 1), 'replay_idle_s': round(t_idle, 1), 'select_s': round(t_select, 1),
        'idle_behaviours_with_other_interleaving_of_processes': reordered,
        'deviation_clauses_exercised': sorted(used), 'fixes_modelled': sorted(fixes),
    }
    evidence.write(PID, tier, seed, 'model_checking', cov, time.time() - t0, violations, ASSUMPTIONS)
    return 1 if violations else 0


def all_paths_some(edges, init, k):
    """a few maximal paths (depth first), for the samples"""
    out, stack = [], [(init, [init])]
    while stack and len(out) < k:
        n, p = stack.pop()
        s = succ(edges, n)
        if not s:
            out.append(p)
        for m in s:
            stack.append((m, p + [m]))
    return out


ASSUMPTIONS = [
    'contexts: a task runs all its steps in one copy of the context current at its creation; ContextVar.set is local to the current '
    'context; the default list object is shared by all contexts that never set the variable (Python 3.12 contextvars/asyncio)',
    'mode any: the harness loop (harness/vloop.py) runs one callback per RunHandle and the environment acts from the main context '
    'between callbacks; mode idle: the nest_asyncio loop installed by plumpy.set_event_loop_policy(), callbacks in batches of '
    'len(ready), the environment is a driver task acting when the ready queue is otherwise empty',
    'the environment offers kill/pause at most once per process and never a second interruption, kill while paused or resume during '
    'an interruption (those histories belong to C04-C06 and their listed findings)',
    'observer: a coroutine task and the main context sample Process.current() after every action and must see None',
    'close() called by the user is modelled (UserClose, clause D18c/F18c) but its scenarios are switched off '
    '(scope_model.MODEL_USER_CLOSE): on_close and the cleanup callbacks are only exercised through terminal transitions',
]


def replay_file(path):
    import logging
    logging.disable(logging.CRITICAL)
    rec = json.load(open(path))
    if 'scenario' not in rec:
        print(json.dumps(rec, indent=1)[:6000])
        return 1
    scn = rec['scenario']
    acts = rec['actions'][:rec['at']] if 'at' in rec else rec['actions']
    impl = run_impl(scn, acts)
    print('scenario %s (%s), actions %s' % (scn['name'], scn['mode'], acts))
    want = rec.get('model_log') or []
    got = impl['log'] or []
    for i in range(max(len(want), len(got))):
        w = want[i] if i < len(want) else None
        g = got[i] if i < len(got) else None
        print('  %-2s spec %-32s impl %s' % ('' if w == g else '!=', w, g))
    if impl.get('error') or impl.get('problems'):
        print('  implementation: %s %s' % (impl.get('error'), impl.get('problems')))
    if rec.get('violating_sample'):
        print('violating sample: %s' % rec['violating_sample'])
    if rec.get('diffs'):
        print('recorded diffs (what, specification, implementation): %s' % rec['diffs'])
    return 1
