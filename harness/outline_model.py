"""Outline ASTs for spec/Outline.tla: bounded families, TLA+ emission, real WorkChain classes, runner."""
import itertools
import random

from . import tlaval


def step(i, ret='none', aw='none'):
    return {'t': 'step', 'id': i, 'ret': ret, 'aw': aw}


def ret_(code='none'):
    return {'t': 'return', 'code': code}


# ---- enumeration of structures ---------------------------------------------------------------------
def _blocks(size, depth, allow_return=True):
    """all non-empty sequences of nodes with `size` nodes in total (shape only: ids assigned later)"""
    if size == 0:
        return
    for first in range(1, size + 1):
        for node in _nodes(first, depth, allow_return):
            if first == size:
                yield [node]
            else:
                for rest in _blocks(size - first, depth, allow_return):
                    yield [node] + rest


def _nodes(size, depth, allow_return):
    if size == 1:
        yield {'t': 'step'}
        if allow_return:
            yield {'t': 'return', 'code': 'none'}
            yield {'t': 'return', 'code': 'v3'}
        return
    if depth == 0:
        return
    inner = size - 1
    # while
    for body in _blocks(inner, depth - 1):
        yield {'t': 'while', 'body': body}
    # if with one branch
    for body in _blocks(inner, depth - 1):
        yield {'t': 'if', 'conds': [{'body': body}]}
    # if / else and if / elif  (the second conditional costs one more node)
    if inner >= 2:
        for k in range(1, inner):
            for b1 in _blocks(k, depth - 1):
                for b2 in _blocks(inner - k, depth - 1):
                    yield {'t': 'if', 'conds': [{'body': b1}, {'body': b2, 'else': True}]}
                if inner - k - 0 >= 1:
                    for b2 in _blocks(inner - k, depth - 1):
                        yield {'t': 'if', 'conds': [{'body': b1}, {'body': b2}]}


def _number(body, counters):
    out = []
    for n in body:
        if n['t'] == 'step':
            counters['s'] += 1
            out.append(step(counters['s']))
        elif n['t'] == 'return':
            out.append(ret_(n['code']))
        elif n['t'] == 'while':
            counters['p'] += 1
            p = counters['p']
            out.append({'t': 'while', 'pred': p, 'body': _number(n['body'], counters)})
        else:
            conds = []
            for c in n['conds']:
                if c.get('else'):
                    p = 0
                else:
                    counters['p'] += 1
                    p = counters['p']
                conds.append({'pred': p, 'body': _number(c['body'], counters)})
            out.append({'t': 'if', 'conds': conds})
    return out


def _steps(body):
    for n in body:
        if n['t'] == 'step':
            yield n
        elif n['t'] == 'while':
            yield from _steps(n['body'])
        elif n['t'] == 'if':
            for c in n['conds']:
                yield from _steps(c['body'])


def family(max_size, depth, rets=('v0', 'v5', 'ctx', 'False'), awaitables=True):
    """every outline with <= max_size nodes nested <= depth; for each structure: all steps returning None, and each
    single step in turn returning each special value."""
    out = []
    seen = set()
    for size in range(1, max_size + 1):
        for shape in _blocks(size, depth):
            body = _number(shape, {'s': 0, 'p': 0})
            key = tlaval.emit(body)
            if key in seen:
                continue
            seen.add(key)
            variants = [body]
            nsteps = len(list(_steps(body)))
            for i in range(nsteps):
                import copy
                # ... and each single step registering something to wait for: by calling to_context (whatever it then
                # returns) or in the ToContext it returns
                for r, aw in [(r, 'none') for r in rets] + ([(r, 'call') for r in ('none',) + tuple(rets)] + [('ctx', 'ret')] if awaitables else []):
                    b = copy.deepcopy(body)
                    list(_steps(b))[i]['ret'] = r
                    list(_steps(b))[i]['aw'] = aw
                    variants.append(b)
            for b in variants:
                out.append({'single': False, 'body': b})
                if len(b) == 1:
                    out.append({'single': True, 'body': b})
    return out


def oracles(p):
    return [list(bits) for bits in itertools.product([True, False], repeat=p)]


def sample(lst, n, seed):
    if len(lst) <= n:
        return lst
    rnd = random.Random(seed)
    idx = sorted(rnd.sample(range(len(lst)), n))
    return [lst[i] for i in idx]


def mc_module(name, outlines, oracle_list, crash_sets=((),), cfg_extra='', lag=0, reloads=0):
    tla = '---- MODULE %s ----\nEXTENDS Outline, Json\n' % name
    tla += 'MCLag == %d\nMCReloads == %d\n' % (lag, reloads)
    tla += 'MCOutlines == %s\n' % tlaval.emit(outlines)
    tla += 'MCOracles == %s\n' % tlaval.emit(oracle_list)
    tla += 'MCCrashSets == <<%s>>\n' % ', '.join('{' + ', '.join(str(i) for i in sorted(c)) + '}' for c in crash_sets)
    tla += 'Report == W.done => PrintT(ToJson(<<"R", W.oi, W.ri, W.ci, W.units, W.result, W.restores, W.waits>>))\n'
    tla += '====\n'
    cfg = 'SPECIFICATION Spec\nCHECK_DEADLOCK FALSE\nCONSTANTS\n Outlines <- MCOutlines\n Oracles <- MCOracles\n CrashSets <- MCCrashSets\n Lag <- MCLag\n Reloads <- MCReloads\n'
    cfg += cfg_extra
    return tla, cfg
