"""The implementation side of the Adapters binding (property C20).

`Run(scenario)` builds, for one scenario of spec/Adapters.tla, the real objects: asyncio / kiwipy futures for the chain the
environment resolves, and the adapter under test called exactly as plumpy's callers call it:

  CT    plumpy.futures.create_task(coro, loop)
  P2K   plumpy.communications.plum_to_kiwi_future(g1)
  UNW   plumpy.futures.unwrap_kiwi_future(h1)
  COMP  unwrap_kiwi_future(plum_to_kiwi_future(g1))
  CONV  LoopCommunicator(comm, loop).add_rpc_subscriber(coro) -> the converted subscriber called by `comm`
        (= convert_to_comm = plum_to_kiwi_future(create_task(...))), then unwrap_kiwi_future on the reply
  RPC   a real plumpy.Process instance: process._schedule_rpc(callback)
  ACT   plumpy.futures.CancellableAction(fn): run() / cancel(); scenario dimension wd: fn cancels the very action that is
        executing it (what Process.play() does when a hook of the transition a pause action performs calls it)

Scenario dimension cl (CT, CONV, RPC, BCF): the adapter is called as the communicator thread calls it - while the CURRENT
event loop of the caller is another loop (`Run.other`, never run) than the loop the adapter is told to schedule on.  What the
process side makes (chain futures, the LoopCommunicator, the process) is made under the target loop, before.

It performs the specification's actions one by one on the single-stepping loop (one RunHandle = one real loop handle, whose
kind must be the kind at the head of the specification's ready queue) and projects the real objects onto the specification's
variables.  `ProcRun` drives `_schedule_rpc` through Process.message_receive on a process that is in the middle of a step
(direction V: the observed trace is validated against the TLC state graph).

No plumpy source is changed; nothing private of plumpy is read (plumpy.futures.create_task is wrapped, harness-side only,
while a CONV scenario is built, to learn the task future that convert_to_comm keeps to itself).
"""
import asyncio
import concurrent.futures
import logging
import warnings

import kiwipy
import plumpy
from plumpy import communications, futures as pfutures, process_comms

from . import vloop

warnings.filterwarnings('ignore', category=RuntimeWarning, message='coroutine .* was never awaited')

RET_VAL = 7
RAISE_EX = 8
ISE = 90
ISEP = 91


class ALoop(vloop.VLoop):
    """VLoop whose create_future() hands out asyncio.Future, as every production loop does
    (plum_to_kiwi_future recognises nested futures by isinstance(result, asyncio.Future))."""

    def create_future(self):
        return asyncio.Future(loop=self)


class Injected(Exception):
    def __init__(self, n):
        super().__init__('injected-%d' % n)
        self.n = n


def exc_tag(e, depth=0):
    """exception -> the specification's number (or a descriptive string that matches nothing)"""
    if e is None:
        return 0
    if isinstance(e, Injected):
        return e.n
    if isinstance(e, pfutures.InvalidStateError):
        return ISEP
    if isinstance(e, (asyncio.InvalidStateError, concurrent.futures.InvalidStateError)):
        return ISE
    # _schedule_rpc re-raises what the callback raised as RuntimeError(...) from exc: the innermost outcome is the cause
    if type(e) is RuntimeError and str(e).startswith('Error invoking callback') and e.__cause__ is not None and depth == 0:
        return exc_tag(e.__cause__, 1)
    return '%s.%s' % (type(e).__module__, type(e).__name__)


# ---- exceptions swallowed by concurrent.futures' callback runner ----------------------------------------
class _KlogHandler(logging.Handler):
    sink = None

    def emit(self, record):
        if _KlogHandler.sink is not None:
            e = record.exc_info[1] if record.exc_info else None
            _KlogHandler.sink.append(exc_tag(e) if e is not None else record.getMessage())


_cf_logger = logging.getLogger('concurrent.futures')
if not any(isinstance(h, _KlogHandler) for h in _cf_logger.handlers):
    _cf_logger.addHandler(_KlogHandler())
    _cf_logger.propagate = False


def quiet():
    """Nothing is printed by the libraries' loggers, but records still reach the handler above
    (logging.disable() would hide the callback errors the comparison needs)."""
    logging.disable(logging.NOTSET)
    root = logging.getLogger()
    if not any(isinstance(h, logging.NullHandler) for h in root.handlers):
        root.addHandler(logging.NullHandler())
    _cf_logger.setLevel(logging.ERROR)


class FakeCommunicator(kiwipy.Communicator):
    """The communicator underneath a LoopCommunicator: keeps the converted subscribers so that the harness can deliver."""

    def __init__(self):
        self.rpc = {}
        self.bc = {}

    def add_rpc_subscriber(self, subscriber, identifier=None):
        self.rpc[identifier] = subscriber
        return identifier

    def remove_rpc_subscriber(self, identifier):
        self.rpc.pop(identifier)

    def add_task_subscriber(self, subscriber, identifier=None):
        raise NotImplementedError

    def remove_task_subscriber(self, identifier):
        raise NotImplementedError

    def add_broadcast_subscriber(self, subscriber, identifier=None):
        self.bc[identifier] = subscriber
        return identifier

    def remove_broadcast_subscriber(self, identifier):
        self.bc.pop(identifier)

    def task_send(self, task, no_reply=False):
        raise NotImplementedError

    def rpc_send(self, recipient_id, msg):
        raise NotImplementedError

    def broadcast_send(self, body, sender=None, subject=None, correlation_id=None):
        raise NotImplementedError

    def is_closed(self):
        return False

    def close(self):
        pass


class IdleProcess(plumpy.Process):
    """The process whose _schedule_rpc is called directly; it is never started."""

    def run(self):
        return None


# ---- classification of real loop handles ------------------------------------------------------------------
def handle_kind(h):
    cb = h._callback
    q = getattr(cb, '__qualname__', '') or ''
    owner = vloop.owner_of(h)
    if owner is not None:
        n = getattr(cb, '__name__', '')
        if n.endswith('__step'):
            return 'step'
        if n.endswith('__wakeup'):
            return 'wakeup'
        if n == 'cancel':
            return 'tcancel'
        return 'task:' + n
    if q == 'run_coroutine_threadsafe.<locals>.callback':
        return 'thunk'
    if q == '_chain_future.<locals>._call_set_state':
        return 'chain'
    if q == 'plum_to_kiwi_future.<locals>.on_done':
        return 'p2k'
    if q.endswith('Run._observer'):
        return 'obs'
    return 'other:' + (q or repr(cb))


def fut_state(f):
    """real future -> (st, value|exception|None); marks exceptions as retrieved"""
    if f.cancelled():
        return 'cancelled', None
    if not f.done():
        return 'pending', None
    e = f.exception()
    if e is not None:
        return 'exception', e
    return 'result', f.result()


def is_future(x):
    return isinstance(x, concurrent.futures.Future) or asyncio.isfuture(x)


class Run:
    """One execution of the real adapters for one scenario, driven action by action."""

    def __init__(self, scn):
        self.scn = scn
        quiet()
        self.loop = ALoop()
        self.other = ALoop() if scn.get('cl') else None      # the caller's own current loop
        asyncio.set_event_loop(self.loop)
        self.calls = 0
        self.notes = 0
        self.hist = []
        self.klog = []
        _KlogHandler.sink = self.klog
        self.bind = {}            # specification future number -> real future
        fam, kind, d = scn['fam'], scn['kind'], scn['d']
        loop = self.loop
        if fam == 'UNW':
            src = [kiwipy.Future() for _ in range(d)]
        elif fam == 'RPC':
            src = [pfutures.CancellableAction(lambda: None) for _ in range(d)]      # what pause()/kill() hand back
        else:
            src = [asyncio.Future(loop=loop) for _ in range(d)]
        self.src = src
        for i, f in enumerate(src):
            self.bind[i + 1] = f
        n = d

        if fam == 'CT':
            self._as_caller()
            self.bind[n + 1] = pfutures.create_task(self._coro_fn(kind), loop)
            self.out = n + 1
        elif fam == 'P2K':
            self.bind[n + 1] = communications.plum_to_kiwi_future(src[0])
            self.out = n + 1
        elif fam == 'UNW':
            self.bind[n + 1] = pfutures.unwrap_kiwi_future(src[0])
            self.out = n + 1
        elif fam == 'COMP':
            self.bind[n + 1] = communications.plum_to_kiwi_future(src[0])
            self.bind[n + 2] = pfutures.unwrap_kiwi_future(self.bind[n + 1])
            self.out = n + 2
        elif fam == 'CONV':
            fake = FakeCommunicator()
            comm = communications.LoopCommunicator(fake, loop)
            coro_fn = self._coro_fn(kind)

            async def subscriber(_comm, _msg):
                return await coro_fn()
            comm.add_rpc_subscriber(subscriber, 'target')
            made = []
            orig = pfutures.create_task

            def spy(*a, **k):
                f = orig(*a, **k)
                made.append(f)
                return f
            pfutures.create_task = spy
            self._as_caller()
            try:
                reply = fake.rpc['target'](fake, {'msg': 1})
            finally:
                pfutures.create_task = orig
            if len(made) == 1:
                self.bind[n + 1] = made[0]
            self.bind[n + 2] = reply
            self.bind[n + 3] = pfutures.unwrap_kiwi_future(reply)
            self.out = n + 3
        elif fam == 'BCF':
            fake = FakeCommunicator()
            comm = communications.LoopCommunicator(fake, loop)
            def listener(_comm, body, sender, subject, correlation_id):      # (as Process.broadcast_receive: not a coroutine)
                self.calls += 1
                if kind == 'raise':
                    raise Injected(RAISE_EX)
                return RET_VAL
            comm.add_broadcast_subscriber(kiwipy.BroadcastFilter(listener, subject='wanted'), 'target')
            made = []
            orig = pfutures.create_task

            def spy(*a, **k):
                f = orig(*a, **k)
                made.append(f)
                return f
            pfutures.create_task = spy
            subject = 'unwanted' if scn.get('flt') else 'wanted'
            self._as_caller()
            try:
                if scn.get('kw'):        # how kiwipy.LocalCommunicator delivers a broadcast
                    reply = fake.bc['target'](fake, body={'msg': 1}, sender='env', subject=subject, correlation_id=None)
                else:                    # ... and how the RabbitMQ communicator does
                    reply = fake.bc['target'](fake, {'msg': 1}, 'env', subject, None)
            except Exception as e:  # noqa  (the converted subscriber itself failed: shown as the outcome of its reply)
                reply = kiwipy.Future()
                reply.set_exception(e)
            finally:
                pfutures.create_task = orig
            if scn.get('flt'):
                self.bind[n + 1] = reply
                self.out = n + 1
            else:
                if len(made) == 1:
                    self.bind[n + 1] = made[0]
                self.bind[n + 2] = reply
                self.out = n + 2
        elif fam == 'RPC':
            self.proc = IdleProcess(loop=loop)
            self._as_caller()
            self.bind[n + 1] = self.proc._schedule_rpc(self._callback_fn(kind))
            self.out = n + 1
        elif fam == 'ACT':
            def fn():
                self.calls += 1
                if scn.get('wd'):
                    self.bind[1].cancel()        # user code the function calls withdraws the request being carried out
                if kind == 'raise':
                    raise Injected(RAISE_EX)
                return RET_VAL
            a = pfutures.CancellableAction(fn)
            a.add_done_callback(self._observer)
            self.bind[1] = a
            self.out = 1
        else:
            raise AssertionError(fam)

    def _as_caller(self):
        """from here on the harness is the caller of the adapter: with cl, a thread whose current event loop is its own"""
        if self.other is not None:
            asyncio.set_event_loop(self.other)

    # ---- user code handed to the adapters ---------------------------------------------------------------
    def _observer(self, _fut):
        self.notes += 1

    def _coro_fn(self, kind):
        async def coro():
            self.calls += 1
            if kind == 'ret':
                return RET_VAL
            if kind == 'raise':
                raise Injected(RAISE_EX)
            return await self.src[0]
        return coro

    def _callback_fn(self, kind):
        def callback():
            self.calls += 1
            if kind == 'ret':
                return RET_VAL
            if kind == 'raise':
                raise Injected(RAISE_EX)
            return self.src[0]
        return callback

    # ---- actions -------------------------------------------------------------------------------------------
    def perform(self, name, params, want_head=None):
        """Perform one specification action; returns an error string or None."""
        if name == 'RunHandle':
            h = self.loop.peek()
            got = None if h is None else handle_kind(h)
            if want_head is not None and got != want_head:
                return 'specification runs a %r handle, the loop has %r' % (want_head, got)
            if h is None:
                return 'RunHandle on an idle loop'
            self.loop.step_one()
            return None
        if name == 'EnvValue':
            self.src[params[0] - 1].set_result(params[0])
        elif name == 'EnvNest':
            self.src[params[0] - 1].set_result(self.src[params[0]])
        elif name == 'EnvFail':
            self.src[params[0] - 1].set_exception(Injected(params[0]))
        elif name == 'EnvCancel':
            self.src[params[0] - 1].cancel()
        elif name == 'EnvCancelOut':
            self.bind[self.out].cancel()
        elif name == 'EnvRun':
            try:
                self.bind[1].run()
                ret = 'ok'
            except Exception as e:  # noqa
                t = exc_tag(e)
                ret = {ISEP: 'ISEP', ISE: 'ISE'}.get(t, str(t))
            self.hist.append({'op': 'run', 'ret': ret})
        elif name == 'EnvCancelAct':
            self.hist.append({'op': 'cancel', 'ret': str(self.bind[1].cancel())})
        else:
            raise AssertionError(name)
        return None

    # ---- observation --------------------------------------------------------------------------------------
    def ready_kinds(self):
        return [handle_kind(h) for h in self.loop.ready if not h._cancelled]

    def foreign_kinds(self):
        """what has been scheduled on the caller's own loop (timers included)"""
        if self.other is None:
            return []
        return [handle_kind(h) for h in self.other.ready if not h._cancelled] + \
               ['timer:' + handle_kind(h) for _, _, h in sorted(self.other.timers, key=lambda x: x[:2]) if not h._cancelled]

    def loop_name(self, f):
        """asyncio future -> the specification's name of the loop it is bound to (public get_loop())"""
        lp = f.get_loop()
        return 'target' if lp is self.loop else 'caller' if lp is self.other else repr(lp)

    def task_states(self):
        out = []
        for t in self.loop.tasks:
            st, v = fut_state(t)
            out.append([st, exc_tag(v) if st == 'exception' else 0])
        return out

    def errors(self):
        return [exc_tag(c.get('exception')) if c.get('exception') is not None else c.get('message') for c in self.loop.errors]

    def compare(self, state):
        """The real objects against one state of the specification -> list of (field, specification, implementation)."""
        diffs = []
        mf = state['futs']
        # futures reachable from the bound ones (mirrors made inside on_done are found through the result that refers to them)
        for _ in range(len(mf) + 1):
            grew = False
            for i, m in enumerate(mf, 1):
                real = self.bind.get(i)
                if real is None:
                    continue
                if m['kind'] == 'loop' and asyncio.isfuture(real) and self.loop_name(real) != m['lp']:
                    diffs.append(('futs[%d:%s].get_loop()' % (i, m['role']), m['lp'], self.loop_name(real)))
                    continue
                st, v = fut_state(real)
                if st != m['st']:
                    diffs.append(('futs[%d:%s].st' % (i, m['role']), m['st'], st))
                    continue
                mv = m['val']
                if st == 'exception':
                    if exc_tag(v) != mv['n']:
                        diffs.append(('futs[%d:%s].exception' % (i, m['role']), mv['n'], exc_tag(v)))
                elif st == 'result':
                    if mv['t'] == 'fut':
                        if not is_future(v):
                            diffs.append(('futs[%d:%s].result' % (i, m['role']), 'future %d' % mv['n'], repr(v)))
                        elif mv['n'] in self.bind:
                            if self.bind[mv['n']] is not v:
                                diffs.append(('futs[%d:%s].result' % (i, m['role']), 'future %d' % mv['n'], 'another future'))
                        else:
                            want_kiwi = mf[mv['n'] - 1]['kind'] == 'kiwi'
                            if isinstance(v, concurrent.futures.Future) != want_kiwi:
                                diffs.append(('futs[%d:%s].result' % (i, m['role']), mf[mv['n'] - 1]['kind'], type(v).__name__))
                            else:
                                self.bind[mv['n']] = v
                                grew = True
                    elif mv['t'] == 'none':
                        if v is not None:
                            diffs.append(('futs[%d:%s].result' % (i, m['role']), None, repr(v)))
                    else:
                        if is_future(v) or isinstance(v, bool) or v != mv['n']:
                            diffs.append(('futs[%d:%s].result' % (i, m['role']), mv['n'], repr(v)))
            if diffs or not grew:
                break
            diffs = []
        want_ready = [h['op'] for h in state['ready']]
        if want_ready != self.ready_kinds():
            diffs.append(('ready', want_ready, self.ready_kinds()))
        want_foreign = [h['op'] for h in state['foreign']]
        if want_foreign != self.foreign_kinds():
            diffs.append(('handles on the caller\'s own loop', want_foreign, self.foreign_kinds()))
        want_tasks = [[t['st'], t['exc']] for t in state['tasks'] if t['pc'] != 'unborn']
        if want_tasks != self.task_states():
            diffs.append(('tasks', want_tasks, self.task_states()))
        if list(state['errs']) != self.errors():
            diffs.append(('loop.errors', list(state['errs']), self.errors()))
        if list(state['klog']) != self.klog:
            diffs.append(('concurrent.futures callback errors', list(state['klog']), list(self.klog)))
        if state['calls'] != self.calls:
            diffs.append(('calls', state['calls'], self.calls))
        if state['notes'] != self.notes:
            diffs.append(('notes', state['notes'], self.notes))
        if [dict(h) for h in state['hist']] != self.hist:
            diffs.append(('hist', [dict(h) for h in state['hist']], self.hist))
        return diffs

    def projection(self):
        """Human-readable view (used by --replay)."""
        futs = {}
        for i, f in sorted(self.bind.items()):
            st, v = fut_state(f)
            futs[i] = (st, exc_tag(v) if st == 'exception' else ('<future>' if is_future(v) else v))
        return {'futs': futs, 'ready': self.ready_kinds(), 'caller_loop': self.foreign_kinds(), 'tasks': self.task_states(), 'loop.errors': self.errors(),
                'cf_callback_errors': list(self.klog), 'calls': self.calls, 'notes': self.notes, 'hist': self.hist}


def split_action(label):
    """'EnvValue(1)' -> ('EnvValue', [1])"""
    if '(' not in label:
        return label, []
    name, rest = label.split('(', 1)
    return name, [int(x) for x in rest[:-1].split(',') if x.strip()]


def replay_path(nodes, init, path):
    """Replay one behaviour of the TLC state graph on the real adapters; None, or the first divergence."""
    st0 = nodes[init]
    run = Run(st0['sc'])
    d = run.compare(st0)
    if d:
        return {'at': 0, 'action': 'Init', 'diffs': d}
    prev = st0
    for i, (action, nid) in enumerate(path):
        st = nodes[nid]
        name, params = split_action(action)
        want = prev['ready'][0]['op'] if name == 'RunHandle' else None
        err = run.perform(name, params, want)
        if err:
            return {'at': i + 1, 'action': action, 'diffs': [('handle', err, None)]}
        d = run.compare(st)
        if d:
            return {'at': i + 1, 'action': action, 'diffs': d}
        prev = st
    return None


def replay_actions(scn, actions, states=None, verbose=False):
    """Replay a list of action labels (a TLC counterexample, a recorded divergence) -> (divergence|None, projections)."""
    run = Run(scn)
    proj = [run.projection()]
    prev = states[0] if states else None
    if prev is not None:
        d = run.compare(prev)
        if d:
            return {'at': 0, 'action': 'Init', 'diffs': d}, proj
    for i, action in enumerate(actions):
        name, params = split_action(action)
        want = prev['ready'][0]['op'] if (name == 'RunHandle' and prev is not None) else None
        err = run.perform(name, params, want)
        proj.append(run.projection())
        if verbose:
            print(action, '->', proj[-1])
        if err:
            return {'at': i + 1, 'action': action, 'diffs': [('handle', err, None)]}, proj
        if states:
            prev = states[i + 1]
            d = run.compare(prev)
            if d:
                return {'at': i + 1, 'action': action, 'diffs': d}, proj
    return None, proj


# ==========================================================================================================
# direction V: _schedule_rpc reached through Process.message_receive on a process that is in the middle of a step
# ==========================================================================================================
class GateProcess(plumpy.Process):
    """run() waits for a future the harness resolves: until then the process is `stepping`, so that pause()/kill()
    hand back a CancellableAction that is run at the end of the step - or cancelled by play()/kill()."""
    _v = None

    async def run(self):
        self._v['reached'] = True
        await self._v['gate']
        return None

    def on_pausing(self, msg=None):
        super().on_pausing(msg)
        if self._v['pause_raises']:
            raise Injected(self._v['pause_raises'])

    def pause(self, *a, **k):
        self._v['returned'].append(('pause', 'raised'))
        r = super().pause(*a, **k)
        self._v['returned'][-1] = ('pause', r)
        return r

    def play(self, *a, **k):
        self._v['returned'].append(('play', 'raised'))
        r = super().play(*a, **k)
        self._v['returned'][-1] = ('play', r)
        return r

    def kill(self, *a, **k):
        self._v['returned'].append(('kill', 'raised'))
        r = super().kill(*a, **k)
        self._v['returned'][-1] = ('kill', r)
        return r


INTENTS = {'PAUSE': process_comms.Intent.PAUSE, 'PLAY': process_comms.Intent.PLAY, 'KILL': process_comms.Intent.KILL}


class ProcRun:
    """script: list of ops; ('rpc', INTENT) is the observed control message (exactly one), ('call', name) a direct control
    call, ('gate',) lets the step finish, ('start',) starts the process and runs it up to the gate (only before the
    message), ('launch',) only creates the stepping task.
    schedule: how many loop handles run before each op; afterwards the loop is drained.
    The observed trace is a list of (specification action | None, projection)."""

    def __init__(self, script, pause_raises=0):
        quiet()
        self.loop = ALoop()
        asyncio.set_event_loop(self.loop)
        self.klog = []
        _KlogHandler.sink = self.klog
        self.v = {'reached': False, 'gate': asyncio.Future(loop=self.loop), 'pause_raises': pause_raises, 'returned': []}
        self.proc = GateProcess()
        self.proc._v = self.v
        self.script = script
        self.reply = None
        self.rpc_task = None
        self.rpc_ret = None       # what the observed callback returned
        self.rpc_seen = False
        self.action = None        # the action future the reply loop awaits
        self.last_action_st = 'pending'
        self.direct = 0
        self.trace = []
        self.main = None

    def _rpc_handle_kind(self, h):
        k = handle_kind(h)
        if k == 'thunk' or k == 'chain':
            return k
        owner = vloop.owner_of(h)
        if owner is not None and owner is self.rpc_task:
            return k
        return None

    def rpc_ready(self):
        out = []
        for h in self.loop.ready:
            if h._cancelled:
                continue
            k = self._rpc_handle_kind(h)
            if k is not None:
                out.append(k)
        return out

    def _observe(self, action):
        """after an environment step (a direct call, the gate, a handle of the process itself): did the awaited action
        future get its outcome?  -> the specification's environment action"""
        if self.reply is None:
            return            # nothing is observed before the control message exists
        label = action
        if self.action is not None and self.last_action_st == 'pending':
            st, _ = fut_state(self.action)
            if st != 'pending':
                self.last_action_st = st
                label = {'result': 'EnvValue(1)', 'exception': 'EnvFail(1)', 'cancelled': 'EnvCancel(1)'}[st]
        self.trace.append((label, self.projection()))

    def projection(self):
        p = {'reply': None, 'action': None, 'task': None, 'ready': self.rpc_ready(),
             'errors': [exc_tag(c.get('exception')) if c.get('exception') is not None else c.get('message') for c in self.loop.errors],
             'klog': list(self.klog), 'rpc_ret': self.rpc_ret}
        if self.reply is not None:
            st, v = fut_state(self.reply)
            p['reply'] = [st, exc_tag(v) if st == 'exception' else ('<future>' if is_future(v) else v)]
        if self.action is not None:
            st, v = fut_state(self.action)
            p['action'] = [st, exc_tag(v) if st == 'exception' else ('<future>' if is_future(v) else v)]
        if self.rpc_task is not None:
            st, v = fut_state(self.rpc_task)
            p['task'] = [st, exc_tag(v) if st == 'exception' else 0]
        p['calls'] = 1 if self.rpc_seen else 0
        return p

    def step(self):
        """run one loop handle; returns False on an idle loop"""
        h = self.loop.peek()
        if h is None:
            return False
        kind = self._rpc_handle_kind(h)
        ntasks = len(self.loop.tasks)
        nret = len(self.v['returned'])
        self.loop.step_one()
        if kind == 'thunk' and len(self.loop.tasks) == ntasks + 1:
            self.rpc_task = self.loop.tasks[-1]
        if kind is not None:
            if kind == 'step' and len(self.v['returned']) > nret:
                self.rpc_seen = True
                r = self.v['returned'][-1][1]
                self.rpc_ret = 'action' if asyncio.isfuture(r) else repr(r)
                if asyncio.isfuture(r):
                    self.action = r
                    self.last_action_st = fut_state(r)[0]
            self.trace.append(('RunHandle', self.projection()))
        else:
            self._observe(None)
        return True

    def execute(self, schedule):
        for op, n in zip(self.script, schedule):
            for _ in range(n):
                if not self.step():
                    break
            kind = op[0]
            if kind == 'launch':
                self.main = self.loop.create_task(self.proc.step_until_terminated())
            elif kind == 'start':
                assert self.reply is None
                self.main = self.loop.create_task(self.proc.step_until_terminated())
                guard = 0
                while not self.v['reached'] and self.loop.step_one():      # up to the gate: before anything is observed
                    guard += 1
                    assert guard < 100
            elif kind == 'rpc':
                assert self.reply is None
                self.reply = self.proc.message_receive(None, {process_comms.INTENT_KEY: INTENTS[op[1]]})
                self.trace.append(('Init', self.projection()))
            elif kind == 'call':
                self.direct += 1
                try:
                    getattr(self.proc, op[1])()
                except Injected:
                    pass
                self._observe(None)
            elif kind == 'gate':
                if not self.v['gate'].done():
                    self.v['gate'].set_result(None)
                self._observe(None)
            else:
                raise AssertionError(op)
        guard = 0
        while self.step():
            guard += 1
            assert guard < 1000
        return self.trace
