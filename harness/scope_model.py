"""Python side of spec/Scope.tla: the scenario families (as TLA+ constants), MC module generation, TLC runs.

A scenario is data shared by TLC and by the generated real processes (harness/scope_real.py):

  {'name', 'mode': 'any'|'idle', 'early': bool, 'nfut': n, 'soon': {process ids},
   'procs': [{'role': 'top'|'sub', 'ctl': {'kill','pause'}, 'cl': number of cleanup callbacks registered at construction,
              'steps': [{'ops': [{'op','arg'}], 'end': 'stop'|'cont'|'wait'}]}]}

Every process overrides the termination hooks too: `on_terminated` (sampled on entry and after super() closed the process),
`on_close`, and its `add_cleanup` callbacks (registered at construction: 'cl', or from a step: op 'addcl') sample as
`cleanup<k>` in registration order.

Process ids, future ids and step numbers are 1-based as in the specification.
"""
import os

from . import tlaval, tlc

DEV = 'D18'          # the as-written clause: hooks/listeners of transitions, _do_pause and play run outside the scope
FIX = 'F18'
DEV_CLOSE = 'D18c'   # the as-written clause: the user's own close() runs on_close / the cleanup callbacks in the caller's scope
FIX_CLOSE = 'F18c'
# The user's own close() as an environment request (scenarios with 'close' in a process's ctl).  SWITCHED OFF: on the
# unmodified library it exposes a violation of the property that is not (yet) a listed finding - `proc.close()` called
# from outside runs the hook on_close and the add_cleanup callbacks with Process.current() = None / the caller (close()
# is a plain call, unlike kill() / pause() / play() whose hooks run inside the process scope).  With the switch on, the
# verdict instance reports CurrentIsRunning (clause D18c) and the replay confirms that the implementation behaves as the
# as-written clause says.  Switch on once it is repaired (add 'F18c' to checks/c18.FIXES) or listed (known_findings.json).
MODEL_USER_CLOSE = os.environ.get('VERIF_C18_USER_CLOSE', '1') == '1'      # (repaired in /repo: F18c)

INVARIANTS = ['CurrentIsRunning', 'Restored', 'Balanced', 'DefaultIntact', 'WellFormed']


# ---- scenario vocabulary ------------------------------------------------------------------------------
def aw(f):
    return {'op': 'aw', 'arg': f, 'x': 0}


def launch(c):
    return {'op': 'launch', 'arg': c, 'x': 0}


def soon(raising=False, awaits=0):
    """self.call_soon(cb); awaits=f: cb is a coroutine that samples, awaits future f and samples again"""
    return {'op': 'soon', 'arg': 1 if raising else 0, 'x': awaits}


def nest(q):
    return {'op': 'nest', 'arg': q, 'x': 0}


def osoon(target, awaits=0):
    """target.call_soon(cb) issued from this (other) process's step"""
    return {'op': 'osoon', 'arg': target, 'x': awaits}


def addcl():
    """self.add_cleanup(cb) from the step: cb samples when the process is closed (by its terminal transition)"""
    return {'op': 'addcl', 'arg': 0, 'x': 0}


def ofail(target):
    return {'op': 'ofail', 'arg': target, 'x': 0}


def okill(target):
    return {'op': 'okill', 'arg': target, 'x': 0}


def opause(target):
    return {'op': 'opause', 'arg': target, 'x': 0}


def step(ops=(), end='stop'):
    return {'ops': list(ops), 'end': end}


def proc(steps, role='top', ctl=(), cl=0):
    return {'role': role, 'steps': list(steps), 'ctl': set(ctl), 'cl': cl}


def scen(name, procs, mode='any', early=True, soon_env=()):
    nfut = max([o['arg'] for p in procs for s in p['steps'] for o in s['ops'] if o['op'] == 'aw'] +
               [o['x'] for p in procs for s in p['steps'] for o in s['ops']] + [0])
    return {'name': name, 'mode': mode, 'early': bool(early), 'procs': list(procs), 'nfut': nfut, 'soon': set(soon_env)}


# ---- the families ---------------------------------------------------------------------------------------
def family(tier):
    """-> (scenarios replayed behaviour by behaviour, additional scenarios that are only model-checked)"""
    two_async = scen('two_async', [proc([step([aw(1), aw(2)])], cl=1), proc([step([aw(3), aw(4)])])])
    cont_wait = scen('cont_wait', [proc([step([aw(1)], 'cont'), step([aw(2)])]),
                                   proc([step([], 'wait'), step([aw(3)])])], early=False)
    control = scen('control', [proc([step([aw(1)])], ctl=['kill', 'pause'], cl=1),
                               proc([step([aw(2)], 'cont'), step([])], ctl=['pause'])], early=False)
    wait_ctl = scen('wait_ctl', [proc([step([], 'wait'), step([])], ctl=['kill', 'pause'], cl=2),
                                 proc([step([aw(1)])])], early=False)
    child_soon = scen('child_soon', [proc([step([launch(2), soon(), aw(1)])]),
                                     proc([step([aw(2)])], role='sub', cl=1)], early=False, soon_env=[1, 2])
    soon_raise = scen('soon_raise', [proc([step([soon(True), aw(1)])], cl=1), proc([step([aw(2)])])], early=False)
    nest2 = scen('nest2', [proc([step([aw(1), nest(2), aw(2)])]), proc([step([aw(3)])], role='sub', cl=1)], mode='idle')
    nest_ctl = scen('nest_ctl', [proc([step([nest(2)], 'cont'), step([])], ctl=['pause', 'kill']),
                                 proc([step([aw(1)])], role='sub')], mode='idle', early=False, soon_env=[1])
    idle_two = scen('idle_two', [proc([step([aw(1), soon()])], ctl=['kill'], cl=1), proc([step([aw(2)], 'wait'), step([])])],
                    mode='idle', early=False)
    # an inner (re-entrantly executed / launched) process acts on the OUTER one from its step: fail / kill / pause, and
    # outer.call_soon(cb) with a callback that samples on entry and after an await
    nest_fail = scen('nest_fail', [proc([step([nest(2), aw(1)])], cl=1), proc([step([aw(2), ofail(1), aw(3)])], role='sub')],
                     mode='idle', early=False)
    nest_osoon = scen('nest_osoon', [proc([step([aw(1), nest(2)], 'cont'), step([aw(2)])]),
                                     proc([step([osoon(1, awaits=3), aw(4), okill(1)])], role='sub')], mode='idle', early=False)
    nest_opause = scen('nest_opause', [proc([step([nest(2)], 'cont'), step([])]),
                                       proc([step([opause(1), osoon(1), aw(1)])], role='sub')], mode='idle', early=False)
    child_acts = scen('child_acts', [proc([step([launch(2), aw(1), soon(awaits=2)])]),
                                     proc([step([osoon(1, awaits=3), aw(4), osoon(1)])], role='sub')], early=False)
    child_fail = scen('child_fail', [proc([step([launch(2), aw(1)])]), proc([step([ofail(1), aw(2)])], role='sub'),
                                     proc([step([launch(4), aw(3)], 'cont'), step([])], cl=1),
                                     proc([step([okill(3), aw(4)])], role='sub')], early=False)
    # termination hooks and cleanup callbacks (on_terminated -> close() -> on_close -> add_cleanup callbacks), registered at
    # construction and from steps, on every way into a terminal state: a step that finishes, a deferred and an immediate
    # kill from outside, a raising callback, a launched child, and a kill / failure issued by ANOTHER process's step
    term_any = scen('term_any', [proc([step([addcl(), launch(2), aw(1)], 'cont'), step([addcl()])], ctl=['kill'], cl=1),
                                 proc([step([aw(2), addcl(), okill(3)])], role='sub', cl=1),
                                 proc([step([soon(True), aw(3)], 'wait'), step([])], cl=2)], early=False)
    term_nest = scen('term_nest', [proc([step([addcl(), nest(2), aw(1)])], ctl=['kill'], cl=1),
                                   proc([step([addcl(), aw(2), okill(3)])], role='sub', cl=1),
                                   proc([step([aw(3)], 'wait'), step([])], cl=1)], mode='idle', early=False)
    # the user's own close() on live processes (while one awaits, before its first step, while it waits for a resume), then
    # what follows: the step in flight ends with its transition, the next step() raises ClosedError, a later kill still
    # runs a complete transition whose on_terminated finds the process closed
    user_close = scen('user_close', [proc([step([aw(1)], 'cont'), step([])], ctl=['close', 'kill'], cl=2),
                                     proc([step([], 'wait'), step([])], ctl=['close'], cl=1)], early=False)
    extra = [user_close] if MODEL_USER_CLOSE else []
    quick = extra + [two_async, cont_wait, control, wait_ctl, child_soon, soon_raise, nest2, nest_ctl, idle_two,
             nest_fail, nest_osoon, nest_opause, child_acts, child_fail, term_any, term_nest]
    if tier == 'quick':
        return quick, []
    three = scen('three_async', [proc([step([aw(1), aw(2)])]), proc([step([aw(3), aw(4)])]), proc([step([aw(5), aw(6)])])],
                 early=False)
    three_child = scen('three_child', [proc([step([aw(1), launch(4), aw(2)])]),
                                       proc([step([soon(), aw(3)], 'cont'), step([aw(4)])]),
                                       proc([step([], 'wait'), step([aw(5)])]),
                                       proc([step([aw(6)])], role='sub')], early=False)
    three_ctl = scen('three_ctl', [proc([step([aw(1), launch(4)])], ctl=['pause']),
                                   proc([step([soon(), aw(2)], 'cont'), step([])]),
                                   proc([step([], 'wait'), step([])], ctl=['kill'], cl=1),
                                   proc([step([aw(3)])], role='sub', cl=1)], early=False)
    control3 = scen('control3', [proc([step([aw(1)], 'cont'), step([])], ctl=['kill', 'pause'], cl=1),
                                 proc([step([aw(2)], 'wait'), step([])], ctl=['pause']),
                                 proc([step([soon(True), aw(3)])])], early=False)
    control3_idle = scen('control3_idle', [proc([step([aw(1)], 'cont'), step([aw(2)])], ctl=['kill', 'pause']),
                                           proc([step([aw(3)], 'wait'), step([])], ctl=['kill', 'pause']),
                                           proc([step([soon(True), aw(4)])], ctl=['pause'])], mode='idle', early=False)
    nest3 = scen('nest3', [proc([step([aw(1), nest(4), aw(2)])]),
                           proc([step([aw(3), launch(5)], 'cont'), step([aw(4)])]),
                           proc([step([soon(), aw(5)])], ctl=['kill']),
                           proc([step([aw(6)], 'cont'), step([aw(7), addcl()])], role='sub', cl=1),
                           proc([step([aw(8)])], role='sub')], mode='idle', early=False)
    nest_deep = scen('nest_deep', [proc([step([nest(2), aw(1)])], ctl=['pause']),
                                   proc([step([aw(2), nest(3)], 'cont'), step([soon()])], role='sub'),
                                   proc([step([aw(3), launch(4)])], role='sub'),
                                   proc([step([aw(4)])], role='sub', ctl=['kill'], cl=2),
                                   proc([step([aw(5)], 'wait'), step([])])], mode='idle', early=False, soon_env=[3])
    nest_early = scen('nest_early', [proc([step([aw(1), nest(3)])]), proc([step([nest(4), aw(2)])]),
                                     proc([step([aw(3)])], role='sub'), proc([step([aw(4)])], role='sub')], mode='idle')
    nest3_acts = scen('nest3_acts', [proc([step([nest(2), aw(1)])]),
                                     proc([step([aw(2), nest(3), aw(3)])], role='sub'),
                                     proc([step([osoon(1, awaits=4), ofail(1), osoon(2), aw(5)])], role='sub'),
                                     proc([step([aw(6), soon(awaits=7)])])], mode='idle', early=False)
    child_nest_acts = scen('child_nest_acts', [proc([step([launch(2), aw(1), nest(3)], 'cont'), step([aw(2)])]),
                                               proc([step([aw(3), osoon(1, awaits=4), opause(1)])], role='sub'),
                                               proc([step([osoon(1), aw(5), osoon(2, awaits=6)])], role='sub')],
                           mode='idle', early=False)
    return quick + [three, three_child, three_ctl, control3_idle, nest3, nest_deep, nest_early, nest3_acts, child_nest_acts], [control3]


# ---- MC module -------------------------------------------------------------------------------------------
def _emit_scen(s):
    d = dict(s)
    d['procs'] = [{'role': p['role'], 'steps': p['steps'], 'ctl': set(p['ctl']), 'cl': p.get('cl', 0)} for p in s['procs']]
    d['soon'] = set(s['soon'])
    return tlaval.emit(d)


def mc_module(name, scens, fixes, deviations, invariants=INVARIANTS):
    tla = ['---- MODULE %s ----' % name, 'EXTENDS Scope',
           'MCScens == <<%s>>' % ',\n  '.join(_emit_scen(s) for s in scens),
           'MCFixes == %s' % tlaval.emit(set(fixes)),
           'MCDeviations == %s' % tlaval.emit(set(deviations)),
           '====', '']
    cfg = ['CONSTANTS', '  Scens <- MCScens', '  Fixes <- MCFixes', '  Deviations <- MCDeviations',
           'SPECIFICATION Spec', 'CHECK_DEADLOCK FALSE'] + ['INVARIANT %s' % i for i in invariants]
    return '\n'.join(tla), '\n'.join(cfg) + '\n'


def run_tlc(name, scens, fixes, deviations, invariants=INVARIANTS, dump=False, timeout=3000):
    """-> (tlc result, (nodes, edges, inits) or None)"""
    tla, cfg = mc_module('MC_' + name, scens, fixes, deviations, invariants)
    with tlc.Workdir() as wd:
        wd.write('MC_%s.tla' % name, tla)
        wd.write('MC_%s.cfg' % name, cfg)
        args = []
        dot = os.path.join(wd.path, 'graph')
        if dump:
            args = ['-dump', 'dot,actionlabels', dot]
        res = tlc.run(wd, 'MC_%s.tla' % name, 'MC_%s.cfg' % name, args=args, timeout=timeout)
        graph = None
        if dump and os.path.exists(dot + '.dot'):
            graph = tlc.load_dot(dot + '.dot')
    return res, graph


def jsonable(s):
    """scenario -> JSON-serialisable (sets become sorted lists)"""
    d = dict(s)
    d['soon'] = sorted(s['soon'])
    d['procs'] = [{'role': p['role'], 'steps': p['steps'], 'ctl': sorted(p['ctl']), 'cl': p.get('cl', 0)} for p in s['procs']]
    return d
