"""TLA+ values <-> Python.

parse(text)  : TLC's printed form of a value -> Python (records -> dict, sequences/tuples -> list,
               sets -> frozenset (of hashable renderings) , functions (a :> b @@ ...) -> dict,
               strings, ints, booleans, model values -> ModelValue(str)).
emit(value)  : Python -> TLA+ expression text (dict with str keys -> record, list/tuple -> sequence,
               set/frozenset -> set, str -> string, bool/int).
"""
import re

_TOKEN = re.compile(r'\s*(<<|>>|\|->|:>|@@|\[|\]|\{|\}|\(|\)|,|"(?:[^"\\]|\\.)*"|-?\d+|[A-Za-z_][A-Za-z0-9_!]*)')


class ModelValue(str):
    pass


def _freeze(v):
    if isinstance(v, dict):
        return tuple(sorted((k, _freeze(x)) for k, x in v.items()))
    if isinstance(v, list):
        return tuple(_freeze(x) for x in v)
    if isinstance(v, (set, frozenset)):
        return frozenset(_freeze(x) for x in v)
    return v


class _P:
    def __init__(self, s):
        self.s = s
        self.i = 0
        self.tok = None
        self.next()

    def next(self):
        m = _TOKEN.match(self.s, self.i)
        if not m:
            rest = self.s[self.i:].strip()
            if rest:
                raise ValueError('cannot tokenize TLA+ value at: %r' % rest[:40])
            self.tok = None
            return
        self.tok = m.group(1)
        self.i = m.end()

    def expect(self, t):
        if self.tok != t:
            raise ValueError('expected %r got %r near %r' % (t, self.tok, self.s[max(0, self.i - 30):self.i + 30]))
        self.next()

    def value(self):
        v = self.atom()
        # function literal:  a :> b @@ c :> d
        if self.tok == ':>':
            out = {}
            k = v
            while True:
                self.expect(':>')
                out[_key(k)] = self.atom()
                if self.tok == '@@':
                    self.next()
                    k = self.atom()
                    continue
                break
            return out
        return v

    def atom(self):
        t = self.tok
        if t is None:
            raise ValueError('unexpected end of TLA+ value')
        if t == '<<':
            self.next()
            out = []
            while self.tok != '>>':
                out.append(self.value())
                if self.tok == ',':
                    self.next()
            self.next()
            return out
        if t == '[':
            self.next()
            out = {}
            while self.tok != ']':
                k = self.tok
                self.next()
                self.expect('|->')
                out[k] = self.value()
                if self.tok == ',':
                    self.next()
            self.next()
            return out
        if t == '{':
            self.next()
            out = []
            while self.tok != '}':
                out.append(self.value())
                if self.tok == ',':
                    self.next()
            self.next()
            return frozenset(_freeze(x) for x in out)
        if t == '(':
            self.next()
            v = self.value()
            self.expect(')')
            return v
        self.next()
        if t[0] == '"':
            return t[1:-1].replace('\\"', '"').replace('\\\\', '\\')
        if t == 'TRUE':
            return True
        if t == 'FALSE':
            return False
        if re.fullmatch(r'-?\d+', t):
            return int(t)
        return ModelValue(t)


def _key(k):
    return k if isinstance(k, (str, int, bool)) else _freeze(k)


def parse(text):
    p = _P(text)
    v = p.value()
    if p.tok is not None:
        raise ValueError('trailing input in TLA+ value: %r' % p.tok)
    return v


def emit(v):
    if isinstance(v, bool):
        return 'TRUE' if v else 'FALSE'
    if isinstance(v, int):
        return str(v)
    if isinstance(v, ModelValue):
        return str(v)
    if isinstance(v, str):
        assert '"' not in v and '\\' not in v, v
        return '"%s"' % v
    if isinstance(v, dict):
        if not v:
            return '<<>>'
        if all(isinstance(k, str) for k in v):
            return '[' + ', '.join('%s |-> %s' % (k, emit(x)) for k, x in v.items()) + ']'
        return '(' + ' @@ '.join('%s :> %s' % (emit(k), emit(x)) for k, x in v.items()) + ')'
    if isinstance(v, (list, tuple)):
        return '<<' + ', '.join(emit(x) for x in v) + '>>'
    if isinstance(v, (set, frozenset)):
        return '{' + ', '.join(sorted(emit(x) for x in v)) + '}'
    raise TypeError('cannot emit %r' % (v,))


def parse_state(label):
    """A TLC state printed as a conjunction `/\\ x = v /\\ y = w` -> {x: v, y: w}."""
    out = {}
    parts = re.split(r'(?:^|\n)\s*/\\ ', '\n' + label.strip())
    for part in parts:
        part = part.strip()
        if not part:
            continue
        k, v = part.split(' = ', 1)
        out[k.strip()] = parse(v.strip())
    return out
