"""Known findings: genuine defects of plumpy that are recorded rather than repaired.

/verif/known_findings.json is read-only at run time.  Each finding names the property, a stable id,
what fails, and the *deviation clause* of the specification that describes the defective behaviour
(so a different violation of the same property is still reported: it is not explained by the clause).
"""
import json
import os

VERIF = os.path.dirname(os.path.dirname(os.path.abspath(__file__)))
PATH = os.path.join(VERIF, 'known_findings.json')


def load():
    if not os.path.exists(PATH):
        return {'findings': [], 'fixed': []}
    return json.load(open(PATH))


def for_property(pid):
    return [f for f in load().get('findings', []) if f['property'] == pid or pid in f.get('also', [])]


def deviations(pid=None):
    """Deviation identifiers (spec constants) of the listed findings."""
    out = []
    for f in load().get('findings', []):
        if pid is None or f['property'] == pid or pid in f.get('also', []):
            out.extend(f.get('deviations', []))
    return sorted(set(out))


def print_known(pid, used=None):
    """Print the KNOWN-FINDING lines of a property; `used` = deviation ids actually exercised in this run."""
    for f in for_property(pid):
        note = ''
        if used is not None:
            hit = [d for d in f.get('deviations', []) if d in used]
            note = ' [reproduced in this run]' if hit or not f.get('deviations') else ' [listed]'
        print('KNOWN-FINDING: property=%s %s: %s%s' % (pid, f['id'], f['what'], note))
