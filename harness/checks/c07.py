"""C07 - save, load, save again yields the same bundle and the same observable process (copy / pickle / YAML)."""
import json
import time

from .. import core_check, core_model, outline_check, outline_model as om, tlc
from . import core_cfg as C
from .c08 import INPUTS, crash_sets, save_plans

PID = 'C07'
INV = ['C07_SaveLoadSave']


def run(tier, seed):
    alpha = ['save', 'restore', 'resume', 'pause', 'play', 'kill']
    progs = ['P01', 'P02', 'P03', 'P04', 'P05', 'P06', 'P07', 'P08', 'P09', 'P10', 'P12', 'P13', 'P14', 'P20', 'P21', 'P22']
    down = core_model.family(['P12', 'P02'], out_missing=['P12', 'P02'])
    rk = lambda m: {'medium': m, 'listener': False, 'check_roundtrip': True, 'inputs': INPUTS}   # noqa
    if tier == 'quick':
        mc = [dict(name='C07_points', progs=C.fam(progs), plans=save_plans((1, 2, 3, 4, 5)), alphabet=alpha, k=2, invariants=INV)]
        rp = [dict(name='C07_%s' % m, progs=C.fam(['P03', 'P04', 'P06', 'P07', 'P08', 'P12', 'P13', 'P20', 'P22']), plans=save_plans((1, 2, 3, 4)),
                   alphabet=alpha, k=1, run_kw=rk(m)) for m in ('copy', 'pickle', 'yaml')]
        rp.append(dict(name='C07_paused', progs=C.fam(['P03', 'P13', 'P14']), plans=[[]], alphabet=['pause', 'play', 'save', 'restore'], k=4, run_kw=rk('pickle')))
        rp.append(dict(name='C07_unsuccessful', progs=down, plans=save_plans((1, 2, 3)), alphabet=['save', 'restore'], k=2, run_kw=rk('yaml')))
        rp.append(dict(name='C07_cancelled_future', progs=C.fam(['P03', 'P13']), plans=[[]], alphabet=['pause', 'cancel', 'save', 'restore'], k=4, run_kw=rk('pickle')))
        for nm, inp in (('empty_inputs', {}), ('no_inputs', None)):
            rp.append(dict(name='C07_' + nm, progs=C.fam(['P02', 'P03']), plans=save_plans((1, 2, 3)), alphabet=['save', 'restore'], k=1,
                           run_kw=dict(rk('pickle'), inputs=inp)))
        outl = [('C07_outl_%s' % m, om.sample(om.family(4, 3), 250, seed), om.oracles(3), crash_sets(4, 1), m, 0, 'default') for m in ('copy', 'yaml')]
        two = [(0, 1), (0, 2), (1, 2), (1, 3), (0, 1, 2)]
        outl += [('C07_outl_mem_late', om.sample(om.family(4, 3), 200, seed + 1), om.oracles(3), crash_sets(3, 1) + two[:2], 'mem', 1, 'default'),
                 ('C07_outl_custom_loader', om.sample(om.family(4, 3), 120, seed + 2), om.oracles(3), crash_sets(3, 1), 'pickle', 0, 'custom'),
                 ('C07_outl_alternating_loaders', om.sample(om.family(4, 3), 150, seed + 3), om.oracles(3), two, 'copy', 0, 'alternate')]
    else:
        mc = [dict(name='C07_points', progs=C.fam(progs), plans=save_plans((1, 2, 3, 4, 5)), alphabet=alpha, k=4, invariants=INV)]
        rp = [dict(name='C07_%s' % m, progs=C.fam(progs), plans=save_plans((1, 2, 3, 4, 5)), alphabet=alpha, k=2, run_kw=rk(m))
              for m in ('copy', 'pickle', 'yaml')]
        rp.append(dict(name='C07_paused', progs=C.fam(progs), plans=[[]], alphabet=['pause', 'play', 'save', 'restore', 'resume'], k=4, run_kw=rk('yaml')))
        rp.append(dict(name='C07_unsuccessful', progs=down, plans=save_plans((1, 2, 3)), alphabet=['save', 'restore'], k=3, run_kw=rk('yaml')))
        rp.append(dict(name='C07_cancelled_future', progs=C.fam(['P03', 'P05', 'P13']), plans=[[]], alphabet=['pause', 'play', 'cancel', 'save', 'restore'], k=4, run_kw=rk('yaml')))
        for nm, inp in (('empty_inputs', {}), ('no_inputs', None)):
            for m in ('copy', 'pickle', 'yaml'):
                rp.append(dict(name='C07_%s_%s' % (nm, m), progs=C.fam(progs), plans=save_plans((1, 2, 3, 4)), alphabet=['save', 'restore'], k=1,
                               run_kw=dict(rk(m), inputs=inp)))
        outl = [('C07_outl_%s' % m, om.sample(om.family(4, 3), 1500, seed), om.oracles(3), crash_sets(5, 2), m, 0, 'default') for m in ('copy', 'pickle', 'yaml')]
        outl += [('C07_outl_%s_late' % m, om.sample(om.family(4, 3), 600, seed + 1), om.oracles(3), crash_sets(5, 2), m, 1, 'default') for m in ('mem', 'pfile')]
        outl += [('C07_outl_custom_loader_%s' % m, om.sample(om.family(4, 3), 400, seed + 2), om.oracles(3), crash_sets(5, 2), m, 0, 'custom') for m in ('copy', 'pickle', 'yaml')]
        outl += [('C07_outl_alternating_loaders_%s' % m, om.sample(om.family(4, 3), 400, seed + 3), om.oracles(3), crash_sets(5, 3), m, 0, 'alternate') for m in ('copy', 'yaml')]
    viol = 0
    ostates = oreplayed = 0
    osumm = []
    for name, outlines, oracles, crashes, medium, lag, loaders in outl:
        r = outline_check.model_and_replay(name, outlines, oracles, crash_sets=crashes, invariants=['C08_RoundTrip'], medium=medium, lag=lag, loaders=loaders)
        res = r['tlc']
        ostates += res.distinct
        osumm.append({'instance': name, 'outlines': len(outlines), 'crash_sets': len(crashes), 'medium': medium, 'lag': lag, 'loaders': loaders, 'behaviours': r['behaviours'],
                      'mismatches': len(r['mismatches'])})
        if res.violated:
            path = core_check.write_replay(PID, 'tlc', {'kind': 'tlc-counterexample', 'violated': res.violated,
                                                        'trace': [{'action': a, 'state': s} for a, s in res.trace()]})
            print('TLC: %s violated (stepper save/load is not the identity)' % res.violated)
            print('VIOLATION property=%s replay=%s' % (PID, path))
            viol += 1
            continue
        if not res.ok:
            raise tlc.MachineryError(res.out[-3000:])
        oreplayed += r['behaviours']
        for key, why, got in r['mismatches'][:5]:
            oi, ri, ci = key
            path = core_check.write_replay(PID, 'outline', {'kind': 'outline-mismatch', 'outline': outlines[oi - 1], 'oracle': oracles[ri - 1],
                                                            'crash_at': list(crashes[ci - 1]), 'medium': medium, 'lag': lag, 'loaders': loaders, 'why': why,
                                                            'expected_units': r['expected'][key][0], 'expected_result': r['expected'][key][1], 'got': got})
            print('MISMATCH (%s, lag %d, loaders %s) outline=%s crash_at=%s: %s' % (medium, lag, loaders, json.dumps(outlines[oi - 1]), list(crashes[ci - 1]), why))
            print('VIOLATION property=%s replay=%s' % (PID, path))
        viol += len(r['mismatches'])
    return core_check.run_check(
        PID, tier, seed, mc, rp,
        level_text='TLC enumerates every save point; each is exercised on the real code through copy, pickle and YAML',
        assumptions=C.ASSUMPTIONS + [
            'TLA+ does not model pickle or YAML: the specification contributes the complete enumeration of save points and the state the loaded '
            'process must be in; fidelity of a medium is established only for the bundles of the enumerated points (small ints, strings, nested '
            'dicts, UUID pids, exception objects); traceback text is ignored as the property allows',
            'listeners are not attached in checkpoint runs (they would be deep-copied into the bundle)',
            'object loaders: the default one, a custom one with names of its own, and the two alternating over the checkpoints of one run that '
            'are all loaded through ONE load context naming no loader (loader precedence in general: C19)'],
        rule='every state entry (k-th ENTERED_STATE callback) and every quiescent/paused point of every program and sampled outline, x {copy, pickle, yaml}; '
             'at each point: bundle -> medium -> unbundle -> bundle again compared key by key, loaded process accessors (pid, state, raw/parsed inputs, '
             'outputs, ctx, status, paused, creation time, outcome) compared with the original and with the specification state after Restore',
        extra_violations=viol,
        extra_cov={'outline_runs': osumm, 'outline_states': ostates, 'outline_behaviours_on_impl': oreplayed})


def replay(path):
    from . import c08
    return c08.replay(path)
