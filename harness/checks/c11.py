"""C11 - only spec-conforming inputs create a process; defaults applied, inputs immutable (spec/Ports.tla, part 2/3)."""
from .. import ports_check

PID = 'C11'


def run(tier, seed):
    return ports_check.run(PID, tier, seed)


def replay(path):
    return ports_check.replay_file(path)
