"""C06 - a wake-up is never lost to a concurrent pause or interruption (resume calls and awaited futures/children)."""
from .. import core_check, core_model
from . import core_cfg as C

PID = 'C06'
INV = ['C06_NoLostWakeup', 'C06_ResumeValue', 'C06_NoLostCompletion']
PROP = []


def run(tier, seed):
    alpha = ['resume', 'pause', 'play', 'kill']
    ov = [('ResumeVals', 'MCResumeVals')]
    xd = 'MCResumeVals == {"v1", "v2", "NULL"}\n'
    wait = ['P03', 'P05', 'P06', 'P10', 'P13', 'P21', 'P22']
    if tier == 'quick':
        mc = [dict(name='C06_env', progs=C.fam(wait), plans=[[]], alphabet=alpha, k=4, invariants=INV, overrides=ov, extra_defs=xd),
              dict(name='C06_awaitables', progs=C.fam(['W1', 'W3', 'W4', 'W6']), plans=[[]], alphabet=['complete', 'pause', 'play', 'kill'], k=4, invariants=INV)]
        rp = [dict(name='C06_env', progs=C.fam(['P03', 'P05', 'P10']), plans=[[]], alphabet=alpha, k=3, overrides=ov, extra_defs=xd),
              dict(name='C06_wake4', progs=C.fam(['P03']), plans=[[]], alphabet=['resume', 'pause', 'play'], k=4, overrides=ov, extra_defs=xd),
              dict(name='C06_awaitables', progs=C.fam(['W1', 'W3', 'W6']), plans=[[]], alphabet=['complete', 'pause', 'play', 'kill'], k=3)]
    else:
        mc = [dict(name='C06_env', progs=C.fam(wait), plans=[[]], alphabet=alpha, k=6, invariants=INV, overrides=ov, extra_defs=xd),
              dict(name='C06_awaitables', progs=C.fam(['W1', 'W2', 'W3', 'W4', 'W5']), plans=[[]], alphabet=['complete', 'pause', 'play', 'kill'], k=5, invariants=INV)]
        rp = [dict(name='C06_env', progs=C.fam(wait), plans=[[]], alphabet=alpha, k=4, overrides=ov, extra_defs=xd),
              dict(name='C06_awaitables', progs=C.fam(['W1', 'W2', 'W3', 'W5']), plans=[[]], alphabet=['complete', 'pause', 'play', 'kill'], k=4),
              dict(name='C06_children', progs=C.fam(['W1', 'W3']), plans=[[]], alphabet=['complete', 'pause', 'play'], k=4, run_kw={'children': True})]
    return core_check.run_check(
        PID, tier, seed, mc, rp,
        level_text='TLC exhaustive + replay of every behaviour of the dumped state graphs into the real Process',
        assumptions=C.ASSUMPTIONS + ['resume values {v1, v2, no value}; the first accepted resume of a wait must be what the continuation receives, exactly once'],
        rule='every order and placement of resume(v)/resume(v2)/resume() relative to pause/play/kill between any two callbacks for every waiting program')


def replay(path):
    return core_check.replay_file(path)
