"""Generates the thin per-property check modules c02/c04/c05/c06/c13 (run once by hand; output is committed)."""
tmpl = '''"""{doc}"""
from .. import core_check, core_model
from . import core_cfg as C

PID = '{pid}'
INV = {inv}
PROP = {prop}


def run(tier, seed):
{body}
    return core_check.run_check(
        PID, tier, seed, mc, rp,
        level_text='TLC exhaustive + replay of every behaviour of the dumped state graphs into the real Process',
        assumptions=C.ASSUMPTIONS + {extra_assume},{suite}
        rule={rule!r})


def replay(path):
    return core_check.replay_file(path)
'''
checks = {
    'c02': dict(
        pid='C02', doc='C02 - all reports of the outcome of a terminated process agree and waiters are released.',
        inv=['C02_FutureNotEarly', 'C02_Agree', 'C02_OneNotification', 'C02_ClosedOnce', 'C02_TaskReturns'], prop=[],
        body='''    alpha = ['kill', 'pause', 'play', 'resume', 'cancel', 'cbok', 'cbraise', 'fail']
    tc_alpha = ['taskcancel', 'pause', 'play', 'kill', 'fail', 'resume']
    kill_plans = core_check.reentrant_plans(['step', 'L_running', 'L_waiting', 'L_paused', 'L_played', 'L_output'], [('kill', 'k2'), ('pause', 'p2')])
    down = core_model.family(['P12', 'P02'], out_missing=['P12', 'P02'])
    pe = core_model.plan_entry
    lfaults = [[pe('L_' + e, o, 'fault', 'X')] for e in ('running', 'waiting', 'finished', 'excepted', 'killed', 'paused') for o in (1, 2)]
    if tier == 'quick':
        mc = [dict(name='C02_env', progs=C.fam(C.ALL), plans=[[]], alphabet=alpha, k=3, invariants=INV),
              dict(name='C02_reentrant', progs=C.fam(C.SMALL), plans=kill_plans, alphabet=alpha, k=1, invariants=INV),
              dict(name='C02_downgrade', progs=down, plans=[[]], alphabet=alpha, k=2, invariants=INV),
              dict(name='C02_task_cancelled', progs=C.fam(['P03', 'P04', 'P05']), plans=[[]], alphabet=tc_alpha, k=4, invariants=INV)]
        rp = [dict(name='C02_env', progs=C.fam(C.ALL), plans=[[]], alphabet=alpha, k=2),
              dict(name='C02_reentrant', progs=C.fam(['P03', 'P05']), plans=kill_plans, alphabet=alpha, k=1),
              dict(name='C02_downgrade', progs=down, plans=[[]], alphabet=alpha, k=2),
              dict(name='C02_listener_raises', progs=C.fam(['P02', 'P03', 'P08']), plans=lfaults, alphabet=['kill', 'pause', 'play'], k=1),
              # conformance only: close() by the user is outside the property's quantifier, but it is modelled
              dict(name='C02_user_close', progs=C.fam(['P01', 'P03', 'P04']), plans=[[]], alphabet=['close', 'kill', 'pause', 'play'], k=2),
              # the owner of the stepping task cancels it while it is parked at the pause gate (pause, taskcancel, then kill / fail / play)
              dict(name='C02_task_cancelled', progs=C.fam(['P03', 'P04', 'P05']), plans=[[]], alphabet=tc_alpha, k=4)]
    else:
        mc = [dict(name='C02_env', progs=C.fam(C.ALL), plans=[[]], alphabet=alpha, k=4, invariants=INV),
              dict(name='C02_reentrant', progs=C.fam(C.ALL), plans=kill_plans, alphabet=alpha, k=2, invariants=INV),
              dict(name='C02_downgrade', progs=down, plans=[[]], alphabet=alpha, k=3, invariants=INV),
              dict(name='C02_task_cancelled', progs=C.fam(C.ALL), plans=[[]], alphabet=tc_alpha + ['cancel'], k=5, invariants=INV)]
        rp = [dict(name='C02_env', progs=C.fam(C.ALL), plans=[[]], alphabet=alpha, k=3),
              dict(name='C02_reentrant', progs=C.fam(C.SMALL), plans=kill_plans, alphabet=alpha, k=1),
              dict(name='C02_downgrade', progs=down, plans=[[]], alphabet=alpha, k=3),
              dict(name='C02_listener_raises', progs=C.fam(C.ALL), plans=lfaults, alphabet=['kill', 'pause', 'play', 'resume'], k=2),
              dict(name='C02_user_close', progs=C.fam(C.ALL), plans=[[]], alphabet=['close', 'kill', 'pause', 'play', 'resume', 'fail'], k=3),
              dict(name='C02_task_cancelled', progs=C.fam(C.ALL), plans=[[]], alphabet=tc_alpha + ['cancel'], k=4)]''',
        extra_assume=['three listeners are attached (one recording, two counting): every listener must be told each event exactly once even when another listener raises', 'the five accessor families (future, result, successful/is_successful, killed/killed_msg, exception) are read from the real process after every action and must agree with each other and with the specification state'],
        rule='every interleaving of <=K control requests (incl. kill while paused, during a step, from a listener) with every program; accessor agreement, notification/cleanup counts and stepping-task completion compared after every action'),
    'c04': dict(
        pid='C04', doc='C04 - a kill request is never lost and no live process is unkillable.',
        inv=['C04_KillNoRaise', 'C04_KillNotLost', 'C04_KillReply', 'C04_KillText', 'C04_KillFromAnywhere'], prop=[],
        body='''    alpha = ['kill', 'pause', 'play', 'resume', 'cancel']
    kill_plans = core_check.reentrant_plans(['step', 'L_running', 'L_waiting', 'L_paused', 'L_played', 'L_output'], [('kill', 'k2')])
    if tier == 'quick':
        mc = [dict(name='C04_env', progs=C.fam(C.ALL), plans=[[]], alphabet=alpha, k=3, invariants=INV),
              dict(name='C04_reentrant', progs=C.fam(C.ALL), plans=kill_plans, alphabet=alpha, k=1, invariants=INV),
              # nothing drives the process any more (its stepping task was cancelled at the pause gate): it can still be killed
              dict(name='C04_task_cancelled', progs=C.fam(C.SMALL), plans=[[]], alphabet=['taskcancel', 'pause', 'play', 'kill', 'resume'], k=4, invariants=INV)]
        rp = [dict(name='C04_env', progs=C.fam(['P03', 'P04', 'P05', 'P09', 'P10']), plans=[[]], alphabet=alpha, k=3),
              dict(name='C04_reentrant', progs=C.fam(C.SMALL), plans=kill_plans, alphabet=alpha, k=1),
              dict(name='C04_task_cancelled', progs=C.fam(C.SMALL), plans=[[]], alphabet=['taskcancel', 'pause', 'play', 'kill', 'resume'], k=4)]
    else:
        mc = [dict(name='C04_env', progs=C.fam(C.ALL), plans=[[]], alphabet=alpha, k=5, invariants=INV),
              dict(name='C04_reentrant', progs=C.fam(C.ALL), plans=kill_plans, alphabet=alpha, k=3, invariants=INV),
              dict(name='C04_task_cancelled', progs=C.fam(C.ALL), plans=[[]], alphabet=['taskcancel', 'pause', 'play', 'kill', 'resume'], k=5, invariants=INV)]
        rp = [dict(name='C04_env', progs=C.fam(C.ALL), plans=[[]], alphabet=alpha, k=3),
              dict(name='C04_reentrant', progs=C.fam(C.ALL), plans=kill_plans, alphabet=alpha, k=2),
              dict(name='C04_task_cancelled', progs=C.fam(C.ALL), plans=[[]], alphabet=['taskcancel', 'pause', 'play', 'kill', 'resume'], k=4)]''',
        extra_assume=['KillFromAnywhere is AG EF made first-order by determinism: in every reachable live state TLC evaluates Drain(Kill(S)); the implementation side is covered through conformance of every behaviour that contains a kill'],
        rule='every sequence of <=K requests from {kill,pause,play,resume,cancel-future} between any two callbacks, plus one re-entrant kill from a step body or a running/waiting/paused/played/output listener'),
    'c05': dict(
        pid='C05', doc='C05 - pause/play is transparent: nothing runs while paused, no step lost or repeated.',
        inv=['C05_NoStepWhilePaused', 'C05_NoRaise', 'C05_PlayUnpauses', 'C05_PlayWins', 'C05_StepsPrefix', 'C05_Transparent'], prop=[],
        body='''    alpha = ['pause', 'play', 'resume']
    pp_plans = core_check.reentrant_plans(['step', 'L_running', 'L_waiting'], [('pause', 'p2'), ('play', '-')])
    if tier == 'quick':
        mc = [dict(name='C05_env', progs=C.fam(C.ALL), plans=[[]], alphabet=alpha, k=4, invariants=INV),
              dict(name='C05_reentrant', progs=C.fam(C.ALL), plans=pp_plans, alphabet=alpha, k=2, invariants=INV[:4])]
        rp = [dict(name='C05_env', progs=C.fam(['P03', 'P04', 'P05', 'P12', 'P13', 'P14']), plans=[[]], alphabet=alpha, k=3),
              dict(name='C05_reentrant', progs=C.fam(['P03', 'P04', 'P13']), plans=pp_plans, alphabet=alpha, k=1)]
    else:
        mc = [dict(name='C05_env', progs=C.fam(C.ALL), plans=[[]], alphabet=alpha, k=6, invariants=INV),
              dict(name='C05_reentrant', progs=C.fam(C.ALL), plans=pp_plans, alphabet=alpha, k=3, invariants=INV[:4])]
        rp = [dict(name='C05_env', progs=C.fam(C.ALL), plans=[[]], alphabet=alpha, k=4),
              dict(name='C05_reentrant', progs=C.fam(C.ALL), plans=pp_plans, alphabet=alpha, k=2)]''',
        extra_assume=['the reference (uninterrupted) run is computed by the same operators with no pause/play and compared inside TLC; step entries carry the status message and the paused flag sampled at the entry of the real step function'],
        rule='every sequence of <=K pause/play/resume requests between any two callbacks (and re-entrant pause/play from step bodies and listeners); executed steps, their arguments, status at entry, outputs and outcome compared with the uninterrupted run'),
    'c06': dict(
        pid='C06', doc='C06 - a wake-up is never lost to a concurrent pause or interruption (resume calls and awaited futures/children).',
        inv=['C06_NoLostWakeup', 'C06_ResumeValue', 'C06_NoLostCompletion'], prop=[],
        body='''    alpha = ['resume', 'pause', 'play', 'kill']
    ov = [('ResumeVals', 'MCResumeVals')]
    xd = 'MCResumeVals == {"v1", "v2", "NULL"}\\n'
    wait = ['P03', 'P05', 'P06', 'P10', 'P13', 'P21', 'P22']
    if tier == 'quick':
        mc = [dict(name='C06_env', progs=C.fam(wait), plans=[[]], alphabet=alpha, k=4, invariants=INV, overrides=ov, extra_defs=xd),
              dict(name='C06_awaitables', progs=C.fam(['W1', 'W3', 'W4', 'W6']), plans=[[]], alphabet=['complete', 'pause', 'play', 'kill'], k=4, invariants=INV)]
        rp = [dict(name='C06_env', progs=C.fam(['P03', 'P05', 'P10']), plans=[[]], alphabet=alpha, k=3, overrides=ov, extra_defs=xd),
              dict(name='C06_wake4', progs=C.fam(['P03']), plans=[[]], alphabet=['resume', 'pause', 'play'], k=4, overrides=ov, extra_defs=xd),
              dict(name='C06_awaitables', progs=C.fam(['W1', 'W3', 'W6']), plans=[[]], alphabet=['complete', 'pause', 'play', 'kill'], k=3)]
    else:
        mc = [dict(name='C06_env', progs=C.fam(wait), plans=[[]], alphabet=alpha, k=6, invariants=INV, overrides=ov, extra_defs=xd),
              dict(name='C06_awaitables', progs=C.fam(['W1', 'W2', 'W3', 'W4', 'W5']), plans=[[]], alphabet=['complete', 'pause', 'play', 'kill'], k=5, invariants=INV)]
        rp = [dict(name='C06_env', progs=C.fam(wait), plans=[[]], alphabet=alpha, k=4, overrides=ov, extra_defs=xd),
              dict(name='C06_awaitables', progs=C.fam(['W1', 'W2', 'W3', 'W5']), plans=[[]], alphabet=['complete', 'pause', 'play', 'kill'], k=4),
              dict(name='C06_children', progs=C.fam(['W1', 'W3']), plans=[[]], alphabet=['complete', 'pause', 'play'], k=4, run_kw={'children': True})]''',
        extra_assume=['resume values {v1, v2, no value}; the first accepted resume of a wait must be what the continuation receives, exactly once'],
        rule='every order and placement of resume(v)/resume(v2)/resume() relative to pause/play/kill between any two callbacks for every waiting program'),
    'c13': dict(
        pid='C13', doc='C13 - the return value of a step alone decides what happens next, with exact arguments, also across a checkpoint restore.',
        inv=['C13_Continuation', 'C13_Outcome', 'C06_ResumeValue'], prop=[],
        body='''    ov = [('ResumeVals', 'MCResumeVals')]
    xd = 'MCResumeVals == {"v1", "v0", "NULL", "-"}\\n'          # resume(1), resume(0), resume(), resume(None)
    progs = C.ALL + ['P20', 'P21', 'P22', 'P23', 'P24']
    ppr = ['resume', 'pause', 'play']
    pe = core_model.plan_entry
    pfault = [[]] + [[pe(h, o, 'fault', 'X')] for h in ('on_pausing', 'on_paused', 'on_playing') for o in (1, 2)]
    saves = [[]] + [[pe('cb_entered', o, 'save')] for o in (1, 2, 3)]
    # checkpoints written while the command of a step is being obeyed (exit / entering phase: the old RUNNING state is still
    # current, so the restored process runs that step again - not a step boundary: conformance only, no C08 invariant)
    saves_mid = [[]] + [[pe(h, o, 'save')] for h in ('on_exit_running', 'cb_exiting', 'on_wait', 'cb_entering') for o in (1, 2)]
    rkn = {'medium': 'none', 'listener': False}
    # a pause requested by user code while the Wait command is being obeyed (before, during and after the state switch)
    hp = core_check.reentrant_plans(['on_wait', 'on_exit_running', 'cb_entering', 'cb_exiting', 'on_waiting', 'cb_entered'], [('pause', 'p2')], occs=(1, 2))
    if tier == 'quick':
        mc = [dict(name='C13_resume', progs=C.fam(progs), plans=[[]], alphabet=['resume'], k=3, invariants=INV, overrides=ov, extra_defs=xd),
              dict(name='C13_env', progs=C.fam(progs), plans=[[]], alphabet=ppr, k=3, invariants=INV[:1] + INV[2:], overrides=ov, extra_defs=xd)]
        rp = [dict(name='C13_resume', progs=C.fam(progs), plans=[[]], alphabet=['resume'], k=3, overrides=ov, extra_defs=xd),
              dict(name='C13_env', progs=C.fam(['P04', 'P14', 'P20', 'P21', 'P22']), plans=[[]], alphabet=ppr, k=2, overrides=ov, extra_defs=xd),
              dict(name='C13_pausefault', progs=C.fam(['P04', 'P14', 'P22']), plans=pfault, alphabet=['pause', 'play'], k=2),
              dict(name='C13_restore', progs=C.fam(['P04', 'P20', 'P24']), plans=saves, alphabet=['restore'], k=1, run_kw=rkn),
              dict(name='C13_restore_mid', progs=C.fam(['P01', 'P03', 'P04', 'P06', 'P07', 'P20']), plans=saves_mid, alphabet=['restore', 'resume'], k=2,
                   run_kw={'medium': 'pickle', 'listener': False}),
              dict(name='C13_wake', progs=C.fam(['P03', 'P21']), plans=[[]], alphabet=ppr, k=3),
              dict(name='C13_hookpause', progs=C.fam(['P03', 'P21', 'P22']), plans=hp, alphabet=['play', 'resume'], k=2)]
        mc.append(dict(name='C13_hookpause', progs=C.fam(['P03', 'P21', 'P22']), plans=hp, alphabet=['play', 'resume'], k=3, invariants=INV[:1] + INV[2:]))
        mc.append(dict(name='C13_pausefault', progs=C.fam(['P04', 'P14', 'P22']), plans=pfault, alphabet=['pause', 'play'], k=2, invariants=INV[:1]))
        mc.append(dict(name='C13_restore', progs=C.fam(progs), plans=saves, alphabet=['save', 'restore', 'resume'], k=3, invariants=INV[:1] + ['C08_Equivalent']))
    else:
        mc = [dict(name='C13_resume', progs=C.fam(progs), plans=[[]], alphabet=['resume'], k=5, invariants=INV, overrides=ov, extra_defs=xd),
              dict(name='C13_env', progs=C.fam(progs), plans=[[]], alphabet=ppr, k=5, invariants=INV[:1] + INV[2:], overrides=ov, extra_defs=xd)]
        rp = [dict(name='C13_resume', progs=C.fam(progs), plans=[[]], alphabet=['resume'], k=4, overrides=ov, extra_defs=xd),
              dict(name='C13_env', progs=C.fam(progs), plans=[[]], alphabet=ppr, k=3, overrides=ov, extra_defs=xd),
              dict(name='C13_pausefault', progs=C.fam(['P04', 'P14', 'P20', 'P22']), plans=pfault, alphabet=['pause', 'play', 'resume'], k=3),
              dict(name='C13_restore', progs=C.fam(progs), plans=saves, alphabet=['restore', 'resume'], k=2, run_kw=rkn,
                   overrides=[('MaxRestores', 'MCMaxRestores')], extra_defs='MCMaxRestores == 1\\n'),
              # (not P24: its steps consume their mutable arguments in place, which a checkpoint written after the step ran - and before
              #  the state changed - rightly shows)
              dict(name='C13_restore_mid', progs=C.fam([p for p in progs if p != 'P24']), plans=saves_mid, alphabet=['restore', 'resume'], k=3, run_kw={'medium': 'pickle', 'listener': False}),
              dict(name='C13_hookpause', progs=C.fam(['P03', 'P06', 'P10', 'P13', 'P21', 'P22']), plans=hp, alphabet=['play', 'resume', 'pause'], k=3)]
        mc.append(dict(name='C13_hookpause', progs=C.fam(['P03', 'P06', 'P10', 'P13', 'P21', 'P22']), plans=hp, alphabet=['play', 'resume', 'pause'], k=4, invariants=INV[:1] + INV[2:]))
        mc.append(dict(name='C13_pausefault', progs=C.fam(progs), plans=pfault, alphabet=['pause', 'play', 'resume'], k=3, invariants=INV[:1]))
        mc.append(dict(name='C13_restore', progs=C.fam(progs), plans=saves, alphabet=['save', 'restore', 'resume'], k=4, invariants=INV[:1] + ['C08_Equivalent']))''',
        extra_assume=['generated continuation functions record (args, kwargs) exactly as received; values are small ints / None / short strings'],
        rule='every program of the family incl. chains with positional and keyword arguments, resume values {1, 0, none}; expected (function, args, kwargs) derived from the returned command'),
}
if __name__ == '__main__':
    import os
    here = os.path.dirname(os.path.abspath(__file__))
    SUITE = {'c02': "lambda e: e[0] == 'obs'", 'c04': "lambda e: e[0] in ('cs', 'ce') and e[1] == 'kill'",
             'c05': "lambda e: e[0] == 'obs' or (e[0] in ('cs', 'ce') and e[1] in ('pause', 'play'))"}
    for name, c in checks.items():
        c['suite'] = ('\n        suite_traces=%s,' % SUITE[name]) if name in SUITE else ''
        open(os.path.join(here, name + '.py'), 'w').write(tmpl.format(**c))
