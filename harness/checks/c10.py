"""C10 - ToContext is a barrier: the next step sees every awaited result (futures and child processes)."""
import json

from .. import core_check, core_model, outline_check, outline_model as om, tlc
from . import core_cfg as C

PID = 'C10'
INV = ['C10_Barrier', 'C10_FailureStops', 'C06_NoLostCompletion']


def run(tier, seed):
    alpha = ['complete', 'pause', 'play']
    alpha_k = ['complete', 'pause', 'play', 'kill']
    # a pause requested by a listener (or by the step itself) while the workchain enters WAITING is still undelivered when the
    # completions arrive: a failure parked behind it must not be replaced by a later success
    lp = core_check.reentrant_plans(['L_waiting', 'step', 'on_wait'], [('pause', 'p2')], occs=(1,))
    if tier == 'quick':
        mc = [dict(name='C10_orders', progs=C.fam(['W1', 'W2', 'W3', 'W4', 'W5', 'W6']), plans=[[]], alphabet=['complete'], k=3, invariants=INV),
              dict(name='C10_pause', progs=C.fam(['W1', 'W2', 'W3', 'W5']), plans=[[]], alphabet=alpha, k=4, invariants=INV)]
        rp = [dict(name='C10_orders', progs=C.fam(['W1', 'W2', 'W3', 'W4', 'W5', 'W6']), plans=[[]], alphabet=['complete'], k=3),
              dict(name='C10_pause', progs=C.fam(['W1', 'W3']), plans=[[]], alphabet=alpha_k, k=3),
              dict(name='C10_children', progs=C.fam(['W1', 'W2', 'W3', 'W6']), plans=[[]], alphabet=alpha, k=3, run_kw={'children': True}),
              dict(name='C10_lpause', progs=C.fam(['W1', 'W2']), plans=lp, alphabet=['complete', 'play'], k=3)]
        mc.append(dict(name='C10_lpause', progs=C.fam(['W1', 'W2', 'W4']), plans=lp, alphabet=['complete', 'play'], k=4, invariants=INV))
    else:
        mc = [dict(name='C10_orders', progs=C.fam(['W1', 'W2', 'W3', 'W4', 'W5', 'W6']), plans=[[]], alphabet=['complete'], k=3, invariants=INV),
              dict(name='C10_pause', progs=C.fam(['W1', 'W2', 'W3', 'W4', 'W5', 'W6']), plans=[[]], alphabet=alpha_k, k=5, invariants=INV)]
        rp = [dict(name='C10_orders', progs=C.fam(['W1', 'W2', 'W3', 'W4', 'W5', 'W6']), plans=[[]], alphabet=['complete'], k=3),
              dict(name='C10_pause', progs=C.fam(['W1', 'W2', 'W3', 'W5']), plans=[[]], alphabet=alpha_k, k=4),
              dict(name='C10_children', progs=C.fam(['W1', 'W2', 'W3', 'W4', 'W6']), plans=[[]], alphabet=alpha_k, k=4, run_kw={'children': True}),
              dict(name='C10_lpause', progs=C.fam(['W1', 'W2', 'W4', 'W5']), plans=lp, alphabet=['complete', 'play', 'pause'], k=4)]
        mc.append(dict(name='C10_lpause', progs=C.fam(['W1', 'W2', 'W4', 'W5', 'W6']), plans=lp, alphabet=['complete', 'play', 'pause'], k=5, invariants=INV))
    # the barrier inside structured outlines (module Outline): a step of an if_ / while_ body that hands something to the context
    # - by to_context or in the ToContext it returns - makes its unit end in a Wait before the next instruction runs
    def with_aw(o):
        return any(st.get('aw', 'none') != 'none' for st in om._steps(o['body']))
    fam = [o for o in om.family(4, 3) if with_aw(o)]
    outl = om.sample(fam, 400 if tier == 'quick' else 4000, seed)
    r = outline_check.model_and_replay('C10_outl', outl, om.oracles(3), invariants=['C09_Prefix', 'C09_Finished'], medium='copy')
    oviol = 0
    if r['tlc'].violated or not r['tlc'].ok:
        raise tlc.MachineryError('Outline model: %s\n%s' % (r['tlc'].violated, r['tlc'].out[-2000:]))
    for key, why, got in r['mismatches'][:5]:
        oi, ri, ci = key
        path = core_check.write_replay(PID, 'outline', {'kind': 'outline-mismatch', 'outline': outl[oi - 1], 'oracle': om.oracles(3)[ri - 1], 'crash_at': [],
                                                        'medium': 'copy', 'why': why, 'expected_units': r['expected'][key][0],
                                                        'expected_result': r['expected'][key][1], 'got': got})
        print('MISMATCH outline=%s oracle=%s: %s' % (json.dumps(outl[oi - 1]), om.oracles(3)[ri - 1], why))
        print('VIOLATION property=%s replay=%s' % (PID, path))
    oviol = len(r['mismatches'])
    return core_check.run_check(
        PID, tier, seed, mc, rp, extra_violations=oviol,
        extra_cov={'outline_runs': [{'instance': 'C10_outl', 'outlines': len(outl), 'behaviours': r['behaviours'], 'mismatches': oviol}],
                   'outline_states': r['tlc'].distinct, 'outline_behaviours_on_impl': r['behaviours']},
        level_text='TLC exhaustive over completion orders/outcomes/groupings + replay on real WorkChains (futures and launched children)',
        assumptions=C.ASSUMPTIONS + ['awaited items: plain loop futures completed by the environment, and real child processes launched by the step '
                                     '(Process.launch) that the environment resumes / fails / kills; outcomes ok / failing / killed',
                                     'outline steps are synchronous (plumpy calls them without awaiting)'],
        rule='n <= 3 awaited items x registration by returning ToContext or calling to_context x outcome {ok, fails, killed} x every completion '
             'order and every grouping of completions into loop iterations x pause/play(/kill) placements; a later step re-assigning a key')


def replay(path):
    if json.load(open(path)).get('kind') == 'outline-mismatch':
        from . import c08
        return c08.replay(path)
    return core_check.replay_file(path)
