"""C16 - remote control equals direct control; each transition announced once, in order."""
from .. import core_check, core_model
from . import core_cfg as C

PID = 'C16'
INV = ['C16_AnnouncedOnceInOrder', 'C16_Unsubscribed', 'C16_Reply']
FINV = ['C16_BroadcastFaultTolerated', 'C16_OneAnnouncementLost', 'C03_UserFault', 'C03_CtorFault', 'C03_NoHalf']
OV = [('WithComm', 'TRUE')]


def bcast_fault_plans(occs):
    pe = core_model.plan_entry
    return [[]] + [[pe('bcast', o, 'fault', kind)] for o in occs
                   for kind in ('ConnectionClosed', 'ChannelInvalidStateError', 'TimeoutError', 'X')]


def run(tier, seed):
    msgs = ['rpc', 'bcast']
    mixed = ['rpc', 'bcast', 'kill', 'pause', 'play', 'resume']
    rk = {'comm': True}
    fk = dict(base='ProcessFaults', spec='FSpec')
    down = core_model.family(['P12', 'P02'], out_missing=['P12', 'P02'])      # FINISHED reached through the StateEntryFailed downgrade
    # a process closed by hand keeps announcing the transitions it still makes (and is unsubscribed from then on)
    closed = dict(name='C16_closed', progs=C.fam(['P01', 'P03', 'P04'] if tier == 'quick' else C.ALL), plans=[[]],
                  alphabet=['close', 'kill', 'fail', 'rpc'], k=2 if tier == 'quick' else 3, overrides=OV)
    if tier == 'quick':
        mc = [dict(name='C16_msgs', progs=C.fam(['P01', 'P03', 'P04', 'P05', 'P07', 'P08', 'P09', 'P12']), plans=[[]], alphabet=msgs, k=3, invariants=INV, overrides=OV),
              dict(name='C16_mixed', progs=C.fam(['P03', 'P04', 'P09']), plans=[[]], alphabet=mixed, k=3, invariants=INV, overrides=OV),
              dict(name='C16_bfaults', progs=C.fam(['P02', 'P03', 'P04', 'P07', 'P08']), plans=bcast_fault_plans((1, 2, 3, 4)), alphabet=['rpc', 'kill'], k=1,
                   invariants=FINV, overrides=OV, **fk)]
        rp = [dict(name='C16_msgs', progs=C.fam(['P01', 'P03', 'P04', 'P05', 'P07', 'P08', 'P09', 'P12']), plans=[[]], alphabet=msgs, k=2, overrides=OV, run_kw=rk),
              dict(name='C16_mixed', progs=C.fam(['P03', 'P04']), plans=[[]], alphabet=['rpc', 'kill', 'play', 'pause'], k=2, overrides=OV, run_kw=rk),
              dict(name='C16_bfaults', progs=C.fam(['P02', 'P03', 'P04']), plans=bcast_fault_plans((1, 2, 3, 4)), alphabet=['rpc', 'kill'], k=1,
                   overrides=OV, run_kw=rk, **fk),
              dict(name='C16_downgrade', progs=down, plans=[[]], alphabet=msgs, k=2, overrides=OV, run_kw=rk)]
        mc.append(dict(name='C16_downgrade', progs=down, plans=[[]], alphabet=msgs, k=3, invariants=INV, overrides=OV))
    else:
        mc = [dict(name='C16_msgs', progs=C.fam(C.ALL), plans=[[]], alphabet=msgs, k=4, invariants=INV, overrides=OV),
              dict(name='C16_mixed', progs=C.fam(C.ALL), plans=[[]], alphabet=mixed, k=3, invariants=INV, overrides=OV),
              dict(name='C16_bfaults', progs=C.fam(C.ALL), plans=bcast_fault_plans((1, 2, 3, 4, 5)), alphabet=['rpc', 'kill', 'pause', 'play'], k=2,
                   invariants=FINV, overrides=OV, **fk)]
        rp = [dict(name='C16_msgs', progs=C.fam(C.ALL), plans=[[]], alphabet=msgs, k=3, overrides=OV, run_kw=rk),
              dict(name='C16_mixed', progs=C.fam(['P03', 'P04', 'P05']), plans=[[]], alphabet=['rpc', 'bcast', 'kill', 'play'], k=3, overrides=OV, run_kw=rk),
              dict(name='C16_bfaults', progs=C.fam(C.ALL), plans=bcast_fault_plans((1, 2, 3, 4, 5)), alphabet=['rpc', 'kill'], k=1,
                   overrides=OV, run_kw=rk, **fk),
              dict(name='C16_downgrade', progs=down, plans=[[]], alphabet=mixed, k=3, overrides=OV, run_kw=rk)]
        mc.append(dict(name='C16_downgrade', progs=down, plans=[[]], alphabet=mixed, k=3, invariants=INV, overrides=OV))
    # what the communicator does when the process subscribes (construction): a time-out of one subscription is tolerated and must
    # leave the other one alone; anything else propagates from the constructor
    pe = core_model.plan_entry
    subp = [[]] + [[pe(h, 1, 'fault', kind)] for h in ('sub_rpc', 'sub_bc') for kind in ('TimeoutError', 'X')]
    subs = dict(name='C16_subscriptions', progs=C.fam(['P03', 'P04'] if tier == 'quick' else ['P01', 'P03', 'P04', 'P05', 'P08']), plans=subp,
                alphabet=['rpc', 'bcast', 'kill'], k=2 if tier == 'quick' else 3, overrides=OV)
    mc.append(dict(subs, invariants=INV + ['C16_Subscribed', 'C03_Construction']))
    rp.append(dict(subs, run_kw=rk))
    mc.append(dict(closed, invariants=['C16_Unsubscribed', 'C16_Reply']))
    rp.append(dict(closed, run_kw=rk))
    return core_check.run_check(
        PID, tier, seed, mc, rp,
        level_text='TLC exhaustive over message sequences and broadcast faults + replay on a real process with an in-process communicator',
        assumptions=C.ASSUMPTIONS + [
            'RabbitMQ cannot run here: an in-process communicator (kiwipy.LocalCommunicator subclass) delivers RPC and broadcast messages '
            'synchronously; it records state_changed broadcasts and can make broadcast_send raise at a chosen transition',
            'remote = direct: in the specification the handler of a control message applies the SAME operator as the direct call at the moment the '
            'handler runs; conformance (state, replies, event log after every callback) is what makes this a statement about the code',
            'the LoopCommunicator / convert_to_comm adapters are covered by C20 (module Adapters)'],
        rule='every sequence of <=K control messages (RPC pause/play/kill/status/unknown intent, broadcast pause/play/kill/other) delivered between '
             'any two callbacks, also mixed with direct calls; every transition index x broadcast failure kind {closed, invalid channel, timeout, other}')


def replay(path):
    return core_check.replay_file(path)
