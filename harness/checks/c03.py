"""C03 - a failure in user code ends the process EXCEPTED, never half-transitioned (fault enumeration on the model)."""
import logging

from .. import core_check, core_model, core_real
from . import core_cfg as C

PID = 'C03'
USER = ['step', 'on_run', 'on_wait', 'on_finish', 'on_except', 'on_kill', 'on_running', 'on_waiting', 'on_finished',
        'on_excepted', 'on_killed', 'on_exit_running', 'on_exit_waiting', 'on_close', 'on_output_emitting',
        'on_output_emitted', 'cb_exiting', 'cb_entering', 'cb_entered', 'on_create']
SILENT = ['L_running', 'L_waiting', 'L_paused', 'L_played', 'L_output', 'L_finished', 'L_excepted', 'L_killed', 'cleanup']
PP = ['on_pausing', 'on_paused', 'on_playing']
INV = ['C03_UserFault', 'C03_CtorFault', 'C03_Construction', 'C03_ListenerFault', 'C03_PausePlayFault', 'C03_NoHalf', 'C03_NothingEscapes']
OV = [('WithComm', 'TRUE')]


def ctor_plans():
    """faults inside the constructor: on_create, and the first announcement (tolerated kinds and another one)"""
    pe = core_model.plan_entry
    return [[]] + [[pe('on_create', 1, 'fault', 'X')]] + [[pe('bcast', o, 'fault', kind)] for o in (1, 2)
                                                          for kind in ('ConnectionClosed', 'TimeoutError', 'X')]


def fault_plans(occs):
    pe = core_model.plan_entry
    return [[]] + [[pe(h, o, 'fault', 'X')] for h in USER + SILENT + PP for o in occs]


def constructor_faults():
    """(d) an exception raised during construction propagates to the caller (no process exists)."""
    import plumpy
    logging.disable(logging.CRITICAL)
    from .. import vloop
    vloop.install()
    bad = []
    n = 0
    for where in ('before', 'after'):
        class P(plumpy.Process):
            def on_create(self):
                if where == 'before':
                    raise core_real.Injected('X')
                super().on_create()
                raise core_real.Injected('X')
        n += 1
        try:
            P()
            bad.append('constructor with on_create raising (%s super) returned a process' % where)
        except core_real.Injected as e:
            if e.tag != 'X':
                bad.append('wrong exception')
        except Exception as e:  # noqa
            bad.append('constructor raised %r instead of the injected exception' % (e,))
    return n, bad


def run(tier, seed):
    alpha = ['kill', 'pause', 'play', 'resume', 'cbraise']
    kw = dict(base='ProcessFaults', spec='FSpec')
    scen = ['P02', 'P03', 'P04', 'P12', 'P07', 'P08', 'P09', 'P14']
    if tier == 'quick':
        mc = [dict(name='C03_faults', progs=C.fam(scen), plans=fault_plans((1, 2, 3)), alphabet=alpha, k=1, invariants=INV, **kw),
              dict(name='C03_faults2', progs=C.fam(['P03', 'P04', 'P12']), plans=fault_plans((1, 2)), alphabet=['pause', 'play', 'kill'], k=2, invariants=INV, **kw)]
        rp = [dict(name='C03_faults', progs=C.fam(['P03', 'P04', 'P09', 'P12']), plans=fault_plans((1, 2)), alphabet=alpha, k=1, **kw)]
        ctor = dict(name='C03_ctor', progs=C.fam(['P03', 'P12']), plans=ctor_plans(), alphabet=['kill', 'rpc'], k=1, overrides=OV, **kw)
    else:
        mc = [dict(name='C03_faults', progs=C.fam(C.ALL), plans=fault_plans((1, 2, 3)), alphabet=alpha, k=2, invariants=INV, **kw),
              dict(name='C03_faults3', progs=C.fam(['P03', 'P04', 'P12']), plans=fault_plans((1, 2, 3)), alphabet=['pause', 'play', 'kill', 'resume'], k=3, invariants=INV, **kw)]
        rp = [dict(name='C03_faults', progs=C.fam(scen), plans=fault_plans((1, 2, 3)), alphabet=alpha, k=1, **kw),
              dict(name='C03_faults2', progs=C.fam(['P03', 'P04', 'P12']), plans=fault_plans((1, 2)), alphabet=['pause', 'play', 'kill'], k=2, **kw)]
        ctor = dict(name='C03_ctor', progs=C.fam(scen), plans=ctor_plans(), alphabet=['kill', 'rpc', 'pause'], k=2, overrides=OV, **kw)
    # a paused process (its stepping task blocked on the pause gate) that is failed from outside: stepping must still return
    paused = dict(name='C03_paused', progs=C.fam(['P02', 'P03'] if tier == 'quick' else scen), plans=[[]],
                  alphabet=['pause', 'cbraise', 'fail', 'play'], k=2 if tier == 'quick' else 3, **kw)
    mc.append(dict(paused, invariants=INV + ['C02_TaskReturns']))
    rp.append(paused)
    # a pause / play hook that raises, then further pause / play requests: the failed request must leave nothing behind
    pe = core_model.plan_entry
    ppf = dict(name='C03_ppfaults', progs=C.fam(['P04', 'P05'] if tier == 'quick' else ['P03', 'P04', 'P05', 'P14']),
               plans=[[]] + [[pe(h, o, 'fault', 'X')] for h in PP for o in (1, 2)], alphabet=['pause', 'play'] + ([] if tier == 'quick' else ['kill']),
               k=2 if tier == 'quick' else 3, **kw)
    mc.append(dict(ppf, invariants=INV))
    rp.append(ppf)
    mc.append(dict(ctor, invariants=INV))
    rp.append(dict(ctor, run_kw={'comm': True}))
    n, bad = constructor_faults()
    for b in bad:
        path = core_check.write_replay(PID, 'ctor', {'kind': 'constructor-fault', 'what': b})
        print('VIOLATION property=%s replay=%s' % (PID, path))
    return core_check.run_check(
        PID, tier, seed, mc, rp,
        level_text='complete fault enumeration (hook x occurrence x scenario) in the model, every faulty behaviour replayed',
        assumptions=C.ASSUMPTIONS + ['one injected fault per run, raised after the base implementation of the hook has run; '
                                     'exceptions raised BEFORE the base implementation are not enumerated',
                                     'constructor faults (on_create) are checked directly on the implementation: %d cases' % n],
        rule='product of %d hook points x occurrence index x scenario programs x <=K requests; one fault per run; a listener fault is '
             'compared with a twin run in lockstep inside TLC' % len(USER + SILENT + PP),
        level='fault_enumeration', extra_violations=len(bad))


def replay(path):
    return core_check.replay_file(path)
