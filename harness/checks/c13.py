"""C13 - the return value of a step alone decides what happens next, with exact arguments (restore part: module Checkpoint)."""
from .. import core_check, core_model
from . import core_cfg as C

PID = 'C13'
INV = ['C13_Continuation', 'C13_Outcome', 'C06_ResumeValue']
PROP = []


def run(tier, seed):
    ov = [('ResumeVals', 'MCResumeVals')]
    xd = 'MCResumeVals == {"v1", "v0", "NULL"}\n'
    progs = C.ALL + ['P20', 'P21', 'P22', 'P23']
    ppr = ['resume', 'pause', 'play']
    if tier == 'quick':
        mc = [dict(name='C13_resume', progs=C.fam(progs), plans=[[]], alphabet=['resume'], k=3, invariants=INV, overrides=ov, extra_defs=xd),
              dict(name='C13_env', progs=C.fam(progs), plans=[[]], alphabet=ppr, k=3, invariants=INV[:1] + INV[2:], overrides=ov, extra_defs=xd)]
        rp = [dict(name='C13_resume', progs=C.fam(progs), plans=[[]], alphabet=['resume'], k=3, overrides=ov, extra_defs=xd),
              dict(name='C13_env', progs=C.fam(['P04', 'P14', 'P20', 'P21', 'P22']), plans=[[]], alphabet=ppr, k=2, overrides=ov, extra_defs=xd)]
    else:
        mc = [dict(name='C13_resume', progs=C.fam(progs), plans=[[]], alphabet=['resume'], k=5, invariants=INV, overrides=ov, extra_defs=xd),
              dict(name='C13_env', progs=C.fam(progs), plans=[[]], alphabet=ppr, k=5, invariants=INV[:1] + INV[2:], overrides=ov, extra_defs=xd)]
        rp = [dict(name='C13_resume', progs=C.fam(progs), plans=[[]], alphabet=['resume'], k=4, overrides=ov, extra_defs=xd),
              dict(name='C13_env', progs=C.fam(progs), plans=[[]], alphabet=ppr, k=3, overrides=ov, extra_defs=xd)]
    return core_check.run_check(
        PID, tier, seed, mc, rp,
        level_text='TLC exhaustive + replay of every behaviour of the dumped state graphs into the real Process',
        assumptions=C.ASSUMPTIONS + ['generated continuation functions record (args, kwargs) exactly as received; values are small ints / None / short strings'],
        rule='every program of the family incl. chains with positional and keyword arguments, resume values {1, 0, none}; expected (function, args, kwargs) derived from the returned command')


def replay(path):
    return core_check.replay_file(path)
