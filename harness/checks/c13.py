"""C13 - the return value of a step alone decides what happens next, with exact arguments, also across a checkpoint restore."""
from .. import core_check, core_model
from . import core_cfg as C

PID = 'C13'
INV = ['C13_Continuation', 'C13_Outcome', 'C06_ResumeValue']
PROP = []


def run(tier, seed):
    ov = [('ResumeVals', 'MCResumeVals')]
    xd = 'MCResumeVals == {"v1", "v0", "NULL", "-"}\n'          # resume(1), resume(0), resume(), resume(None)
    progs = C.ALL + ['P20', 'P21', 'P22', 'P23', 'P24']
    ppr = ['resume', 'pause', 'play']
    pe = core_model.plan_entry
    pfault = [[]] + [[pe(h, o, 'fault', 'X')] for h in ('on_pausing', 'on_paused', 'on_playing') for o in (1, 2)]
    saves = [[]] + [[pe('cb_entered', o, 'save')] for o in (1, 2, 3)]
    # checkpoints written while the command of a step is being obeyed (exit / entering phase: the old RUNNING state is still
    # current, so the restored process runs that step again - not a step boundary: conformance only, no C08 invariant)
    saves_mid = [[]] + [[pe(h, o, 'save')] for h in ('on_exit_running', 'cb_exiting', 'on_wait', 'cb_entering') for o in (1, 2)]
    rkn = {'medium': 'none', 'listener': False}
    # a pause requested by user code while the Wait command is being obeyed (before, during and after the state switch)
    hp = core_check.reentrant_plans(['on_wait', 'on_exit_running', 'cb_entering', 'cb_exiting', 'on_waiting', 'cb_entered'], [('pause', 'p2')], occs=(1, 2))
    if tier == 'quick':
        mc = [dict(name='C13_resume', progs=C.fam(progs), plans=[[]], alphabet=['resume'], k=3, invariants=INV, overrides=ov, extra_defs=xd),
              dict(name='C13_env', progs=C.fam(progs), plans=[[]], alphabet=ppr, k=3, invariants=INV[:1] + INV[2:], overrides=ov, extra_defs=xd)]
        rp = [dict(name='C13_resume', progs=C.fam(progs), plans=[[]], alphabet=['resume'], k=3, overrides=ov, extra_defs=xd),
              dict(name='C13_env', progs=C.fam(['P04', 'P14', 'P20', 'P21', 'P22']), plans=[[]], alphabet=ppr, k=2, overrides=ov, extra_defs=xd),
              dict(name='C13_pausefault', progs=C.fam(['P04', 'P14', 'P22']), plans=pfault, alphabet=['pause', 'play'], k=2),
              dict(name='C13_restore', progs=C.fam(['P04', 'P20', 'P24']), plans=saves, alphabet=['restore'], k=1, run_kw=rkn),
              dict(name='C13_restore_mid', progs=C.fam(['P01', 'P03', 'P04', 'P06', 'P07', 'P20']), plans=saves_mid, alphabet=['restore', 'resume'], k=2,
                   run_kw={'medium': 'pickle', 'listener': False}),
              dict(name='C13_wake', progs=C.fam(['P03', 'P21']), plans=[[]], alphabet=ppr, k=3),
              dict(name='C13_hookpause', progs=C.fam(['P03', 'P21', 'P22']), plans=hp, alphabet=['play', 'resume'], k=2)]
        mc.append(dict(name='C13_hookpause', progs=C.fam(['P03', 'P21', 'P22']), plans=hp, alphabet=['play', 'resume'], k=3, invariants=INV[:1] + INV[2:]))
        mc.append(dict(name='C13_pausefault', progs=C.fam(['P04', 'P14', 'P22']), plans=pfault, alphabet=['pause', 'play'], k=2, invariants=INV[:1]))
        mc.append(dict(name='C13_restore', progs=C.fam(progs), plans=saves, alphabet=['save', 'restore', 'resume'], k=3, invariants=INV[:1] + ['C08_Equivalent']))
    else:
        mc = [dict(name='C13_resume', progs=C.fam(progs), plans=[[]], alphabet=['resume'], k=5, invariants=INV, overrides=ov, extra_defs=xd),
              dict(name='C13_env', progs=C.fam(progs), plans=[[]], alphabet=ppr, k=5, invariants=INV[:1] + INV[2:], overrides=ov, extra_defs=xd)]
        rp = [dict(name='C13_resume', progs=C.fam(progs), plans=[[]], alphabet=['resume'], k=4, overrides=ov, extra_defs=xd),
              dict(name='C13_env', progs=C.fam(progs), plans=[[]], alphabet=ppr, k=3, overrides=ov, extra_defs=xd),
              dict(name='C13_pausefault', progs=C.fam(['P04', 'P14', 'P20', 'P22']), plans=pfault, alphabet=['pause', 'play', 'resume'], k=3),
              dict(name='C13_restore', progs=C.fam(progs), plans=saves, alphabet=['restore', 'resume'], k=2, run_kw=rkn,
                   overrides=[('MaxRestores', 'MCMaxRestores')], extra_defs='MCMaxRestores == 1\n'),
              # (not P24: its steps consume their mutable arguments in place, which a checkpoint written after the step ran - and before
              #  the state changed - rightly shows)
              dict(name='C13_restore_mid', progs=C.fam([p for p in progs if p != 'P24']), plans=saves_mid, alphabet=['restore', 'resume'], k=3, run_kw={'medium': 'pickle', 'listener': False}),
              dict(name='C13_hookpause', progs=C.fam(['P03', 'P06', 'P10', 'P13', 'P21', 'P22']), plans=hp, alphabet=['play', 'resume', 'pause'], k=3)]
        mc.append(dict(name='C13_hookpause', progs=C.fam(['P03', 'P06', 'P10', 'P13', 'P21', 'P22']), plans=hp, alphabet=['play', 'resume', 'pause'], k=4, invariants=INV[:1] + INV[2:]))
        mc.append(dict(name='C13_pausefault', progs=C.fam(progs), plans=pfault, alphabet=['pause', 'play', 'resume'], k=3, invariants=INV[:1]))
        mc.append(dict(name='C13_restore', progs=C.fam(progs), plans=saves, alphabet=['save', 'restore', 'resume'], k=4, invariants=INV[:1] + ['C08_Equivalent']))
    return core_check.run_check(
        PID, tier, seed, mc, rp,
        level_text='TLC exhaustive + replay of every behaviour of the dumped state graphs into the real Process',
        assumptions=C.ASSUMPTIONS + ['generated continuation functions record (args, kwargs) exactly as received; values are small ints / None / short strings'],
        rule='every program of the family incl. chains with positional and keyword arguments, resume values {1, 0, none}; expected (function, args, kwargs) derived from the returned command')


def replay(path):
    return core_check.replay_file(path)
