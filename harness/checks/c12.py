"""C12 - outputs are stored only if valid; success requires spec-conforming outputs (spec/Ports.tla, part 4/5)."""
from .. import ports_check

PID = 'C12'


def run(tier, seed):
    return ports_check.run(PID, tier, seed)


def replay(path):
    return ports_check.replay_file(path)
