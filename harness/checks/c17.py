"""C17 - launcher tasks do what they say or are rejected (spec/Launcher.tla).

(1) TLC explores every history of <=K tasks (create / launch / continue / unknown type x persist x nowait x tag {None, t} x
    process class {Fin, Exc, Wait; Late: finishes, then fails in on_finished, so that its future is replaced; Chain: a WorkChain
    whose context - a saved member - changes while it runs; Opt: its only input port is optional and has no default, so that
    constructed without arguments its parsed inputs - a saved member the user code reads - are the EMPTY mapping}) interleaved with turns of the event loop, resumes and checkpoints taken by the environment,
    for every configuration (persister: none / InMemory / Pickle; loader: default / custom, its aliases known to the configured
    instance only; launcher built with / without a caller-supplied load_context; constructor-argument style), and checks
    the operational mirror of ProcessLauncher against the declarative properties CreateOK, LaunchOK, ContinueOK, NowaitReply,
    WaitingReply, FutureIsOutcome, RejectOK, LoaderUsed, ...;
(2) state graphs are dumped and EVERY maximal behaviour is replayed on the real ProcessLauncher on the single-stepping loop
    (harness/launcher_real.py): half of them by calling the launcher directly, the others through
    controller -> in-process communicator wrapped by LoopCommunicator -> launcher as task subscriber (RemoteProcessController and
    RemoteProcessThreadController, create+continue pairs also as one execute_process call).  After every action the reply
    futures, the persister content (state, parsed inputs, outputs, context and error of the process each checkpoint describes), the
    processes with their parsed inputs, step traces, contexts and errors, and the loader log are compared with the specification.
"""
import collections
import concurrent.futures
import json
import multiprocessing
import os
import random
import re
import time

from .. import evidence, findings, tlaval, tlc

PID = 'C17'
VERIF = os.path.dirname(os.path.dirname(os.path.dirname(os.path.abspath(__file__))))

# repairs present in /repo (identifiers of spec/Launcher.tla); none so far
FIXES = []

INVS = ['TypeOK', 'NoUnlistedDeviation', 'CreatedNeverRuns', 'StartedFromSnapshot', 'InputsKept', 'ReachTermination', 'FutureIsOutcome', 'WaitingReply', 'LoaderUsed',
        'NoLoaderFailure']
PROPS = ['RejectOK', 'CreateOK', 'LaunchOK', 'ContinueOK', 'NowaitReply', 'RepliesStable', 'LoopNeverPersists']

BASES = [dict(hasP=False, kind='none', loader='default'), dict(hasP=False, kind='none', loader='custom'),
         dict(hasP=True, kind='mem', loader='default'), dict(hasP=True, kind='mem', loader='custom'),
         dict(hasP=True, kind='pickle', loader='default'), dict(hasP=True, kind='pickle', loader='custom')]
ARGS = ['none', 'pos', 'kw', 'bad']
OLD_CLASSES = ['Fin', 'Exc', 'Wait']
# Late: FINISHED, then on_finished raises -> EXCEPTED with a replaced process future; Chain: WorkChain with working data in self.ctx
NEW_CLASSES = ['Late', 'Chain']
# Opt: the only input port is optional and has no default: with the argument style 'none' the parsed inputs are the empty mapping
OPT_CLASSES = ['Opt']
ALL_CLASSES = OLD_CLASSES + NEW_CLASSES

ASSUMPTIONS = [
    'process classes: Fin (emits outputs and finishes), Exc (raises), Wait (waits for resume(), then finishes), Late (finishes, then '
    'raises in on_finished: ends EXCEPTED with a replaced future), Chain (WorkChain, outline of two steps, working data in self.ctx), '
    'Opt (input port v optional and without default - every other class declares it with default 0 -, run reads self.inputs.get and '
    "'v' in self.inputs); "
    'the quick tier explores histories over {Fin, Exc, Wait}, over {Late, Chain} and over {Opt} separately, the thorough tier also '
    'mixed ones ({Opt, Wait} with three tasks, {Opt, Fin, Chain} with two saves, {Opt, Exc, Late} replayed); '
    'constructor arguments '
    'inputs={v: 7} positionally / by keyword / absent / invalid (one style per history)',
    'configurations are consistent: the InMemoryPersister gets the launcher\'s loader, the sender identifies classes with the same '
    'loader, the custom loader extends DefaultObjectLoader and keeps its aliases in a per-instance table (PicklePersister has no loader parameter: its bundles carry default names)',
    'the broker is replaced by an in-process communicator with kiwipy.rmq conventions (delivery future -> outcome future, a '
    'TaskRejected anywhere in the chain of futures passes the task on; nobody left = TaskRejected outcome); no_reply is not explored',
    'a turn of the loop is atomic (everything ready runs); resume() is followed by a turn of the loop; which exception class a missing '
    'checkpoint raises is C14\'s business (KeyError / FileNotFoundError / PersistenceError all count as NoCheckpoint)',
    'checkpoints are looked into by recreating the process they describe from a pickled copy of the stored bundle, after every '
    'action (so a checkpoint that changes without having been written again is seen)',
]


def fixes():
    env = os.environ.get('VERIF_C17_FIXES')
    if env is None:
        return list(FIXES)
    return [f for f in re.split(r'[,\s]+', env.strip()) if f]


def configs(bases, args, ctxs=(False,)):
    """ctxs: values of 'the launcher is constructed with a caller-supplied load_context'."""
    return [dict(b, arg=a, ctx=c) for b in bases for a in args for c in ctxs]


def mc(name, cfgs, k, saves, classes, fx, known, check=True):
    tla = '---- MODULE %s ----\nEXTENDS Launcher\nMCConfigs == %s\n====\n' % (
        name, '{' + ', '.join(tlaval.emit(c) for c in cfgs) + '}')
    cfg = ('SPECIFICATION Spec\nCHECK_DEADLOCK FALSE\nCONSTANTS\n MaxTasks = %d\n MaxSaves = %d\n Classes = %s\n Fixes = %s\n Known = %s\n'
           ' Configs <- MCConfigs\n' % (k, saves, tlaval.emit(set(classes)), tlaval.emit(set(fx)), tlaval.emit(set(known))))
    if check:
        cfg += ''.join('INVARIANT %s\n' % i for i in INVS) + ''.join('PROPERTY %s\n' % p for p in PROPS)
    return tla, cfg


# ---- replay files ----------------------------------------------------------------------------------------------
_COUNTER = [0]


def write_replay(kind, payload):
    d = os.path.join(VERIF, 'evidence', 'replays')
    os.makedirs(d, exist_ok=True)
    _COUNTER[0] += 1
    path = os.path.join(d, '%s_%s_%d_%d.json' % (PID, kind, os.getpid(), _COUNTER[0]))
    with open(path, 'w') as fh:
        json.dump(payload, fh, indent=1, default=str)
    return path


def plain(S):
    """A parsed TLC state -> JSON-able (the store function becomes a list of [[pid, tag], snapshot])."""
    out = dict(S)
    st = S['store']
    out['store'] = sorted([[list(k), v] for k, v in st.items()], key=repr) if isinstance(st, dict) else []
    out['dev'] = sorted(S['dev'])
    return out


def unplain(S):
    out = dict(S)
    out['store'] = {tuple(k): v for k, v in S['store']}
    return out


def describe(states):
    acts = []
    for S in states[1:]:
        last = S['last']
        if last['op'] == 'task':
            t = S['tasks'][last['i'] - 1]
            if t['type'] == 'continue':
                acts.append('continue(pid=%s, tag=%s, nowait=%s)' % (t['pid'], t['tag'], t['nowait']))
            elif t['type'] == 'launch':
                acts.append('launch(%s, persist=%s, nowait=%s)' % (t['cls'], t['persist'], t['nowait']))
            elif t['type'] == 'create':
                acts.append('create(%s, persist=%s)' % (t['cls'], t['persist']))
            else:
                acts.append('unknown-type')
        elif last['op'] == 'save':
            acts.append('save(instance %d, tag=%s)' % (last['i'], last['g']))
        elif last['op'] == 'resume':
            acts.append('resume(instance %d)' % last['i'])
        else:
            acts.append('runloop')
    return acts


# ---- state graph ---------------------------------------------------------------------------------------------
_NODE = re.compile(r'^(-?\d+) \[label="((?:[^"\\]|\\.)*)"(,style = filled)?')
_EDGE = re.compile(r'^(-?\d+) -> (-?\d+) ')
_G = {}


def load_graph(dot):
    """-> raw node labels (parsed on demand by the replay workers), successor lists, initial nodes."""
    labels, succ, inits = {}, collections.defaultdict(list), []
    with open(dot) as fh:
        for line in fh:
            m = _EDGE.match(line)
            if m:
                if m.group(1) != m.group(2):
                    succ[m.group(1)].append(m.group(2))
                continue
            m = _NODE.match(line)
            if m:
                labels[m.group(1)] = m.group(2)
                if m.group(3):
                    inits.append(m.group(1))
    for k in succ:
        succ[k] = sorted(set(succ[k]))
    return labels, succ, sorted(inits)


def state_of(n):
    """The S record of node n (parsed once per worker)."""
    cache = _G['cache']
    S = cache.get(n)
    if S is None:
        lab = _G['labels'][n].replace('\\n', '\n').replace('\\"', '"').replace('\\\\', '\\')
        S = cache[n] = tlaval.parse_state(lab)['S']
        if len(cache) > 20000:
            for k in list(cache)[:10000]:
                del cache[k]
    return S


def maximal_paths(succ, init):
    out = []
    stack = [(init, (init,))]
    while stack:
        n, p = stack.pop()
        nx = succ.get(n)
        if not nx:
            out.append(p)
            continue
        for m in nx:
            stack.append((m, p + (m,)))
    return out


def cover_paths(succ, inits, rng):
    """Paths from an initial node to a maximal node such that every transition of the graph is on at least one of them."""
    pred = collections.defaultdict(list)
    for a, bs in succ.items():
        for b in bs:
            pred[b].append(a)
    depth, frontier = {i: 0 for i in inits}, list(inits)
    while frontier:
        nxt = []
        for a in frontier:
            for b in succ.get(a, ()):
                if b not in depth:
                    depth[b] = depth[a] + 1
                    nxt.append(b)
        frontier = nxt
    covered = set()
    paths = []
    edges = [(a, b) for a, bs in succ.items() for b in bs]
    rng.shuffle(edges)
    edges.sort(key=lambda e: -depth[e[1]])
    for a, b in edges:
        if (a, b) in covered:
            continue
        back = [a]
        while pred[back[-1]]:
            ps = pred[back[-1]]
            fresh = [q for q in ps if (q, back[-1]) not in covered]
            back.append(rng.choice(fresh or ps))
        back.reverse()
        p = back + [b]
        while succ.get(p[-1]):
            cand = succ[p[-1]]
            fresh = [c for c in cand if (p[-1], c) not in covered]
            p.append(rng.choice(fresh or cand))
        covered.update(zip(p, p[1:]))
        paths.append(tuple(p))
    return paths


ROUTES = ['direct', 'direct', 'coro', 'thread']


def route_of(idx, seed):
    r = random.Random(idx * 1000003 + seed)
    return ROUTES[r.randrange(len(ROUTES))], r.random() < 0.5


def _replay_chunk(args):
    import logging
    logging.disable(logging.CRITICAL)
    from .. import launcher_real
    seed, items = args
    bad, nontrivial, by_route, devs, longest = [], 0, collections.Counter(), set(), None
    for idx, path in items:
        states = [state_of(n) for n in path]
        route, use_exec = route_of(idx, seed)
        by_route[route] += 1
        fin = states[-1]
        if len(fin['procs']) > 0:
            nontrivial += 1
        devs |= set(fin['dev'])
        r = launcher_real.replay_states(states, route, use_exec)
        if r:
            r.update(route=route, use_execute=use_exec, states=[plain(s) for s in states])
            bad.append(r)
        if longest is None or len(path) > len(longest[0]):
            longest = (path, route, use_exec)
    sample = None
    if longest:
        states = [state_of(n) for n in longest[0]]
        sample = {'configuration': dict(states[0]['cfg']), 'route': longest[1], 'execute_process_for_create_continue': longest[2],
                  'actions': describe(states), 'final_replies': launcher_real.project_model(states[-1])['replies'],
                  'final_store': launcher_real.project_model(states[-1])['store']}
    return bad, nontrivial, dict(by_route), sorted(devs), sample


def graph_replay(name, cfgs, k, saves, classes, fx, known, seed, procs, cover=False):
    tla, cfg = mc(name, cfgs, k, saves, classes, fx, known, check=False)
    t0 = time.time()
    with tlc.Workdir() as wd:
        wd.write(name + '.tla', tla)
        wd.write(name + '.cfg', cfg)
        dot = os.path.join(wd.path, 'graph')
        res = tlc.run(wd, name + '.tla', name + '.cfg', args=['-dump', 'dot,actionlabels', dot])
        if not res.ok:
            raise tlc.MachineryError('TLC did not complete on %s:\n%s' % (name, res.out[-3000:]))
        t1 = time.time()
        labels, succ, inits = load_graph(dot + '.dot')
    t2 = time.time()
    if cover:
        paths = cover_paths(succ, inits, random.Random(seed))
    else:
        paths = []
        for i in inits:
            paths.extend(maximal_paths(succ, i))
    t3 = time.time()
    items = list(enumerate(paths))
    n = max(1, len(items) // (procs * 8))
    jobs = [(seed, items[i:i + n]) for i in range(0, len(items), n)]
    _G['labels'] = labels
    _G['cache'] = {}
    bad, nontrivial, by_route, devs, samples = [], 0, collections.Counter(), set(), []
    ctx = multiprocessing.get_context('fork')
    with ctx.Pool(procs) as pool:
        for b, nt, br, dv, sm in pool.imap_unordered(_replay_chunk, jobs):
            bad.extend(b)
            nontrivial += nt
            by_route.update(br)
            devs |= set(dv)
            if sm and len(samples) < 3 and len(sm['actions']) >= max([len(s['actions']) for s in samples] or [0]):
                samples.append(sm)
    _G.clear()
    return {'name': name, 'states': len(labels), 'transitions': sum(len(v) for v in succ.values()), 'generated': res.generated,
            'paths': len(paths), 'bad': bad, 'nontrivial': nontrivial, 'by_route': dict(by_route), 'devs': devs, 'samples': samples[-2:],
            'tlc_s': t1 - t0, 'parse_s': t2 - t1, 'paths_s': t3 - t2, 'replay_s': time.time() - t3,
            'selection': 'every transition of the graph on at least one behaviour' if cover else 'every maximal behaviour', 'K': k, 'configurations': len(cfgs), 'classes': list(classes)}


# ---- the check -----------------------------------------------------------------------------------------------
def run(tier, seed):
    t0 = time.time()
    fx = fixes()
    known = findings.deviations(PID)
    procs = min(16, os.cpu_count() or 1)
    rng = random.Random(seed)
    both = (False, True)
    full = configs(BASES, ARGS, both)
    coin = lambda: (rng.random() < 0.5,)                                   # noqa: E731
    none_d, none_c, mem_d, mem_c, pic_d, pic_c = BASES
    if tier == 'quick':
        mcs = [dict(name='MC_C17_K2', cfgs=full, k=2, saves=1, classes=OLD_CLASSES),
               dict(name='MC_C17_K2_LateChain', cfgs=full, k=2, saves=1, classes=NEW_CLASSES),
               dict(name='MC_C17_K2_Opt', cfgs=full, k=2, saves=1, classes=OPT_CLASSES)]
        # replay: no persister (both loaders), custom loader on both persisters WITH a caller-supplied load context (in-memory:
        # keyword arguments, also without the context; pickle: a seeded argument style), default loader on one seeded persister,
        # invalid arguments on one seeded configuration
        sel = (configs([none_d], ['kw'], coin()) + configs([none_c], ['kw'], coin()) + configs([mem_c], ['kw'], both)
               + configs([pic_c], [rng.choice(['kw', 'none', 'pos'])], (True,)) + configs([rng.choice([mem_d, pic_d])], ['kw'], coin())
               + configs(rng.sample(BASES[2:], 1), ['bad'], coin()))
        # the classes with a replaced future / a context: the in-memory persister (it keeps bundles, not bytes) with keyword
        # arguments, the pickle persister and no persister with seeded loader, argument style and load context
        new = (configs([rng.choice([mem_d, mem_c])], ['kw'], coin())
               + configs([rng.choice([pic_d, pic_c])], [rng.choice(['kw', 'none', 'pos'])], coin())
               + configs([rng.choice([none_d, none_c])], [rng.choice(['kw', 'none', 'pos'])], coin()))
        # the class with the optional port: constructed WITHOUT arguments (empty parsed inputs) on both persisters (seeded loader
        # and load context) and without persister, with arguments (seeded style) on one seeded persister
        opt = (configs([rng.choice([mem_d, mem_c])], ['none'], coin()) + configs([rng.choice([pic_d, pic_c])], ['none'], coin())
               + configs([rng.choice([none_d, none_c])], ['none'], coin())
               + configs(rng.sample(BASES[2:], 1), [rng.choice(['kw', 'pos'])], coin()))
        rps = [dict(name='MC_C17_dump_K2', cfgs=sel, k=2, saves=1, classes=OLD_CLASSES),
               dict(name='MC_C17_dump_K2_LateChain', cfgs=new, k=2, saves=1, classes=NEW_CLASSES),
               dict(name='MC_C17_dump_K2_Opt', cfgs=opt, k=2, saves=1, classes=OPT_CLASSES)]
    else:
        # K=3: the load-context dimension in full for keyword arguments, seeded for the other argument styles
        k3 = configs(BASES, ['kw'], both) + [c for a in ('none', 'pos', 'bad') for b in BASES for c in configs([b], [a], coin())]
        mcs = [dict(name='MC_C17_K3', cfgs=k3, k=3, saves=1, classes=OLD_CLASSES),
               dict(name='MC_C17_K3_LateChain', cfgs=k3, k=3, saves=1, classes=NEW_CLASSES + ['Wait']),
               dict(name='MC_C17_K2_S2', cfgs=full, k=2, saves=2, classes=ALL_CLASSES),
               # the class with the optional port (empty parsed inputs when constructed without arguments), mixed with the others
               dict(name='MC_C17_K3_Opt', cfgs=k3, k=3, saves=1, classes=OPT_CLASSES + ['Wait']),
               dict(name='MC_C17_K2_S2_Opt', cfgs=full, k=2, saves=2, classes=OPT_CLASSES + ['Fin', 'Chain'])]
        k2 = configs([none_c, mem_c, pic_c], ARGS, both) + [c for b in (none_d, mem_d, pic_d) for a in ARGS for c in configs([b], [a], coin())]
        rps = [dict(name='MC_C17_dump_K2', cfgs=k2, k=2, saves=1, classes=OLD_CLASSES),
               # three tasks: one seeded configuration with a persister per class family, every transition of the graph covered
               dict(name='MC_C17_dump_K3_Wait', cfgs=configs(rng.sample(BASES[2:], 1), ['kw'], coin()) + configs(BASES[:1], ['bad']),
                    k=3, saves=1, classes=['Wait'], cover=True),
               dict(name='MC_C17_dump_K3_FinExc', cfgs=configs(rng.sample(BASES[2:], 1), ['pos'], coin()), k=3, saves=1,
                    classes=['Fin', 'Exc'], cover=True),
               dict(name='MC_C17_dump_K3_LateChain', cfgs=configs([rng.choice([mem_d, mem_c])], ['kw'], coin()), k=3, saves=1,
                    classes=NEW_CLASSES, cover=True),
               # two tasks over all five classes (histories mixing the families): every base configuration, seeded argument
               # style and load context
               # the optional port: two tasks on every base configuration and argument style (seeded load context), mixed with a
               # class that raises and one that replaces its future; three tasks without arguments on one seeded persister
               dict(name='MC_C17_dump_K2_Opt', cfgs=[c for b in BASES for a in ARGS for c in configs([b], [a], coin())], k=2, saves=1,
                    classes=OPT_CLASSES + ['Exc', 'Late']),
               dict(name='MC_C17_dump_K3_Opt', cfgs=configs(rng.sample(BASES[2:], 1), ['none'], coin()), k=3, saves=1,
                    classes=OPT_CLASSES, cover=True),
               dict(name='MC_C17_dump_K2_all', cfgs=[c for b in BASES for c in configs([b], [rng.choice(ARGS[:3])], coin())], k=2,
                    saves=1, classes=ALL_CLASSES)]

    def model_check(m):
        tla, cfg = mc(m['name'], m['cfgs'], m['k'], m['saves'], m['classes'], fx, known)
        with tlc.Workdir() as wd:
            wd.write(m['name'] + '.tla', tla)
            wd.write(m['name'] + '.cfg', cfg)
            return tlc.run(wd, m['name'] + '.tla', m['name'] + '.cfg', timeout=3000, heap='12g', workers=max(2, procs // 2) if tier == 'quick' else None)

    # the model-checking runs proceed one after the other; in the quick tier (small state spaces) in the background, while the
    # state graphs are dumped and replayed; in the thorough tier (10^7 states, 12g heap) they finish first
    mc_pool = concurrent.futures.ThreadPoolExecutor(max_workers=1)
    mc_jobs = [mc_pool.submit(model_check, m) for m in mcs]
    mc_pool.shutdown(wait=False)
    if tier != 'quick':
        concurrent.futures.wait(mc_jobs)
        for job in mc_jobs:
            job.result()            # a machinery failure is reported at once

    violations = 0
    replayed = nontrivial = 0
    devs = set()
    samples, rp_summ = [], []
    by_route = collections.Counter()
    for r in rps:
        g = graph_replay(r['name'], r['cfgs'], r['k'], r['saves'], r['classes'], fx, known, seed, procs, r.get('cover', False))
        replayed += g['paths']
        nontrivial += g['nontrivial']
        devs |= g['devs']
        by_route.update(g['by_route'])
        samples.extend(g['samples'])
        rp_summ.append({k: (round(v, 1) if isinstance(v, float) else v) for k, v in g.items() if k not in ('bad', 'devs', 'samples')}
                       | {'divergent': len(g['bad'])})
        for d in g['bad'][:5]:
            st = d['states']
            path = write_replay('divergence', {'kind': 'replay-divergence', 'fixes': fx, 'route': d['route'], 'use_execute': d['use_execute'],
                                               'configuration': st[0]['cfg'], 'actions': describe(st), 'at': d['at'], 'diffs': d['diffs'],
                                               'states': st})
            print('DIVERGENCE cfg=%s route=%s after %s: %s' % (dict(st[0]['cfg']), d['route'], describe(st)[:d['at']],
                                                               json.dumps(d['diffs'][:2], default=str)[:600]))
            print('VIOLATION property=%s replay=%s' % (PID, path))
        violations += len(g['bad'])
    states = transitions = 0
    mc_summ = []
    for m, job in zip(mcs, mc_jobs):
        res = job.result()
        states += res.distinct
        transitions += res.generated
        mc_summ.append({'instance': m['name'], 'K': m['k'], 'saves': m['saves'], 'configurations': len(m['cfgs']), 'classes': m['classes'],
                        'distinct_states': res.distinct, 'states_generated': res.generated, 'depth': res.depth,
                        'checked': INVS + PROPS, 'violated': res.violated, 'wall_s': round(res.wall, 1)})
        if res.violated:
            tr = res.trace()
            path = write_replay('tlc', {'kind': 'tlc-counterexample', 'violated': res.violated, 'instance': m['name'], 'fixes': fx,
                                        'known': known, 'trace': [{'action': a, 'state': s} for a, s in tr]})
            print('TLC: %s violated in %s (Fixes=%s, Known=%s)' % (res.violated, m['name'], fx, known))
            print('VIOLATION property=%s replay=%s' % (PID, path))
            violations += 1
        elif not res.ok:
            raise tlc.MachineryError('TLC did not complete on %s:\n%s' % (m['name'], res.out[-3000:]))
    unlisted = sorted(d for d in devs if d not in known)
    findings.print_known(PID, devs)
    cov = {
        'states': max(states, 1), 'transitions': max(transitions, 1), 'traces_validated_against_impl': replayed,
        'samples': samples or [{'note': 'no behaviour replayed'}], 'evaluations': replayed, 'distinct_nontrivial': nontrivial,
        'rule': 'a behaviour is one maximal path of a dumped TLC state graph: a configuration and <=K tasks from create/launch/continue/'
                'unknown x persist x nowait x tag {None,t} x class (quick: the families {Fin,Exc,Wait}, {Late,Chain} and {Opt} in separate graphs), interleaved with runloop / resume / save(instance, tag) (<=1 save); '
                'every maximal path of the K=2 graphs (thorough: also of a K=2 graph over the five classes with a defaulted port and one over {Opt,Exc,Late}, plus paths covering every transition of the K=3 graphs of four seeded '
                'configurations) is replayed once on a seeded route (direct call or controller->LoopCommunicator->launcher); non-trivial = at least one task constructed or recreated a process; behaviours are '
                'distinct paths',
        'exhaustive': True, 'model_checking': mc_summ, 'replay': rp_summ, 'replayed_by_route': dict(by_route),
        'fixes_modelled': fx, 'known_deviations': known, 'deviation_clauses_exercised': sorted(devs), 'unlisted_deviations': unlisted,
    }
    evidence.write(PID, tier, seed, 'model_checking', cov, time.time() - t0, violations, ASSUMPTIONS)
    print('C17: TLC %d states (%s); %d behaviours replayed on the implementation (%s), %d non-trivial, %d divergent' % (
        states, ', '.join('%s: %d' % (m['instance'], m['distinct_states']) for m in mc_summ), replayed,
        ', '.join('%s %d' % kv for kv in sorted(by_route.items())), nontrivial, violations))
    return 1 if violations else 0


def replay(path):
    """./check C17 --replay <file>: re-run a recorded divergence against the real launcher, action by action."""
    import logging
    logging.disable(logging.CRITICAL)
    from .. import launcher_real
    rec = json.load(open(path))
    if rec.get('kind') != 'replay-divergence':
        print(json.dumps(rec, indent=1)[:6000])
        return 1
    states = [unplain(s) for s in rec['states']]
    print('configuration:', rec['configuration'], 'route:', rec['route'], 'execute_process:', rec['use_execute'])
    print('actions:', rec['actions'])
    r = launcher_real.replay_states(states, rec['route'], rec['use_execute'], verbose=True)
    if r is None:
        print('no divergence: the implementation now agrees with the specification on this behaviour')
        return 0
    print('diverges at action %d (%s):' % (r['at'], rec['actions'][r['at'] - 1] if r['at'] <= len(rec['actions']) else '?'))
    for f, want, got in r['diffs']:
        print('  %s\n    specification : %s\n    implementation: %s' % (f, want, got))
    return 1
