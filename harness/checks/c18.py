"""C18 - Process.current() is the process whose code is running (spec/Scope.tla)."""
import os

from .. import scope_check

PID = 'C18'
# repairs of C18 defects present in /repo (fix: commits); the specification's repaired clauses are switched on for them
FIXES = ['F18', 'F18c']      # repaired in /repo (fix: lifecycle hooks run inside the process scope)
# not repaired: 'F18c' (the user's own close() runs on_close / the cleanup callbacks in the caller's scope); the scenarios
# that offer close() are switched off in scope_model.MODEL_USER_CLOSE until it is repaired or listed


def fixes():
    v = os.environ.get('VERIF_C18_FIXES')
    if v is None:
        return list(FIXES)
    return [x for x in v.replace(' ', '').split(',') if x]


def run(tier, seed):
    limit = 10000 if tier == 'quick' else 20000
    return scope_check.run_check(tier, seed, fixes(), limit)


def replay(path):
    return scope_check.replay_file(path)
