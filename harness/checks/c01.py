"""C01 - state changes follow the lifecycle graph; terminal states are final."""
from .. import core_check, core_model
from . import core_cfg as C

PID = 'C01'
INV = ['C01_Lifecycle']
PROP = ['C01_TerminalFinal']


def run(tier, seed):
    plans_re = core_check.reentrant_plans(core_check.REENTRANT_HOOKS, C.REQS4)
    allreq = core_model.ALL_REQUESTS
    pe = core_model.plan_entry
    # what the library swallows (a listener or a cleanup callback that raises) opens no way out of a terminal state either
    silent = [[]] + [[pe(h, o, 'fault', 'X')] for h in ('L_finished', 'L_killed', 'L_excepted', 'L_running', 'cleanup') for o in (1, 2)]
    sil = dict(name='C01_swallowed', progs=C.fam(['P01', 'P03', 'P07', 'P08', 'P26'] if tier == 'quick' else C.ALL + ['P26']), plans=silent,
               alphabet=['kill', 'fail', 'cbraise', 'pause', 'play'], k=1 if tier == 'quick' else 2)
    if tier == 'quick':
        mc = [dict(name='C01_env', progs=C.fam(C.ALL), plans=[[]], alphabet=allreq, k=3, invariants=INV, properties=PROP),
              dict(name='C01_reentrant', progs=C.fam(C.SMALL), plans=plans_re, alphabet=allreq, k=1, invariants=INV, properties=PROP)]
        rp = [dict(name='C01_env', progs=C.fam(C.ALL), plans=[[]], alphabet=allreq, k=2),
              dict(name='C01_reentrant', progs=C.fam(['P03', 'P04']), plans=plans_re, alphabet=allreq, k=1)]
    else:
        mc = [dict(name='C01_env', progs=C.fam(C.ALL), plans=[[]], alphabet=allreq, k=4, invariants=INV, properties=PROP),
              dict(name='C01_reentrant', progs=C.fam(C.ALL), plans=plans_re, alphabet=allreq, k=2, invariants=INV, properties=PROP)]
        rp = [dict(name='C01_env', progs=C.fam(C.ALL), plans=[[]], alphabet=allreq, k=3),
              dict(name='C01_reentrant', progs=C.fam(C.SMALL), plans=plans_re, alphabet=allreq, k=1)]
    mc.append(dict(sil, invariants=INV, properties=PROP))
    rp.append(sil)
    return core_check.run_check(
        PID, tier, seed, mc, rp,
        level_text='TLC exhaustive + replay of every behaviour of the dumped state graphs into the real Process',
        assumptions=C.ASSUMPTIONS,
        suite_traces=lambda e: e[0] in ('enter', 'ts', 'te') or (e[0] in ('cs', 'ce') and e[1] != 'kill'),
        rule='every interleaving of <=K requests from {kill,pause,play,resume,fail,cancel-future,call_soon ok/raising} with every program '
             'of the family, requests also after termination; plus one re-entrant request from a step body or listener; a behaviour is '
             'one maximal path of the TLC state graph')


def replay(path):
    return core_check.replay_file(path)
