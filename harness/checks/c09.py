"""C09 - a WorkChain executes its outline as the structured program it denotes."""
import json
import time

from .. import core_check, evidence, findings, outline_check, outline_model as om, tlc

PID = 'C09'
INV = ['C09_Prefix', 'C09_Finished', 'C09_OneStepPerUnit']


def run(tier, seed):
    t0 = time.time()
    if tier == 'quick':
        runs = [('C09_small', om.family(3, 2), om.oracles(3))]
        big = om.sample(om.family(4, 3), 1500, seed)
        runs.append(('C09_sample4', big, om.oracles(4)))
    else:
        runs = [('C09_all4', om.family(4, 3), om.oracles(4)),
                ('C09_sample5', om.sample(om.family(5, 2), 12000, seed), om.oracles(5))]
    violations = 0
    states = gen = replayed = 0
    samples = []
    summ = []
    for name, outlines, oracles in runs:
        r = outline_check.model_and_replay(name, outlines, oracles, invariants=INV, medium='none')      # no checkpoints: aliased step names (outline_real.build_workchain)
        res = r['tlc']
        states += res.distinct
        gen += res.generated
        summ.append({'instance': name, 'outlines': len(outlines), 'oracles': len(oracles), 'distinct_states': res.distinct,
                     'behaviours': r['behaviours'], 'mismatches': len(r['mismatches']), 'tlc_s': round(r['tlc_s'], 1),
                     'replay_s': round(r.get('replay_s', 0), 1)})
        if res.violated:
            tr = res.trace()
            path = core_check.write_replay(PID, 'tlc', {'kind': 'tlc-counterexample', 'violated': res.violated,
                                                        'trace': [{'action': a, 'state': s} for a, s in tr]})
            print('TLC: %s violated (stepper tree does not refine the structured program)' % res.violated)
            print('VIOLATION property=%s replay=%s' % (PID, path))
            violations += 1
            continue
        if not res.ok:
            raise tlc.MachineryError(res.out[-3000:])
        replayed += r['behaviours']
        for key, why, got in r['mismatches'][:5]:
            oi, ri, ci = key
            path = core_check.write_replay(PID, 'outline', {'kind': 'outline-mismatch', 'outline': outlines[oi - 1], 'oracle': oracles[ri - 1],
                                                            'crash_at': [], 'why': why, 'expected_units': r['expected'][key][0],
                                                            'expected_result': r['expected'][key][1], 'got': got})
            print('MISMATCH outline=%s oracle=%s: %s' % (json.dumps(outlines[oi - 1]), oracles[ri - 1], why))
            print('VIOLATION property=%s replay=%s' % (PID, path))
        violations += len(r['mismatches'])
        k = sorted(r['expected'])[len(r['expected']) // 2]
        samples.append({'outline': outlines[k[0] - 1], 'oracle': oracles[k[1] - 1], 'units': r['expected'][k][0], 'result': r['expected'][k][1]})
    findings.print_known(PID, set())
    cov = {'states': max(states, 1), 'transitions': max(gen, 1), 'traces_validated_against_impl': replayed, 'samples': samples,
           'evaluations': replayed, 'distinct_nontrivial': replayed,
           'rule': 'every outline with <=N nodes nested <=D (steps, if_/elif_/else_, while_, return_/return_(code)); for each structure all '
                   'steps returning None and each single step in turn returning 0, 5, False or an empty ToContext; every predicate oracle '
                   'of length P; TLC checks that the stepper tree (small step, one _do_step per RUNNING state) refines BigStep, then each '
                   '(outline, oracle) runs on a generated real WorkChain and the ordered call trace per RUNNING state and result() are compared '
                   'with the TLA+ values; all instances are distinct by construction',
           'exhaustive': tier != 'quick' or None, 'runs': summ}
    if cov['exhaustive'] is None:
        del cov['exhaustive']
    evidence.write(PID, tier, seed, 'model_checking', cov, time.time() - t0, violations,
                   ['predicates answer from a positional oracle kept in ctx; step return values are static per step',
                    'bodies are non-empty (an empty body is a construction error in plumpy)'])
    return 1 if violations else 0


def replay(path):
    import logging
    logging.disable(logging.CRITICAL)
    from .. import outline_real
    rec = json.load(open(path))
    if rec.get('kind') == 'outline-mismatch':
        got = outline_real.run_outline(rec['outline'], rec['oracle'], crash_at=rec.get('crash_at', ()), medium='none')
        print('outline :', json.dumps(rec['outline']))
        print('oracle  :', rec['oracle'])
        print('expected:', rec['expected_units'], rec['expected_result'])
        print('got     :', got)
        return 0 if (got['units'], got['result']) == (rec['expected_units'], rec['expected_result']) else 1
    print(json.dumps(rec, indent=1)[:3000])
    return 1
