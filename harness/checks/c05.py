"""C05 - pause/play is transparent: nothing runs while paused, no step lost or repeated."""
from .. import core_check, core_model
from . import core_cfg as C

PID = 'C05'
INV = ['C05_NoStepWhilePaused', 'C05_NoRaise', 'C05_PlayUnpauses', 'C05_PlayWins', 'C05_StepsPrefix', 'C05_Transparent']
PROP = []


def run(tier, seed):
    alpha = ['pause', 'play', 'resume']
    pp_plans = core_check.reentrant_plans(['step', 'L_running', 'L_waiting'], [('pause', 'p2'), ('play', '-')])
    if tier == 'quick':
        mc = [dict(name='C05_env', progs=C.fam(C.ALL), plans=[[]], alphabet=alpha, k=4, invariants=INV),
              dict(name='C05_reentrant', progs=C.fam(C.ALL), plans=pp_plans, alphabet=alpha, k=2, invariants=INV[:4])]
        rp = [dict(name='C05_env', progs=C.fam(['P03', 'P04', 'P05', 'P12', 'P13', 'P14']), plans=[[]], alphabet=alpha, k=3),
              dict(name='C05_reentrant', progs=C.fam(['P03', 'P04', 'P13']), plans=pp_plans, alphabet=alpha, k=1)]
    else:
        mc = [dict(name='C05_env', progs=C.fam(C.ALL), plans=[[]], alphabet=alpha, k=6, invariants=INV),
              dict(name='C05_reentrant', progs=C.fam(C.ALL), plans=pp_plans, alphabet=alpha, k=3, invariants=INV[:4])]
        rp = [dict(name='C05_env', progs=C.fam(C.ALL), plans=[[]], alphabet=alpha, k=4),
              dict(name='C05_reentrant', progs=C.fam(C.ALL), plans=pp_plans, alphabet=alpha, k=2)]
    return core_check.run_check(
        PID, tier, seed, mc, rp,
        level_text='TLC exhaustive + replay of every behaviour of the dumped state graphs into the real Process',
        assumptions=C.ASSUMPTIONS + ['the reference (uninterrupted) run is computed by the same operators with no pause/play and compared inside TLC; step entries carry the status message and the paused flag sampled at the entry of the real step function'],
        suite_traces=lambda e: e[0] == 'obs' or (e[0] in ('cs', 'ce') and e[1] in ('pause', 'play')),
        rule='every sequence of <=K pause/play/resume requests between any two callbacks (and re-entrant pause/play from step bodies and listeners); executed steps, their arguments, status at entry, outputs and outcome compared with the uninterrupted run')


def replay(path):
    return core_check.replay_file(path)
