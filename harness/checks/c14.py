"""C14 - persisters are a snapshot store keyed by (pid, tag), equivalent to each other (spec/Persister.tla).

(1) TLC explores every history of <=L operations (save/load/list/list-pid/delete/delete-pid/progress of the live process/
    resume of a recreated process) over 2 processes x tags {None, t1, t2} x id kinds (ints, strings, UUIDs, and the falsy
    ids 0 and '' used as pid and as tag next to the absent tag None), the abstract store and both
    implementations in lockstep: refinement invariants, operation contracts, equivalence;
(2) the state graph is dumped and histories covering EVERY (state, operation) pair of the graph (plus random ones) are
    replayed on both real persisters side by side with real processes (harness/persister_real.py): every result, the loaded
    snapshots and a final observation of every key are compared with the specification's values.
"""
import collections
import json
import multiprocessing
import os
import random
import re
import time

from .. import evidence, findings, tlaval, tlc

PID = 'C14'
VERIF = os.path.dirname(os.path.dirname(os.path.dirname(os.path.abspath(__file__))))

# repairs present in /repo (identifiers of spec/Persister.tla: FP1 InMemoryPersister.load_checkpoint returns a private copy,
# FP2 both persisters raise the same exception class when the checkpoint does not exist)
FIXES = ['FP1', 'FP2']      # repaired in /repo: b77924b (FP1), 64a0aad (FP2)
DEVIATIONS = ['D14a', 'D14b']
KINDS = ['int', 'str', 'uuid', 'int0', 'str0']      # int0/str0: ids python treats as false (0, '') as pid and as tag
INVS = ['C14_AbsMem', 'C14_AbsFiles', 'C14_Contract', 'C14_StoreContracts', 'C14_ImplContracts', 'C14_Equivalent', 'C14_FileNames', 'C14_TagPresent']
WHAT = {
    'D14a': 'InMemoryPersister.load_checkpoint returns the stored bundle object and unbundle() hands its mutable members (context '
            'values, arguments of the next step) to the recreated process: the progress of that process rewrites the checkpoint',
    'D14b': 'loading a checkpoint that does not exist raises KeyError from the in-memory persister and FileNotFoundError from the '
            'pickle persister (neither is the documented PersistenceError): the two are not observationally equivalent',
}


def persister_real_falsy():
    from .. import persister_real
    return persister_real.FALSY_KINDS


def fixes():
    env = os.environ.get('VERIF_C14_FIXES')
    if env is None:
        return list(FIXES)
    return [f for f in re.split(r'[,\s]+', env.strip()) if f]


def mc(name, L, kinds, fx, known, invariants=(), names=False):
    from .. import persister_real
    tla = '---- MODULE %s ----\nEXTENDS Persister%s\nMCStr == %s\n%s====\n' % (
        name, ', Json' if names else '', tlaval.emit(persister_real.str_constant(kinds)),
        'ASSUME PrintT(ToJson(<<"names", FileNameTable>>))\n' if names else '')
    cfg = ('SPECIFICATION Spec\nCHECK_DEADLOCK FALSE\nCONSTANTS\n Procs = {"p1", "p2"}\n Tags = {"None", "t1", "t2"}\n L = %d\n'
           ' Kinds = %s\n Str <- MCStr\n Fixes = %s\n Known = %s\n' % (L, tlaval.emit(set(kinds)), tlaval.emit(set(fx)), tlaval.emit(set(known))))
    cfg += ''.join('INVARIANT %s\n' % i for i in invariants)
    return tla, cfg


# ---- graph, cover, replay ---------------------------------------------------------------------------------
_G = {}
_NODE = re.compile(r'^(-?\d+) \[label="((?:[^"\\]|\\.)*)"(,style = filled)?')
_EDGE = re.compile(r'^(-?\d+) -> (-?\d+) ')


def _parse_chunk(args):
    path, start, end = args
    nodes, edges, inits = {}, [], []
    with open(path, 'rb') as fh:
        if start:
            fh.seek(start - 1)
            fh.readline()
        while fh.tell() < end:
            raw = fh.readline()
            if not raw:
                break
            line = raw.decode()
            m = _EDGE.match(line)
            if m:
                if m.group(1) != m.group(2):
                    edges.append((m.group(1), m.group(2)))
                continue
            m = _NODE.match(line)
            if m:
                lab = m.group(2).replace('\\n', '\n').replace('\\"', '"').replace('\\\\', '\\')
                nodes[m.group(1)] = tlaval.parse_state(lab)
                if m.group(3):
                    inits.append(m.group(1))
    return nodes, edges, inits


def load_graph(dot, pool):
    size_b = os.path.getsize(dot)
    nj = 64
    step = size_b // nj + 1
    jobs = [(dot, i * step, min(size_b, (i + 1) * step)) for i in range(nj) if i * step < size_b]
    nodes, succ, inits = {}, collections.defaultdict(list), []
    for nd, ed, ini in pool.imap_unordered(_parse_chunk, jobs):
        nodes.update(nd)
        for a, b in ed:
            succ[a].append(b)
        inits.extend(ini)
    return nodes, succ, inits


def abstract_key(S, per_kind=True):
    """The state without `last`: what the outcome of the next operation depends on."""
    return repr((S['kind'] if per_kind else '-', S['n'], sorted(S['live'].items()), sorted(map(repr, S['store'].items())), repr(S['mem']), repr(S['heap']),
                 sorted(repr((dict(f)['key'], dict(f)['snap'])) for f in S['files']), sorted(S['dev'])))


def cover_paths(nodes, succ, inits, rng, extra_random, per_kind=True):
    """Paths (lists of node ids, starting at an initial state) such that every (abstract state, operation) pair of the graph is
    on at least one of them, plus `extra_random` random maximal paths."""
    for k in succ:
        succ[k] = sorted(set(succ[k]))
    pred = collections.defaultdict(list)
    for a, bs in succ.items():
        for b in bs:
            pred[b].append(a)
    absk = {i: abstract_key(S, per_kind) for i, S in nodes.items()}
    opk = {i: tuple(S['last']['op']) for i, S in nodes.items()}
    targets = set()
    for a, bs in succ.items():
        for b in bs:
            targets.add((absk[a], opk[b]))
    covered = set()
    paths = []

    def back(u):
        p = [u]
        while pred[p[-1]]:
            p.append(rng.choice(pred[p[-1]]))
        p.reverse()
        return p

    def extend(p):
        while succ.get(p[-1]):
            cand = succ[p[-1]]
            fresh = [b for b in cand if (absk[p[-1]], opk[b]) not in covered]
            p.append(rng.choice(fresh or cand))
        return p

    def add(p):
        for a, b in zip(p, p[1:]):
            covered.add((absk[a], opk[b]))
        paths.append(p)

    order = sorted(nodes, key=lambda i: (-nodes[i]['n'], i))
    rng.shuffle(order)
    order.sort(key=lambda i: -nodes[i]['n'])
    for u in order:
        for b in succ.get(u, ()):
            if (absk[u], opk[b]) not in covered:
                add(extend(back(u) + [b]))
    ncover = len(paths)
    for _ in range(extra_random):
        add(extend([rng.choice(inits)]))
    assert covered == targets, (len(covered), len(targets))
    return paths, len(targets), ncover


def _replay_chunk(paths):
    import logging
    import warnings
    from .. import persister_real
    logging.disable(logging.CRITICAL)
    warnings.simplefilter('ignore')
    nodes = _G['nodes']
    out = []
    devs = set()
    nontrivial = 0
    for p in paths:
        S0 = nodes[p[0]]
        ops = [list(nodes[i]['last']['op']) for i in p[1:]]
        exp = [nodes[i]['last'] for i in p[1:]]
        fin = nodes[p[-1]]
        names = {o[0] for o in ops}
        if 'save' in names and names & {'load', 'resume', 'list', 'listp'}:
            nontrivial += 1
        devs |= set(fin['dev'])
        for i in p[1:]:
            devs |= set(nodes[i]['last']['dev'])
        try:
            d = persister_real.replay(S0['kind'], ops, exp, fin, _G['names'])
        except Exception as e:  # noqa
            import traceback
            d = {'at': -1, 'op': 'harness', 'diffs': [['exception', '', traceback.format_exc()[-1500:]]]}
        if d:
            d.update(kind=S0['kind'], ops=ops)
            out.append(d)
    return out, sorted(devs), nontrivial


def graph_replay(name, L, kinds, fx, rng, extra_random, per_kind=True):
    tla, cfg = mc(name, L, kinds, fx, [], invariants=['C14_Explained', 'C14_FileNames'], names=True)
    t0 = time.time()
    ctx = multiprocessing.get_context('fork')
    with tlc.Workdir() as wd:
        wd.write(name + '.tla', tla)
        wd.write(name + '.cfg', cfg)
        dot = os.path.join(wd.path, 'graph')
        res = tlc.run(wd, name + '.tla', name + '.cfg', args=['-dump', 'dot,actionlabels', dot], workers=10)
        if res.violated:
            return {'name': name, 'tlc_violated': res.violated, 'trace': res.trace()}
        if not res.ok:
            raise tlc.MachineryError('TLC did not complete on %s:\n%s' % (name, res.out[-3000:]))
        t1 = time.time()
        with ctx.Pool(min(16, os.cpu_count() or 1)) as pool:
            nodes, succ, inits = load_graph(dot + '.dot', pool)
    if len(nodes) != res.distinct:
        raise tlc.MachineryError('%s: %d nodes parsed, TLC reports %d distinct states' % (name, len(nodes), res.distinct))
    t2 = time.time()
    paths, ntargets, ncover = cover_paths(nodes, succ, inits, rng, extra_random, per_kind)
    t3 = time.time()
    _G['nodes'] = nodes
    tables = [v[1] for v in res.printed_json() if isinstance(v, list) and len(v) == 2 and v[0] == 'names']
    if not tables or sorted(tables[0]) != sorted(kinds):
        raise tlc.MachineryError('%s: the FileNameTable was not printed by TLC:\n%s' % (name, res.out[:2000]))
    _G['names'] = tables[0]
    divergent, devs, nontrivial = [], set(), 0
    chunk = max(1, len(paths) // 256)
    jobs = [paths[i:i + chunk] for i in range(0, len(paths), chunk)]
    with ctx.Pool(min(16, os.cpu_count() or 1)) as pool:
        for out, d, nt in pool.imap_unordered(_replay_chunk, jobs):
            divergent.extend(out)
            devs |= set(d)
            nontrivial += nt
    # census of the states in which the property fails (as specified)
    bad = collections.Counter()
    first = {}
    pred1 = {}
    for a, bs in succ.items():
        for b in bs:
            pred1.setdefault(b, a)
    for i, S in nodes.items():
        for x in set(S['dev']) | set(S['last']['dev']):
            bad[x] += 1
            if x not in first or (S['n'], S['kind'], i) < (nodes[first[x]]['n'], nodes[first[x]]['kind'], first[x]):
                first[x] = i
    shortest = {}
    for x, i in first.items():
        p = [i]
        while p[-1] in pred1:
            p.append(pred1[p[-1]])
        p.reverse()
        shortest[x] = {'id_kind': nodes[i]['kind'], 'history': [list(nodes[j]['last']['op']) for j in p[1:]],
                       'last': {k: (model_json(v)) for k, v in nodes[i]['last'].items()}}
    longest = max(paths[:200], key=len)
    sample = {'id_kind': nodes[longest[0]]['kind'], 'history': [list(nodes[i]['last']['op']) for i in longest[1:]],
              'final_store': sorted([list(k), list(v)] for k, v in nodes[longest[-1]]['store'].items() if list(v) != [0, 0])}
    _G.clear()
    return {'name': name, 'states': len(nodes), 'transitions': res.generated, 'paths': len(paths), 'cover_paths': ncover, 'targets': ntargets,
            'divergent': divergent, 'devs': devs, 'nontrivial': nontrivial, 'sample': sample, 'states_by_deviation': dict(bad), 'shortest': shortest,
            'tlc_s': round(t1 - t0, 1), 'parse_s': round(t2 - t1, 1), 'cover_s': round(t3 - t2, 1), 'replay_s': round(time.time() - t3, 1)}


_COUNTER = [0]


def write_replay(kind, payload):
    d = os.path.join(VERIF, 'evidence', 'replays')
    os.makedirs(d, exist_ok=True)
    _COUNTER[0] += 1
    path = os.path.join(d, '%s_%s_%d_%d.json' % (PID, kind, os.getpid(), _COUNTER[0]))
    with open(path, 'w') as fh:
        json.dump(payload, fh, indent=1, default=str, sort_keys=True)
    return path


def model_json(v):
    if isinstance(v, dict):
        return {str(k): model_json(x) for k, x in v.items()}
    if isinstance(v, (list, tuple, set, frozenset)):
        return [model_json(x) for x in (sorted(v, key=repr) if isinstance(v, (set, frozenset)) else v)]
    return v


def history_of(trace):
    return [list(s['last']['op']) for _, s in trace[1:] if 'last' in s]


def run(tier, seed):
    t0 = time.time()
    fx = fixes()
    known = [d for d in findings.deviations(PID) if d in DEVIATIONS]
    rng = random.Random(seed)
    if tier == 'quick':
        verdict = [dict(name='MC_C14_L4', L=4, kinds=KINDS)]
        replays = [dict(name='MC_C14_dump_L4', L=4, kinds=KINDS, extra_random=2000, per_kind=False)]
    else:
        verdict = [dict(name='MC_C14_L6', L=6, kinds=['int']), dict(name='MC_C14_L5', L=5, kinds=KINDS)]
        replays = [dict(name='MC_C14_dump_L4', L=4, kinds=KINDS, extra_random=5000),
                   dict(name='MC_C14_dump_L5', L=5, kinds=['str', 'int0'], extra_random=20000, per_kind=False)]
    violations = 0
    states = transitions = 0
    mc_summ = []
    import threading
    verdict_res = {}

    def verdict_run(v):
        tla, cfg = mc(v['name'], v['L'], v['kinds'], fx, known, invariants=INVS)
        try:
            with tlc.Workdir() as wd:
                wd.write(v['name'] + '.tla', tla)
                wd.write(v['name'] + '.cfg', cfg)
                verdict_res[v['name']] = tlc.run(wd, v['name'] + '.tla', v['name'] + '.cfg', timeout=3000, workers=8)
        except Exception as e:  # noqa
            verdict_res[v['name']] = e

    def verdicts():
        for v in verdict:
            verdict_run(v)
    th = threading.Thread(target=verdicts)
    th.start()
    replayed = nontrivial = 0
    rp_summ, samples = [], []
    devs_hit = set()
    census = collections.Counter()
    shortest = {}
    for r in replays:
        g = graph_replay(fx=fx, rng=rng, **r)
        if 'tlc_violated' in g:
            path = write_replay('tlc', {'kind': 'tlc-counterexample', 'violated': g['tlc_violated'], 'fixes': fx, 'history': history_of(g['trace']),
                                        'trace': [{'action': a, 'state': s} for a, s in g['trace']]})
            print('TLC: %s violated in %s after %s' % (g['tlc_violated'], g['name'], history_of(g['trace'])))
            print('VIOLATION property=%s replay=%s' % (PID, path))
            violations += 1
            continue
        states += g['states']
        transitions += g['transitions']
        replayed += g['paths']
        nontrivial += g['nontrivial']
        devs_hit |= g['devs']
        samples.append(g['sample'])
        census.update(g['states_by_deviation'])
        for x, h in g['shortest'].items():
            if x not in shortest or len(h['history']) < len(shortest[x]['history']):
                shortest[x] = h
        rp_summ.append({k: g[k] for k in ('name', 'states', 'transitions', 'paths', 'cover_paths', 'targets', 'tlc_s', 'parse_s', 'cover_s', 'replay_s')}
                       | {'divergent': len(g['divergent'])})
        for d in sorted(g['divergent'], key=lambda x: len(x['ops']))[:5]:
            path = write_replay('divergence', {'kind': 'conformance-divergence', 'fixes': fx, 'id_kind': d['kind'], 'history': d['ops'],
                                               'at': d['at'], 'op': d['op'], 'diffs': d['diffs']})
            print('DIVERGENCE id kind=%s history=%s at %s: (what, specification, implementation) %s' % (
                d['kind'], json.dumps(d['ops'][:d['at'] + 1] if d['at'] >= 0 else d['ops']), d['op'], json.dumps(d['diffs'], default=str)[:700]))
            print('VIOLATION property=%s replay=%s' % (PID, path))
        violations += len(g['divergent'])
    th.join()
    for v in verdict:
        res = verdict_res[v['name']]
        if isinstance(res, Exception):
            raise res
        states += res.distinct
        transitions += res.generated
        mc_summ.append({'instance': v['name'], 'L': v['L'], 'id_kinds': v['kinds'], 'distinct_states': res.distinct, 'states_generated': res.generated,
                        'invariants': INVS, 'violated': res.violated, 'wall_s': round(res.wall, 1), 'complete': bool(res.ok)})
        if res.violated:
            tr = res.trace()
            hist = history_of(tr)
            fin = tr[-1][1] if tr else {}
            devs = sorted(set(fin.get('dev', ())) | set(fin.get('last', {}).get('dev', ())))
            path = write_replay('tlc', {'kind': 'tlc-counterexample', 'violated': res.violated, 'fixes': fx, 'id_kind': fin.get('kind'), 'history': hist,
                                        'deviation_clauses': devs, 'what': [WHAT.get(d, d) for d in devs],
                                        'last': {k: (dict(v) if isinstance(v, dict) else v) for k, v in fin.get('last', {}).items()}})
            print('TLC: %s violated (%s) by the history %s; deviation clauses %s%s' % (
                res.violated, v['name'], json.dumps(hist), devs, ''.join(' -- ' + WHAT[d] for d in devs if d in WHAT)))
            print('VIOLATION property=%s replay=%s' % (PID, path))
            violations += 1
        elif not res.ok:
            raise tlc.MachineryError('TLC did not complete on %s:\n%s' % (v['name'], res.out[-3000:]))
    # histories on which the property fails, as specified and as implemented (they conform), per deviation clause
    for x in sorted(census):
        if x in known:
            continue
        h = shortest[x]
        path = write_replay('defect', {'kind': 'property-fails-on-history', 'fixes': fx, 'deviation_clause': x, 'what': WHAT.get(x, x),
                                       'states': census[x], 'id_kind': h['id_kind'], 'history': h['history'], 'last': h['last']})
        print('DEFECT deviation=%s (not a listed finding): %d states of the replayed graphs; shortest history (id kind %s): %s -- %s' % (
            x, census[x], h['id_kind'], json.dumps(h['history']), WHAT.get(x, x)))
        print('VIOLATION property=%s replay=%s' % (PID, path))
        violations += 1
    findings.print_known(PID, devs_hit)
    cov = {
        'states': max(states, 1), 'transitions': max(transitions, 1), 'traces_validated_against_impl': replayed,
        'samples': samples or [{'note': 'nothing replayed'}], 'evaluations': replayed, 'distinct_nontrivial': nontrivial,
        'rule': 'history = path of the TLC state graph (<=L operations from save/load/list/listp/delete/deletep/progress/resume over 2 processes x '
                'tags {None,t1,t2}, one id kind per history); replayed are histories covering every (state, operation) pair of the dumped graph '
                '(state = all variables but the record of the last call) plus seeded random maximal histories; non-trivial = a history with a '
                'save and a later-or-earlier read (load/resume/list); histories are distinct paths',
        'exhaustive': True, 'model_checking': mc_summ, 'replay': rp_summ, 'states_by_deviation_clause': dict(census),
        'deviation_clauses_exercised': sorted(devs_hit), 'fixes_modelled': fx, 'known_deviations': known,
        'id_kinds_replayed': sorted({k for r in replays for k in r['kinds']}),
        'id_kinds_with_falsy_ids': sorted({k for r in replays for k in r['kinds']} & set(persister_real_falsy())),
    }
    evidence.write(PID, tier, seed, 'model_checking', cov, time.time() - t0, violations, [
        'a snapshot is observed through one process class (harness/persister_real.StepProc: ContextMixin + Process) whose steps change a '
        'context list and a list passed to the next step (mutable members) and outputs/status (immutable members)',
        'ids and tags: ints (1, 11), strings (a, ab, b), UUIDs, and the falsy ids (0 with 10, the empty string with a) as pid and as tag; '
        'one id kind per history; no string form contains the separator "."',
        'conformance covers every (state, operation) pair of the L=4 graph (quick: each pair under one id kind; thorough: under every id '
        'kind, and also the L=5 graph with each pair under one of the kinds str / int0) and random '
        'histories; L=6 (thorough) is model-checked only',
        'the scratch directory of the pickle persister is private to one history and removed afterwards',
    ])
    return 1 if violations else 0


def replay(path):
    import logging
    import warnings
    from .. import persister_real
    logging.disable(logging.CRITICAL)
    warnings.simplefilter('ignore')
    rec = json.load(open(path))
    hist = rec.get('history')
    if not hist:
        print(json.dumps(rec, indent=1)[:4000])
        return 1
    kind = rec.get('id_kind') or 'int'
    w = persister_real.World(kind)
    try:
        for op in hist:
            rm, rf = w.perform(op)
            print('%-28s in-memory: %s | pickle: %s' % (op, json.dumps(rm), json.dumps(rf)))
        print('final observation:', json.dumps(w.observe(), default=str))
    finally:
        w.close()
    for k in ('violated', 'deviation_clauses', 'what', 'diffs', 'last'):
        if k in rec:
            print('recorded %s: %s' % (k, json.dumps(rec[k], default=str)[:1500]))
    return 1
