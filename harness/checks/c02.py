"""C02 - all reports of the outcome of a terminated process agree and waiters are released."""
from .. import core_check, core_model
from . import core_cfg as C

PID = 'C02'
INV = ['C02_FutureNotEarly', 'C02_Agree', 'C02_OneNotification', 'C02_ClosedOnce', 'C02_TaskReturns']
PROP = []


def run(tier, seed):
    alpha = ['kill', 'pause', 'play', 'resume', 'cancel', 'cbok', 'cbraise', 'fail']
    tc_alpha = ['taskcancel', 'pause', 'play', 'kill', 'fail', 'resume']
    kill_plans = core_check.reentrant_plans(['step', 'L_running', 'L_waiting', 'L_paused', 'L_played', 'L_output'], [('kill', 'k2'), ('pause', 'p2')])
    down = core_model.family(['P12', 'P02'], out_missing=['P12', 'P02'])
    pe = core_model.plan_entry
    lfaults = [[pe('L_' + e, o, 'fault', 'X')] for e in ('running', 'waiting', 'finished', 'excepted', 'killed', 'paused') for o in (1, 2)]
    if tier == 'quick':
        mc = [dict(name='C02_env', progs=C.fam(C.ALL), plans=[[]], alphabet=alpha, k=3, invariants=INV),
              dict(name='C02_reentrant', progs=C.fam(C.SMALL), plans=kill_plans, alphabet=alpha, k=1, invariants=INV),
              dict(name='C02_downgrade', progs=down, plans=[[]], alphabet=alpha, k=2, invariants=INV),
              dict(name='C02_task_cancelled', progs=C.fam(['P03', 'P04', 'P05']), plans=[[]], alphabet=tc_alpha, k=4, invariants=INV)]
        rp = [dict(name='C02_env', progs=C.fam(C.ALL), plans=[[]], alphabet=alpha, k=2),
              dict(name='C02_reentrant', progs=C.fam(['P03', 'P05']), plans=kill_plans, alphabet=alpha, k=1),
              dict(name='C02_downgrade', progs=down, plans=[[]], alphabet=alpha, k=2),
              dict(name='C02_listener_raises', progs=C.fam(['P02', 'P03', 'P08']), plans=lfaults, alphabet=['kill', 'pause', 'play'], k=1),
              # conformance only: close() by the user is outside the property's quantifier, but it is modelled
              dict(name='C02_user_close', progs=C.fam(['P01', 'P03', 'P04']), plans=[[]], alphabet=['close', 'kill', 'pause', 'play'], k=2),
              # the owner of the stepping task cancels it while it is parked at the pause gate (pause, taskcancel, then kill / fail / play)
              dict(name='C02_task_cancelled', progs=C.fam(['P03', 'P04', 'P05']), plans=[[]], alphabet=tc_alpha, k=4)]
    else:
        mc = [dict(name='C02_env', progs=C.fam(C.ALL), plans=[[]], alphabet=alpha, k=4, invariants=INV),
              dict(name='C02_reentrant', progs=C.fam(C.ALL), plans=kill_plans, alphabet=alpha, k=2, invariants=INV),
              dict(name='C02_downgrade', progs=down, plans=[[]], alphabet=alpha, k=3, invariants=INV),
              dict(name='C02_task_cancelled', progs=C.fam(C.ALL), plans=[[]], alphabet=tc_alpha + ['cancel'], k=5, invariants=INV)]
        rp = [dict(name='C02_env', progs=C.fam(C.ALL), plans=[[]], alphabet=alpha, k=3),
              dict(name='C02_reentrant', progs=C.fam(C.SMALL), plans=kill_plans, alphabet=alpha, k=1),
              dict(name='C02_downgrade', progs=down, plans=[[]], alphabet=alpha, k=3),
              dict(name='C02_listener_raises', progs=C.fam(C.ALL), plans=lfaults, alphabet=['kill', 'pause', 'play', 'resume'], k=2),
              dict(name='C02_user_close', progs=C.fam(C.ALL), plans=[[]], alphabet=['close', 'kill', 'pause', 'play', 'resume', 'fail'], k=3),
              dict(name='C02_task_cancelled', progs=C.fam(C.ALL), plans=[[]], alphabet=tc_alpha + ['cancel'], k=4)]
    return core_check.run_check(
        PID, tier, seed, mc, rp,
        level_text='TLC exhaustive + replay of every behaviour of the dumped state graphs into the real Process',
        assumptions=C.ASSUMPTIONS + ['three listeners are attached (one recording, two counting): every listener must be told each event exactly once even when another listener raises', 'the five accessor families (future, result, successful/is_successful, killed/killed_msg, exception) are read from the real process after every action and must agree with each other and with the specification state'],
        suite_traces=lambda e: e[0] == 'obs',
        rule='every interleaving of <=K control requests (incl. kill while paused, during a step, from a listener) with every program; accessor agreement, notification/cleanup counts and stepping-task completion compared after every action')


def replay(path):
    return core_check.replay_file(path)
