"""C19 - any Savable round-trips its declared members through the named loader (spec/Savable.tla).

(1) TLC evaluates the operational Save/Load and the declarative properties on every instance of the bounded universe
    (invariants C19_*; instances that went through a LISTED deviation clause are excused);
(2) the state graph of the universe (one state per instance, holding the instance and the specification's expectation)
    is dumped and EVERY instance is executed on the real code (harness/savable_real.py) and compared with the expectation;
(3) the census of instances on which a declarative property fails is reported per deviation clause.

Families of instances: A (decorator chains x member kinds - among them futures in every state, resolved with a mutable value, a
tuple, None or a falsy value - x loader configurations x unknown class names, rewritten in the state or REMOVED FROM THE MODULE after
the save), B (decorator | hook
declarations x order of use), C (loader configurations incl. the alias loader x unknown class / unknown RECORDED LOADER x how
the load context is supplied (None | one shared loader-less LoadSaveContext) x which bundle went through it before; the class or the
recorded loader's class may also be removed from the module between save and load).
"""
import collections
import json
import multiprocessing
import os
import random
import re
import time

from .. import evidence, findings, savable_real, tlaval, tlc

PID = 'C19'
VERIF = os.path.dirname(os.path.dirname(os.path.dirname(os.path.abspath(__file__))))

# repairs present in /repo (identifiers of spec/Savable.tla: FL1 recorded loader read from the user block, FL2 recorded
# loader instantiated, FL3 nested savables saved with the save context, FFC cancelled futures can be saved,
# FH1 the classmethod Savable.auto_persist gives a class its own copy of an inherited set before adding to it)
FIXES = ['FL1', 'FL2', 'FL3', 'FFC', 'FH1']      # repaired in /repo: d4b788d (FL1, FL2), 8989551 (FL3), 79c2991 (FFC), FH1 (persist() hook leak)
ALL_FIXES = ['FL1', 'FL2', 'FL3', 'FFC', 'FH1']
DEVIATIONS = ['D19a', 'D19b', 'D19c', 'D19d']
KINDS = ['value', 'none', 'method', 'tuple', 'sav1', 'sav2', 'futP', 'futR', 'futT', 'futE', 'futC', 'futN', 'futZ']
KINDS6 = ['value', 'method', 'tuple', 'sav2', 'futT', 'futC']      # for the largest chains; futN / futZ (None / falsy results) are in the complete runs over KINDS (members are saved independently of each other)
# family A: decorator-declared chains x every member kind x loader configurations x unknown class names
FAM_A = dict(kinds=KINDS, loaders=None, unknowns=None, ways=['deco'], orders=[])
# family B: how members are declared (decorator | persist() hook) x which other class of the chain was used first x copied values
FAM_B = dict(kinds=['value', 'method', 'tuple'], loaders=['default'], unknowns=[], ways=['deco', 'hook'], orders=['parent', 'child'])
LOADERS = ['default', 'global', 'persave', 'ctxboth']
UNKNOWNS = ['noattr', 'malformed', 'nocls', 'nometa', 'nested', 'gone']      # 'gone': the class is removed from the module after the save
# family C: the SESSION - every loader configuration (also a loader writing identifiers the default loader resolves too, to another
# class) x unknown class / unknown recorded loader x load context None | one shared loader-less object x a bundle saved with another
# loader loaded through it before x order of use (up to three loads through one context)
LOADERS_C = LOADERS + ['peralias']
FAM_C = dict(kinds=['value', 'sav1'], loaders=LOADERS_C, unknowns=['noattr', 'noldr', 'badldr', 'gone', 'ldrgone'], ways=['deco'], orders=['parent'],
             ctxs=['shared'], priors=['plain', 'custom'])
PROPS = ['RoundTrip', 'ValuesEqual', 'CopiedAtSave', 'MethodsRebound', 'NestedRecreated', 'FutureState', 'LoaderPrecedence',
         'UnknownIsValueError', 'SetsIntact', 'ContextIsCallers']
WHAT = {
    'D19a': 'the object loader recorded in the saved state is never used: save() writes its identifier to '
            "['!!meta']['user']['object_loader'], _ensure_object_loader reads ['!!meta']['object_loader'] (and would use the "
            'class, not an instance); the class name written by the custom loader is then given to the global default loader',
    'D19b': 'save_members saves a nested Savable with value.save(), without the save context: its class name comes from the '
            'global loader while the load context hands the outer (custom) loader down to it',
    'D19c': 'saving a cancelled SavableFuture raises CancelledError (save_instance_state calls exception() on it)',
    'D19d': 'the classmethod Savable.auto_persist (as called from a persist() hook) updates whatever set the attribute lookup finds: a '
            'class without a set of its own (no decorator) adds its members to its ANCESTOR\'s set; once an instance of that subclass '
            'was saved or loaded, instances of the ancestor persist members they never declared (AttributeError if they lack them)',
}


def fixes():
    env = os.environ.get('VERIF_C19_FIXES')
    if env is None:
        return list(FIXES)
    return [f for f in re.split(r'[,\s]+', env.strip()) if f]


def mc(name, names, maxchain, fx, known, only_chains=(), invariants=(), detail=True, kinds=KINDS, loaders=None, unknowns=None,
       ways=('deco',), orders=(), ctxs=(), priors=()):
    if only_chains:
        tla = '---- MODULE %s ----\nEXTENDS Savable\nMCOnly == {%s}\n====\n' % (name, ', '.join(tlaval.emit(c) for c in only_chains))
    else:
        tla = '---- MODULE %s ----\nEXTENDS Savable\nMCOnly == {}\n====\n' % name
    cfg = 'SPECIFICATION Spec\nCHECK_DEADLOCK FALSE\nCONSTANTS\n Names = %s\n MaxChain = %d\n Kinds = %s\n Loaders = %s\n Unknowns = %s\n' % (
        tlaval.emit(set(names)), maxchain, tlaval.emit(set(kinds)), tlaval.emit(set(LOADERS if loaders is None else loaders)),
        tlaval.emit(set(UNKNOWNS if unknowns is None else unknowns)))
    cfg += ' Ways = %s\n Orders = %s\n' % (tlaval.emit(set(ways)), tlaval.emit(set(orders)))
    cfg += ' Ctxs = %s\n Priors = %s\n' % (tlaval.emit(set(ctxs)), tlaval.emit(set(priors)))
    cfg += ' Fixes = %s\n Known = %s\n OnlyChains <- MCOnly\n Detail = %s\n' % (tlaval.emit(set(fx)), tlaval.emit(set(known)), 'TRUE' if detail else 'FALSE')
    cfg += ''.join('INVARIANT %s\n' % i for i in invariants)
    return tla, cfg


def chain_tla(chain):
    return [{'way': d['way'], 'names': set(d['names'])} for d in chain]


def all_chains(names, length, ways):
    """Every chain of exactly `length` classes (the specification's Decls)."""
    import itertools
    subs = [[x for i, x in enumerate(names) if m >> i & 1] for m in range(1 << len(names))]
    decls = [{'way': 'none', 'names': []}]
    if 'deco' in ways:
        decls += [{'way': 'deco', 'names': sub} for sub in subs]
    if 'hook' in ways:
        decls += [{'way': 'hook', 'names': sub} for sub in subs if sub]
    return [list(c) for c in itertools.product(decls, repeat=length)]


def sample_chains(rng, names, maxchain, ways, n_longest):
    """All chains shorter than maxchain plus a seeded sample of n_longest chains of maxchain classes."""
    out = []
    for ln in range(1, maxchain):
        out += all_chains(names, ln, ways)
    longest = all_chains(names, maxchain, ways)
    rng.shuffle(longest)
    return [chain_tla(c) for c in out + longest[:n_longest]]


# ---- replay of a dumped universe on the real code ----------------------------------------------------------
_NODE = re.compile(r'^(-?\d+) \[label="((?:[^"\\]|\\.)*)"')


def persisted(inst):
    out = set()
    for d in inst['chain'][:inst['t']]:
        out |= set(d['names'])
    return out


def size(inst):
    return (len(inst['chain']), len(persisted(inst)), sum(len(d['names']) for d in inst['chain']), inst['unk'] != 'none', inst.get('first', 0) != 0,
            inst.get('prior', 'none') != 'none', inst.get('lc', 'asis') != 'asis', json.dumps(inst, sort_keys=True))


def _work(args):
    path, start, end = args
    import logging
    import warnings
    logging.disable(logging.CRITICAL)
    warnings.simplefilter('ignore')
    n = nontrivial = 0
    div = []
    census = {}
    sample = None
    with open(path, 'rb') as fh:
        if start:
            fh.seek(start - 1)
            fh.readline()
        while fh.tell() < end:
            raw = fh.readline()
            if not raw:
                break
            if b'phase = \\"done\\"' not in raw:
                continue
            m = _NODE.match(raw.decode())
            if not m:
                continue
            lab = m.group(2).replace('\\n', '\n').replace('\\"', '"').replace('\\\\', '\\')
            st = tlaval.parse_state(lab)
            inst = savable_real.norm_inst(st['inst'])
            out = st['out']
            exp = savable_real.expected(out)
            obs = savable_real.execute(inst)
            n += 1
            if persisted(inst):
                nontrivial += 1
            d = savable_real.diff(exp, obs)
            if d and len(div) < 5:
                div.append({'instance': inst, 'diffs': d, 'expected_stage': [out['stage'], out['exc']]})
            elif d:
                div.append(None)
            bad = tuple(sorted(out['bad']))
            if bad:
                key = (tuple(sorted(out['dev'])), bad)
                c = census.setdefault(key, [0, None])
                c[0] += 1
                if c[1] is None or size(inst) < size(c[1]):
                    c[1] = inst
            if sample is None and len(persisted(inst)) >= 2 and out['stage'] == 'ok':
                sample = {'instance': inst, 'observed': {'stage': obs['stage'], 'facts': sorted(obs['facts']), 'resave': obs['resave']}}
    return n, nontrivial, div, census, sample


def dump_replay(name, names, maxchain, fx, only_chains=(), verdict=None, **fam):
    """verdict = (invariants, known): the property invariants are checked in the same TLC run (quick tier); a violation stops TLC
    early, so the run is then repeated without them to get the complete dump."""
    """Dump the universe with TLC, execute every instance on the real code. -> summary dict"""
    base_invs = ['C19_Explained', 'C19_AutoPersist']
    tla, cfg = mc(name, names, maxchain, fx, verdict[1] if verdict else [], only_chains,
                  invariants=(list(verdict[0]) if verdict else []) + base_invs, **fam)
    t0 = time.time()
    first = None
    with tlc.Workdir() as wd:
        wd.write(name + '.tla', tla)
        wd.write(name + '.cfg', cfg)
        dot = os.path.join(wd.path, 'graph')
        res = tlc.run(wd, name + '.tla', name + '.cfg', args=['-dump', 'dot,actionlabels', dot], workers=10 if not verdict else None)
        if verdict and res.violated and res.violated not in base_invs:
            first = res
            tla, cfg = mc(name, names, maxchain, fx, [], only_chains, invariants=base_invs, **fam)
            wd.write(name + '.tla', tla)
            wd.write(name + '.cfg', cfg)
            res = tlc.run(wd, name + '.tla', name + '.cfg', args=['-dump', 'dot,actionlabels', dot])
        if res.violated:
            return {'name': name, 'tlc_violated': res.violated, 'trace': res.trace(), 'states': res.distinct, 'generated': res.generated}
        if not res.ok:
            raise tlc.MachineryError('TLC did not complete on %s:\n%s' % (name, res.out[-3000:]))
        t1 = time.time()
        size_b = os.path.getsize(dot + '.dot')
        nj = 128
        step = size_b // nj + 1
        jobs = [(dot + '.dot', i * step, min(size_b, (i + 1) * step)) for i in range(nj) if i * step < size_b]
        ctx = multiprocessing.get_context('fork')
        n = nontrivial = 0
        div, census, samples = [], {}, []
        with ctx.Pool(min(16, os.cpu_count() or 1)) as pool:
            for a, b, d, c, s in pool.imap_unordered(_work, jobs):
                n += a
                nontrivial += b
                div.extend(d)
                for k, (cnt, ex) in c.items():
                    cur = census.setdefault(k, [0, None])
                    cur[0] += cnt
                    if cur[1] is None or size(ex) < size(cur[1]):
                        cur[1] = ex
                if s and len(samples) < 2:
                    samples.append(s)
    done_states = res.distinct - res_initial(res)
    if n != done_states:
        raise tlc.MachineryError('%s: %d instances replayed but TLC reports %d instance states' % (name, n, done_states))
    return {'name': name, 'states': res.distinct, 'generated': res.generated, 'instances': n, 'nontrivial': nontrivial, 'divergent': div,
            'verdict': (first or res) if verdict else None, 'census': census, 'samples': samples, 'tlc_s': round(t1 - t0, 1), 'replay_s': round(time.time() - t1, 1)}


def res_initial(res):
    m = re.search(r'Finished computing initial states: (\d+) distinct state', res.out)
    return int(m.group(1)) if m else 0


_COUNTER = [0]


def write_replay(kind, payload):
    d = os.path.join(VERIF, 'evidence', 'replays')
    os.makedirs(d, exist_ok=True)
    _COUNTER[0] += 1
    path = os.path.join(d, '%s_%s_%d_%d.json' % (PID, kind, os.getpid(), _COUNTER[0]))
    with open(path, 'w') as fh:
        json.dump(payload, fh, indent=1, default=str, sort_keys=True)
    return path


def run(tier, seed):
    t0 = time.time()
    fx = fixes()
    known = [d for d in findings.deviations(PID) if d in DEVIATIONS]
    rng = random.Random(seed)
    invs = ['C19_' + p for p in PROPS] + ['C19_AutoPersist']
    if tier == 'quick':
        # quick: every chain of <=2 classes and a seeded sample of the 3-class chains, two names
        ca = sample_chains(rng, 'ab', 3, FAM_A['ways'], 40)
        cb = sample_chains(rng, 'ab', 3, FAM_B['ways'], 150)
        cc = sample_chains(rng, 'ab', 2, FAM_C['ways'], 12)
        verdict = []          # the property invariants are checked in the dump runs themselves
        replays = [dict(name='MC_C19_A_ab3s', names='ab', maxchain=3, only_chains=ca, verdict=(invs, known), **FAM_A),
                   dict(name='MC_C19_B_ab3s', names='ab', maxchain=3, only_chains=cb, verdict=(invs, known), **FAM_B),
                   dict(name='MC_C19_C_ab2s', names='ab', maxchain=2, only_chains=cc, verdict=(invs, known), **FAM_C)]
    else:
        verdict = [dict(name='MC_C19_A_abc3_k6', names='abc', maxchain=3, **dict(FAM_A, kinds=KINDS6)),
                   dict(name='MC_C19_A_abc2', names='abc', maxchain=2, **FAM_A),
                   dict(name='MC_C19_A_ab3', names='ab', maxchain=3, **FAM_A),
                   dict(name='MC_C19_B_abc3', names='abc', maxchain=3, **FAM_B),
                   dict(name='MC_C19_C_abc2', names='abc', maxchain=2, **FAM_C),
                   dict(name='MC_C19_C_ab3', names='ab', maxchain=3, **FAM_C)]
        replays = [dict(name='MC_C19_dump_A_ab3', names='ab', maxchain=3, **FAM_A),
                   dict(name='MC_C19_dump_A_abc2s', names='abc', maxchain=2, only_chains=sample_chains(rng, 'abc', 2, ['deco'], 30), **FAM_A),
                   dict(name='MC_C19_dump_A_abc3s', names='abc', maxchain=3, only_chains=[chain_tla(c) for c in rng.sample(all_chains('abc', 3, ['deco']), 12)], **FAM_A),
                   dict(name='MC_C19_dump_B_ab3', names='ab', maxchain=3, **FAM_B),
                   dict(name='MC_C19_dump_B_abc3s', names='abc', maxchain=3, only_chains=[chain_tla(c) for c in rng.sample(all_chains('abc', 3, ['deco', 'hook']), 400)], **FAM_B),
                   dict(name='MC_C19_dump_C_ab2', names='ab', maxchain=2, **FAM_C),
                   dict(name='MC_C19_dump_C_ab3s', names='ab', maxchain=3, only_chains=[chain_tla(c) for c in rng.sample(all_chains('ab', 3, ['deco']), 30)], **FAM_C)]
    violations = 0
    states = transitions = 0
    mc_summ = []
    # (1) TLC: operational |= declarative, listed deviations excused (runs while (2) is being done)
    import threading
    verdict_res = {}

    def verdict_run(v):
        tla, cfg = mc(invariants=invs, detail=False, fx=fx, known=known, **v)
        try:
            with tlc.Workdir() as wd:
                wd.write(v['name'] + '.tla', tla)
                wd.write(v['name'] + '.cfg', cfg)
                verdict_res[v['name']] = tlc.run(wd, v['name'] + '.tla', v['name'] + '.cfg', timeout=3000, workers=8 if tier == 'quick' else 12)
        except Exception as e:  # noqa
            verdict_res[v['name']] = e
    separate = list(verdict)

    def verdicts():
        for v in separate:
            verdict_run(v)
    threads = [threading.Thread(target=verdicts)]
    for t in threads:
        t.start()
    # (2) every instance of the dumped universes on the real code
    replayed = nontrivial = 0
    rp_summ, samples = [], []
    devs_hit = set()
    census_all = collections.OrderedDict()
    for r in replays:
        g = dump_replay(fx=fx, **r)
        if 'tlc_violated' in g:
            path = write_replay('tlc', {'kind': 'tlc-counterexample', 'violated': g['tlc_violated'], 'fixes': fx,
                                        'trace': [{'action': a, 'state': s} for a, s in g['trace']]})
            print('TLC: %s violated in %s' % (g['tlc_violated'], g['name']))
            print('VIOLATION property=%s replay=%s' % (PID, path))
            violations += 1
            continue
        if g.get('verdict') is not None:
            verdict.append(dict(r, name=g['name'], same_run=not g['verdict'].violated))
            verdict_res[g['name']] = g['verdict']
        states += g['states']
        transitions += g['generated']
        replayed += g['instances']
        nontrivial += g['nontrivial']
        samples.extend(g['samples'][:1])
        ndiv = len(g['divergent'])
        rp_summ.append({'instance': g['name'], 'states': g['states'], 'instances_executed': g['instances'], 'divergent': ndiv,
                        'tlc_s': g['tlc_s'], 'replay_s': g['replay_s']})
        for d in [x for x in g['divergent'] if x][:5]:
            path = write_replay('divergence', {'kind': 'conformance-divergence', 'fixes': fx, 'instance': d['instance'], 'diffs': d['diffs']})
            print('DIVERGENCE instance=%s: (field, specification, implementation) %s' % (json.dumps(d['instance'], sort_keys=True), json.dumps(d['diffs'], default=str)[:600]))
            print('VIOLATION property=%s replay=%s' % (PID, path))
        violations += ndiv
        for (dev, bad), (cnt, ex) in g['census'].items():
            cur = census_all.setdefault((dev, bad), [0, None])
            cur[0] += cnt
            if cur[1] is None or size(ex) < size(cur[1]):
                cur[1] = ex
    for t in threads:
        t.join()
    for v in verdict:
        res = verdict_res[v['name']]
        if isinstance(res, Exception):
            raise res
        if not v.get('same_run'):
            states += res.distinct
            transitions += res.generated
        mc_summ.append({'instance': v['name'], 'names': sorted(v['names']), 'max_chain': v['maxchain'], 'kinds': len(v['kinds']),
                        'declared_by': v['ways'], 'order_of_use': v['orders'], 'load_context': ['asis'] + list(v.get('ctxs', ())),
                        'loaded_before': ['none'] + list(v.get('priors', ())), 'loaders': list(v['loaders'] or LOADERS),
                        'unknowns': list(UNKNOWNS if v['unknowns'] is None else v['unknowns']), 'chains': len(v.get('only_chains', ())) or 'all', 'distinct_states': res.distinct,
                        'states_generated': res.generated, 'invariants': invs, 'violated': res.violated, 'wall_s': round(res.wall, 1),
                        'complete': bool(res.ok)})
        if res.violated:
            tr = res.trace()
            st = tr[-1][1] if tr else {}
            inst = savable_real.norm_inst(st['inst']) if 'inst' in st and '_raw' not in st else None
            obs = None
            if inst:
                o = savable_real.execute(inst)
                obs = {'stage': o['stage'], 'exc': o['exc'], 'facts': sorted(o['facts']), 'resave': o['resave'], 'stable': o['stable'],
                       'prior': o['prior'], 'used': o['used'], 'priorUsed': o['priorUsed'], 'ctx': o['ctx']}
            path = write_replay('tlc', {'kind': 'tlc-counterexample', 'violated': res.violated, 'fixes': fx, 'instance': inst,
                                        'specification': {k: (sorted(v2) if isinstance(v2, (set, frozenset)) else v2) for k, v2 in (st.get('out') or {}).items()},
                                        'implementation': obs})
            print('TLC: %s violated (%s) on instance %s; deviation clauses %s; the implementation gives stage=%s exc=%s' % (
                res.violated, v['name'], json.dumps(inst, sort_keys=True), sorted((st.get('out') or {}).get('dev', [])),
                obs and obs['stage'], obs and obs['exc']))
            print('VIOLATION property=%s replay=%s' % (PID, path))
            violations += 1
        elif not res.ok:
            raise tlc.MachineryError('TLC did not complete on %s:\n%s' % (v['name'], res.out[-3000:]))
    # (3) census of instances on which a declarative property fails (as specified AND as implemented: they conform)
    census_out = []
    unlisted = collections.OrderedDict()      # deviation id (or UNEXPLAINED) -> [instances, properties, smallest, alone]
    for (dev, bad), (cnt, ex) in sorted(census_all.items()):
        devs_hit |= set(dev)
        excused = bool(set(dev) & set(known))
        census_out.append({'deviation_clauses': list(dev), 'properties_failing': list(bad), 'instances': cnt, 'listed': excused, 'smallest': ex})
        if not excused:
            for d in dev or ('UNEXPLAINED',):
                cur = unlisted.setdefault(d, [0, set(), None, False])
                cur[0] += cnt
                cur[1] |= set(bad)
                alone = len(dev) <= 1
                if cur[2] is None or (alone, ) > (cur[3], ) or (alone == cur[3] and size(ex) < size(cur[2])):
                    cur[2], cur[3] = ex, alone
    for d, (cnt, bad, ex, _) in unlisted.items():
        path = write_replay('defect', {'kind': 'property-fails-on-instance', 'fixes': fx, 'deviation_clause': d,
                                       'properties_failing': sorted(bad), 'instances': cnt, 'instance': ex, 'what': WHAT.get(d, d)})
        print('DEFECT deviation=%s (not a listed finding): %s fail on %d instances; smallest: %s -- %s' % (
            d, ','.join(sorted(bad)), cnt, json.dumps(ex, sort_keys=True), WHAT.get(d, 'no deviation clause of the specification explains it')))
        print('VIOLATION property=%s replay=%s' % (PID, path))
        violations += 1
    findings.print_known(PID, devs_hit)
    cov = {
        'states': max(states, 1), 'transitions': max(transitions, 1), 'traces_validated_against_impl': replayed,
        'samples': samples or [{'note': 'nothing replayed'}], 'evaluations': replayed, 'distinct_nontrivial': nontrivial,
        'rule': 'instance = (chain of <=MaxChain classes each declaring nothing, @auto_persist(subset of Names) or a persist() hook calling '
                'cls.auto_persist(subset), instantiated class, kind of every persisted member, loader configuration, unknown-class flavour (identifier '
                'rewritten in the saved state | class or recorded loader class removed from the module after the save), '
                'which other class of the chain was saved+loaded first, how the load context is supplied (as the configuration says | one shared '
                'loader-less LoadSaveContext for every load), which bundle was loaded through it before (none | saved plainly | saved with the '
                'custom loader)); family A = decorators x kinds %s x loaders %s x unknown names; '
                'family B = decorator|hook x order of use (none|an ancestor first|a descendant first) x kinds %s; family C = loaders %s x unknown '
                'class / unknown recorded loader %s x load context x loaded before x ancestor first x kinds %s; every instance is one TLC '
                'state and one execution of the real code (build classes with type(), load the prior bundle, use the other class, save, tamper, '
                'mutate original, load, save again - all loads through the one load context); non-trivial = at least one persisted member; '
                'instances are distinct by construction'
                % (KINDS, LOADERS, FAM_B['kinds'], LOADERS_C, FAM_C['unknowns'], FAM_C['kinds']),
        'exhaustive': True, 'model_checking': mc_summ, 'replay': rp_summ, 'property_failures_by_deviation': census_out,
        'deviation_clauses_exercised': sorted(devs_hit), 'fixes_modelled': fx, 'known_deviations': known,
    }
    evidence.write(PID, tier, seed, 'model_checking', cov, time.time() - t0, violations, [
        'value domain: None, strings, one-cell mutable structures ({"c": [text]}) and tuples holding one such structure (also as the '
        'result of a future); copy.deepcopy is trusted beyond that',
        'quick: all chains of <=2 classes and a seeded sample of the 3-class chains over two names (both the TLC verdict and the execution); '
        'thorough: see model_checking/replay entries',
        'the custom loader uses an identifier scheme disjoint from DefaultObjectLoader\'s and raises ValueError for anything it cannot resolve',
        'the alias loader (configuration peralias) writes the legacy name L<i> for the chain class K<i> in DefaultObjectLoader\'s own format; '
        'the module holds stand-in Savables L1..L3 under those names, so the default loader resolves the same identifier to a different class',
        'an unavailable class / recorded loader is modelled by rewriting the identifier in the saved state (unknown name | unknown format) '
        'and by removing the class (gone) / the loader class (ldrgone) from the module between the save and the load, the saved state left as '
        'it is and the global loader object living on; replacing a class by a new class of the same name (reload) is not modelled',
        'futures: pending, cancelled, failed, and resolved with a mutable value, a tuple holding one, None (futN) or the empty string (futZ)',
        'a session makes at most three loads (prior bundle, another class of the chain, the bundle under test) through one load context; the '
        'caller\'s context is observed through its public attribute `loader`',
        'nested Savables: helper classes N1 (value, method) and N2 (value, N1, resolved future): nesting depth 2',
        'exception objects held by futures are compared by tag, and are not mutated after the save',
        'thorough: model-checked completely are 3 classes x 3 names (family A with 6 member kinds, family B), 2 classes x 3 names and '
        '3 classes x 2 names (family A, all %d kinds)' % len(KINDS) + '; executed on the real code are the complete two-name universes of both families plus '
        'all instances of seeded samples of the three-name chains',
    ])
    return 1 if violations else 0


def replay(path):
    rec = json.load(open(path))
    inst = rec.get('instance')
    if not inst:
        print(json.dumps(rec, indent=1)[:4000])
        return 1
    import warnings
    warnings.simplefilter('ignore')
    o = savable_real.execute(inst)
    print('instance:', json.dumps(inst, sort_keys=True))
    print('implementation: prior-load=%s (resolved by %s) stage=%s exc=%s resave=%s stable=%s class-resolved-by=%s loader-left-in-the-callers-context=%s' % (
        o['prior'], o['priorUsed'], o['stage'], o['exc'], o['resave'], o['stable'], o['used'], o['ctx']))
    for f in sorted(o['facts']):
        print('   ', f)
    for k in ('diffs', 'properties_failing', 'deviation_clauses', 'what', 'specification'):
        if k in rec:
            print('recorded %s: %s' % (k, json.dumps(rec[k], default=str)[:1500]))
    return 1
