"""C04 - a kill request is never lost and no live process is unkillable."""
from .. import core_check, core_model
from . import core_cfg as C

PID = 'C04'
INV = ['C04_KillNoRaise', 'C04_KillNotLost', 'C04_KillReply', 'C04_KillText', 'C04_KillFromAnywhere']
PROP = []


def run(tier, seed):
    alpha = ['kill', 'pause', 'play', 'resume', 'cancel']
    kill_plans = core_check.reentrant_plans(['step', 'L_running', 'L_waiting', 'L_paused', 'L_played', 'L_output'], [('kill', 'k2')])
    if tier == 'quick':
        mc = [dict(name='C04_env', progs=C.fam(C.ALL), plans=[[]], alphabet=alpha, k=3, invariants=INV),
              dict(name='C04_reentrant', progs=C.fam(C.ALL), plans=kill_plans, alphabet=alpha, k=1, invariants=INV),
              # nothing drives the process any more (its stepping task was cancelled at the pause gate): it can still be killed
              dict(name='C04_task_cancelled', progs=C.fam(C.SMALL), plans=[[]], alphabet=['taskcancel', 'pause', 'play', 'kill', 'resume'], k=4, invariants=INV)]
        rp = [dict(name='C04_env', progs=C.fam(['P03', 'P04', 'P05', 'P09', 'P10']), plans=[[]], alphabet=alpha, k=3),
              dict(name='C04_reentrant', progs=C.fam(C.SMALL), plans=kill_plans, alphabet=alpha, k=1),
              dict(name='C04_task_cancelled', progs=C.fam(C.SMALL), plans=[[]], alphabet=['taskcancel', 'pause', 'play', 'kill', 'resume'], k=4)]
    else:
        mc = [dict(name='C04_env', progs=C.fam(C.ALL), plans=[[]], alphabet=alpha, k=5, invariants=INV),
              dict(name='C04_reentrant', progs=C.fam(C.ALL), plans=kill_plans, alphabet=alpha, k=3, invariants=INV),
              dict(name='C04_task_cancelled', progs=C.fam(C.ALL), plans=[[]], alphabet=['taskcancel', 'pause', 'play', 'kill', 'resume'], k=5, invariants=INV)]
        rp = [dict(name='C04_env', progs=C.fam(C.ALL), plans=[[]], alphabet=alpha, k=3),
              dict(name='C04_reentrant', progs=C.fam(C.ALL), plans=kill_plans, alphabet=alpha, k=2),
              dict(name='C04_task_cancelled', progs=C.fam(C.ALL), plans=[[]], alphabet=['taskcancel', 'pause', 'play', 'kill', 'resume'], k=4)]
    return core_check.run_check(
        PID, tier, seed, mc, rp,
        level_text='TLC exhaustive + replay of every behaviour of the dumped state graphs into the real Process',
        assumptions=C.ASSUMPTIONS + ['KillFromAnywhere is AG EF made first-order by determinism: in every reachable live state TLC evaluates Drain(Kill(S)); the implementation side is covered through conformance of every behaviour that contains a kill'],
        suite_traces=lambda e: e[0] in ('cs', 'ce') and e[1] == 'kill',
        rule='every sequence of <=K requests from {kill,pause,play,resume,cancel-future} between any two callbacks, plus one re-entrant kill from a step body or a running/waiting/paused/played/output listener')


def replay(path):
    return core_check.replay_file(path)
