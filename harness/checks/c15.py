"""C15 - exposing ports copies exactly the selected ports, independently of the source (spec/Expose.tla).

TLC checks the operational Absorb / ExposePorts (clause-by-clause mirror of PortNamespace.absorb and
ProcessSpec._expose_ports) against the declarative SelectedOK / NsProps / Independent / MutuallyExclusive on every
instance of the bounded universe; every instance is then executed on the real ProcessSpec and compared (port tree,
outcome, memory, aliasing with the source, identity of the destination's surviving objects = InPlace), followed by
every single mutation of either side.  The destinations include existing EMPTY namespaces on the way to the target
namespace (n, n.m, n.m.k).  Repairs present in /repo are listed in harness/expose_model.FIXES
(override for experiments: VERIF_C15_FIXES="F14").
"""
from .. import expose_check

PID = 'C15'


def run(tier, seed):
    return expose_check.run_check(tier, seed)


def replay(path):
    return expose_check.replay_file(path)
