"""C20 - future adapters deliver result, error or cancellation exactly once (spec/Adapters.tla)."""
from .. import adapters_check

PID = 'C20'


def run(tier, seed):
    return adapters_check.run_check(tier, seed)


def replay(path):
    return adapters_check.replay_file(path)
