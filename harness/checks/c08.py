"""C08 - resuming from any checkpoint reproduces the uninterrupted execution (process programs and outlines)."""
import itertools
import json
import time

from .. import core_check, core_model, evidence, findings, outline_check, outline_model as om, tlc
from . import core_cfg as C

PID = 'C08'
PROC_INV = ['C08_StepsPrefix', 'C08_Equivalent', 'C13_Continuation', 'C06_ResumeValue', 'C07_SaveLoadSave']
OUT_INV = ['C09_Prefix', 'C09_Finished', 'C08_RoundTrip']
INPUTS = {'a': 1, 'n': {'b': 'x'}}


def save_plans(occs):
    pe = core_model.plan_entry
    return [[]] + [[pe('cb_entered', o, 'save')] for o in occs]


def crash_sets(max_unit, m):
    out = [()]
    for k in range(1, m + 1):
        out.extend(itertools.combinations(range(max_unit + 1), k))
    return out


def run(tier, seed):
    t0 = time.time()
    alpha = ['save', 'restore', 'resume']
    progs = ['P01', 'P02', 'P03', 'P04', 'P05', 'P06', 'P07', 'P08', 'P10', 'P12', 'P13', 'P14', 'P20', 'P21', 'P22', 'P23', 'P24']
    rk = lambda m: {'medium': m, 'listener': False, 'check_roundtrip': True, 'inputs': INPUTS}   # noqa
    # a checkpoint written from the paused hook at a step boundary (a pause requested while the step was in flight), as AiiDA does
    pe = core_model.plan_entry
    psave = [[]] + [[pe('on_paused', o, 'save')] for o in (1, 2)]
    pp = dict(name='C08_paused_hook', progs=C.fam(['P04', 'P05', 'P14', 'P22'] if tier == 'quick' else ['P04', 'P05', 'P09', 'P14', 'P22', 'P25']),
              plans=psave, alphabet=['pause', 'play', 'restore'] + ([] if tier == 'quick' else ['resume']), k=3 if tier == 'quick' else 4)
    if tier == 'quick':
        mc = [dict(name='C08_proc', progs=C.fam(progs), plans=save_plans((1, 2, 3, 4)), alphabet=alpha, k=3, invariants=PROC_INV)]
        rp = [dict(name='C08_proc', progs=C.fam(progs), plans=save_plans((1, 2, 3, 4)), alphabet=alpha, k=2, run_kw=rk('pickle')),
              dict(name='C08_raw_bundle', progs=C.fam(['P04', 'P20', 'P24']), plans=save_plans((1, 2, 3, 4)), alphabet=['restore'], k=1, run_kw=rk('none'))]
        outl = [('C08_outl', om.sample(om.family(4, 3), 600, seed), om.oracles(3), crash_sets(4, 1) + [(0, 1), (1, 2), (0, 2, 3)], 'pickle', 0),
                # the checkpoint kept by one of the library's persisters (one key per process: every checkpoint replaces the last
                # one), the instance abandoned right away or one unit later (the work since the checkpoint is lost and redone)
                ('C08_outl_mem', om.sample(om.family(4, 3), 300, seed + 1), om.oracles(3), crash_sets(4, 1) + [(0, 1), (1, 2), (0, 2, 3)], 'mem', 0),
                ('C08_outl_mem_late', om.sample(om.family(4, 3), 300, seed + 2), om.oracles(3), crash_sets(4, 1) + [(0, 2), (1, 3)], 'mem', 1),
                ('C08_outl_pfile_late', om.sample(om.family(4, 3), 150, seed + 3), om.oracles(3), crash_sets(3, 1) + [(0, 2)], 'pfile', 1),
                # the same checkpoint loaded several times in a row: every restored instance runs on for a unit (or two) and is abandoned
                # too; what it did (in-place updates of the context included) must not have reached the checkpoint that is kept
                ('C08_outl_mem_reload', om.sample(om.family(4, 3), 300, seed + 5), om.oracles(3), crash_sets(4, 1) + [(0, 2)], 'mem', 0, 1),
                ('C08_outl_reload2', om.sample(om.family(4, 3), 150, seed + 6), om.oracles(3), crash_sets(3, 1) + [(0, 3)], 'pickle', 2, 2)]
    else:
        mc = [dict(name='C08_proc', progs=C.fam(progs), plans=save_plans((1, 2, 3, 4, 5)), alphabet=alpha, k=5, invariants=PROC_INV)]
        rp = [dict(name='C08_proc_%s' % m, progs=C.fam(progs), plans=save_plans((1, 2, 3, 4, 5)), alphabet=alpha, k=3, run_kw=rk(m))
              for m in ('pickle', 'copy', 'yaml')]
        # a raw (unserialised) Bundle is only good for ONE restore: the loaded process shares mutable members with it
        rp.append(dict(name='C08_raw_bundle', progs=C.fam(progs), plans=save_plans((1, 2, 3, 4, 5)), alphabet=['restore', 'resume'], k=2, run_kw=rk('none'),
                       overrides=[('MaxRestores', 'MCMaxRestores')], extra_defs='MCMaxRestores == 1\n'))
        outl = [('C08_outl4', om.sample(om.family(4, 3), 2500, seed), om.oracles(4), crash_sets(5, 2), 'pickle', 0),
                ('C08_outl5', om.sample(om.family(5, 2), 1000, seed), om.oracles(4), crash_sets(6, 3), 'pickle', 0),
                ('C08_outl_yaml', om.sample(om.family(4, 3), 1000, seed), om.oracles(3), crash_sets(4, 1), 'yaml', 0),
                ('C08_outl_mem', om.sample(om.family(4, 3), 800, seed + 1), om.oracles(4), crash_sets(5, 2), 'mem', 0),
                ('C08_outl_mem_late', om.sample(om.family(4, 3), 800, seed + 2), om.oracles(4), crash_sets(5, 2), 'mem', 1),
                ('C08_outl_mem_late2', om.sample(om.family(4, 3), 400, seed + 4), om.oracles(4), crash_sets(5, 2), 'mem', 2),
                ('C08_outl_pfile_late', om.sample(om.family(4, 3), 400, seed + 3), om.oracles(4), crash_sets(5, 2), 'pfile', 1),
                ('C08_outl_mem_reload', om.sample(om.family(4, 3), 800, seed + 5), om.oracles(4), crash_sets(5, 2), 'mem', 0, 2),
                ('C08_outl_mem_late_reload', om.sample(om.family(4, 3), 600, seed + 7), om.oracles(4), crash_sets(5, 2), 'mem', 1, 1),
                ('C08_outl_pfile_reload', om.sample(om.family(4, 3), 300, seed + 8), om.oracles(4), crash_sets(5, 1), 'pfile', 0, 2),
                ('C08_outl_reload2', om.sample(om.family(4, 3), 600, seed + 6), om.oracles(4), crash_sets(5, 2), 'yaml', 2, 2)]
    mc.append(dict(pp, invariants=['C07_SaveLoadSave']))
    rp.append(dict(pp, run_kw=rk('pickle')))
    # outlines: TLC (stepper save/load inside the run) + every behaviour with real checkpoint/abandon/restore
    viol = 0
    ostates = ogen = oreplayed = 0
    osumm, osamples = [], []
    for name, outlines, oracles, crashes, medium, lag, *more in outl:
        reloads = more[0] if more else 0
        r = outline_check.model_and_replay(name, outlines, oracles, crash_sets=crashes, invariants=OUT_INV, medium=medium, lag=lag, reloads=reloads)
        res = r['tlc']
        ostates += res.distinct
        ogen += res.generated
        osumm.append({'instance': name, 'outlines': len(outlines), 'oracles': len(oracles), 'crash_sets': len(crashes), 'medium': medium, 'lag': lag, 'reloads': reloads,
                      'behaviours': r['behaviours'], 'mismatches': len(r['mismatches']), 'tlc_s': round(r['tlc_s'], 1),
                      'replay_s': round(r.get('replay_s', 0), 1)})
        if res.violated:
            path = core_check.write_replay(PID, 'tlc', {'kind': 'tlc-counterexample', 'violated': res.violated,
                                                        'trace': [{'action': a, 'state': s} for a, s in res.trace()]})
            print('TLC: %s violated on the outline model' % res.violated)
            print('VIOLATION property=%s replay=%s' % (PID, path))
            viol += 1
            continue
        if not res.ok:
            raise tlc.MachineryError(res.out[-3000:])
        oreplayed += r['behaviours']
        for key, why, got in r['mismatches'][:5]:
            oi, ri, ci = key
            path = core_check.write_replay(PID, 'outline', {'kind': 'outline-mismatch', 'outline': outlines[oi - 1], 'oracle': oracles[ri - 1],
                                                            'crash_at': list(crashes[ci - 1]), 'medium': medium, 'lag': lag, 'reloads': reloads, 'why': why,
                                                            'expected_units': r['expected'][key][0], 'expected_result': r['expected'][key][1], 'got': got})
            print('MISMATCH outline=%s oracle=%s crash_at=%s medium=%s lag=%d reloads=%d: %s' % (json.dumps(outlines[oi - 1]), oracles[ri - 1], list(crashes[ci - 1]), medium, lag, reloads, why))
            print('VIOLATION property=%s replay=%s' % (PID, path))
        viol += len(r['mismatches'])
        keys = sorted(k for k in r['expected'] if crashes[k[2] - 1])
        if keys:
            k = keys[len(keys) // 2]
            osamples.append({'outline': outlines[k[0] - 1], 'oracle': oracles[k[1] - 1], 'crash_after_units': list(crashes[k[2] - 1]),
                             'units': r['expected'][k][0], 'result': r['expected'][k][1]})
    return core_check.run_check(
        PID, tier, seed, mc, rp,
        level_text='TLC exhaustive + replay with real Bundle/unbundle into a fresh event loop',
        assumptions=C.ASSUMPTIONS + ['steps depend only on persisted state (trace and oracle position live in ctx; continuation arguments in the state)',
                                     'checkpoints are taken at state entries (ENTERED_STATE callback) and at quiescent points; the abandoned instance is dropped'],
        rule='process programs: every placement of <=K save/restore/resume actions plus a checkpoint at the k-th state entry, several restores in a row; '
             'outlines: every crash set of <=M unit boundaries for every (outline, oracle); checkpoints carried by pickle / YAML, or kept by '
             'InMemoryPersister / PicklePersister, the instance abandoned 0, 1 or 2 units after the checkpoint, the same checkpoint loaded up to three times in a row',
        extra_violations=viol,
        extra_cov={'outline_runs': osumm, 'outline_samples': osamples, 'outline_states': ostates, 'outline_behaviours_on_impl': oreplayed})


def replay(path):
    rec = json.load(open(path))
    if rec.get('kind') == 'outline-mismatch':
        import logging
        logging.disable(logging.CRITICAL)
        from .. import outline_real
        got = outline_real.run_outline(rec['outline'], rec['oracle'], crash_at=rec.get('crash_at', ()), medium=rec.get('medium', 'pickle'),
                                       lag=rec.get('lag', 0), loaders=rec.get('loaders', 'default'), reloads=rec.get('reloads', 0))
        print('expected:', rec['expected_units'], rec['expected_result'])
        print('got     :', got)
        return 0 if (got['units'], got['result']) == (rec['expected_units'], rec['expected_result']) else 1
    return core_check.replay_file(path)
