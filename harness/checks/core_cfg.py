"""Bounded instances shared by the ProcessCore checks."""
from .. import core_check, core_model

ALL = ['P01', 'P02', 'P03', 'P04', 'P05', 'P06', 'P07', 'P08', 'P09', 'P10', 'P12', 'P13', 'P14', 'P25']
SMALL = ['P03', 'P04', 'P05', 'P12']
REQS4 = [('kill', 'k2'), ('pause', 'p2'), ('play', '-'), ('resume', 'v2')]

ASSUMPTIONS = [
    'bounded: the program family of DESIGN.md appendix D, at most K environment requests per behaviour, at most one planned re-entrant request',
    'the single-stepping loop (harness/vloop.py) realises asyncio semantics for call_soon/futures/tasks (pure-python tasks)',
    'conformance is by exact comparison of the public projection and the event log after every action; TLC invariants transfer to the implementation only for behaviours inside the bounds',
    'repairs modelled as present: ' + ', '.join(core_check.FIXES),
]


def fam(names):
    return core_model.family(names)
