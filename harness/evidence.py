"""evidence/<id>.json writer (validated against /root/.vp/EVIDENCE.schema.json when available)."""
import json
import os

VERIF = os.path.dirname(os.path.dirname(os.path.abspath(__file__)))
SCHEMA = '/root/.vp/EVIDENCE.schema.json'


def write(pid, tier, seed, level, coverage, wall_s, violations=0, assumptions=(), extra=None):
    ev = {
        'property_id': pid,
        'tier': tier,
        'seed': int(seed),
        'level': level,
        'coverage': coverage,
        'assumptions': list(assumptions),
        'wall_s': round(float(wall_s), 2),
        'violations': int(violations),
    }
    if extra:
        ev.update(extra)
    # (tools that run the checks against a modified copy of the source - seeded changes, the false-alarm battery - divert the
    #  evidence with VERIF_EVIDENCE_DIR so that /verif/evidence always describes a run against /repo itself)
    edir = os.environ.get('VERIF_EVIDENCE_DIR') or os.path.join(VERIF, 'evidence')
    os.makedirs(edir, exist_ok=True)
    path = os.path.join(edir, '%s.json' % pid)
    try:
        import jsonschema
        if os.path.exists(SCHEMA):
            jsonschema.validate(ev, json.load(open(SCHEMA)))
    except ImportError:
        pass
    with open(path, 'w') as fh:
        json.dump(ev, fh, indent=1, sort_keys=True, default=str)
    return path
