"""Bounded instances of spec/ProcessCore.tla: program families, plans, MC module generation."""
from . import tlaval


def step(kind='sync', n=0, status='-', emits=(), cmd='stop', next=0, args=(), kw=(), val='-', aws=(), via='return', makes=()):
    return {'kind': kind, 'n': n, 'status': status, 'emits': [list(e) for e in emits], 'cmd': cmd, 'next': next,
            'args': list(args), 'kw': [list(p) for p in kw], 'val': val, 'aws': list(aws), 'via': via, 'makes': list(makes) or list(aws)}


# The program family of DESIGN.md Appendix D (values are model strings; "vN" is the integer N).
PROGS = {
    'P01': [step(cmd='stop', val='v7')],
    'P02': [step(cmd='continue', next=2), step(cmd='stop', val='v7')],
    'P03': [step(cmd='wait', next=2, val='w1'), step(cmd='stop', val='v7')],
    'P04': [step('async', 2, cmd='continue', next=2, args=['v1'], kw=[['x', 'v3']]), step(cmd='stop', val='v0')],
    'P05': [step('async', 1, cmd='wait', next=2, val='w1'), step('async', 1, cmd='stop', val='v7')],
    'P06': [step(cmd='continue', next=2), step(cmd='wait', next=3, val='w2'), step(cmd='unsucc', val='v3')],
    'P07': [step(cmd='kill', val='bye')],
    'P08': [step(cmd='raise', val='E1')],
    # the Kill command without a message (Kill() / Kill(msg=None)): no kill text anywhere ('NOMSG' stands for its absence)
    'P25': [step('async', 1, cmd='continue', next=2), step(cmd='kill', val='NOMSG')],
    # an output that cannot be copied ('lk': a lock), emitted by the last step of a successful run
    'P26': [step(emits=[['o1', 'lk']], cmd='stop', val='v7')],
    'P09': [step('async', 2, cmd='raise', val='E1')],
    'P10': [step(cmd='wait', next=2, val='w1'), step(cmd='wait', next=3, val='w2'), step(cmd='stop', val='v7')],
    'P12': [step(emits=[['o1', 'v1']], cmd='continue', next=2), step(emits=[['o2', 'v2']], cmd='stop', val='v7')],
    'P13': [step(status='s1', cmd='wait', next=2, val='w1'), step(cmd='stop', val='v7')],
    'P14': [step('async', 1, status='s1', cmd='continue', next=2, args=['v1', 'v2']), step('async', 1, cmd='stop', val='v5')],
}

# C13: chains exercising every command with positional/keyword arguments and resume values
PROGS.update({
    'P20': [step(cmd='continue', next=2, args=['v1', 'v2'], kw=[['x', 'v3']]), step(cmd='continue', next=3, kw=[['x', 'v4'], ['y', 'v5']]),
            step(cmd='unsucc', val='v9')],
    'P21': [step(cmd='wait', next=2, val='w1'), step(cmd='continue', next=3, args=['v1']), step(cmd='kill', val='bye')],
    'P22': [step('async', 1, cmd='continue', next=2, args=['v1'], kw=[['x', 'v3']]), step(cmd='wait', next=3, val='w1'),
            step('async', 1, cmd='stop', val='v0')],
    'P23': [step(cmd='continue', next=2, args=['v0']), step(cmd='stop', val='-')],
    # mutable continuation arguments ("m1" is a list the receiving step consumes in place)
    'P24': [step(cmd='continue', next=2, args=['m1'], kw=[['x', 'm2']]), step(cmd='continue', next=3, args=['m3']), step(cmd='stop', val='v1')],
})

# WorkChain programs with awaitables (linear outlines; awt = context keys of the awaitables, by index)
PROGS.update({
    'W1': [step(cmd='await', next=2, aws=[1, 2]), step(cmd='stop', val='-')],
    'W2': [step(cmd='await', next=2, aws=[1, 2], via='call'), step(cmd='stop', val='-')],
    'W3': [step(cmd='await', next=2, aws=[1]), step(cmd='await', next=3, aws=[2]), step(cmd='stop', val='-')],
    'W4': [step(cmd='await', next=2, aws=[1, 2, 3]), step(cmd='stop', val='-')],
    'W5': [step(cmd='continue', next=2), step(cmd='await', next=3, aws=[1, 2]), step(cmd='stop', val='-')],
})
# W6: both items are created (children: launched) by step 1, the second one is handed to the context only by step 2,
# possibly after it has already completed, failed or been killed
PROGS['W6'] = [step(cmd='await', next=2, aws=[1], makes=[1, 2]), step(cmd='await', next=3, aws=[2], via='call'), step(cmd='stop', val='-')]
AWT = {'W6': ['a', 'b'], 'W1': ['a', 'b'], 'W2': ['a', 'b'], 'W3': ['a', 'a'], 'W4': ['a', 'b', 'c'], 'W5': ['a', 'b']}

ALL_REQUESTS = ['kill', 'pause', 'play', 'resume', 'fail', 'cancel', 'cbok', 'cbraise']


def plan_entry(hook, occ, req, arg='-'):
    return {'hook': hook, 'occ': occ, 'req': req, 'arg': arg}


def family(names, out_missing=()):
    """[{'name','steps','outMissing'}] for TLA+ constant Progs"""
    return [{'name': n, 'steps': PROGS[n], 'outMissing': n in out_missing, 'awt': AWT.get(n, [])} for n in names]


def mc_module(name, progs, plans=((),), fixes=(), alphabet=ALL_REQUESTS, k=2, extra_defs='', cfg_extra='',
              base='ProcessProps', spec='Spec', overrides=()):
    """progs: list of {'name','steps','outMissing'}; plans: list of plans (each a list of plan entries)."""
    tla = '---- MODULE %s ----\nEXTENDS %s\n' % (name, base)
    tla += 'MCProgs == %s\n' % tlaval.emit(list(progs))
    tla += 'MCPlans == %s\n' % tlaval.emit([list(p) for p in plans])
    tla += 'MCFixes == %s\n' % tlaval.emit(set(fixes))
    tla += 'MCAlphabet == %s\n' % tlaval.emit(set(alphabet))
    tla += extra_defs
    tla += '====\n'
    cfg = 'SPECIFICATION %s\nCHECK_DEADLOCK FALSE\nCONSTANTS\n Progs <- MCProgs\n Plans <- MCPlans\n Fixes <- MCFixes\n' % spec
    cfg += ' Alphabet <- MCAlphabet\n K = %d\n' % k
    for lhs, rhs in overrides:
        cfg += ' %s <- %s\n' % (lhs, rhs)
    cfg += cfg_extra
    return tla, cfg
