"""The implementation side of spec/Launcher.tla (C17).

`World` is one configuration of a real plumpy.ProcessLauncher (persister or none, InMemoryPersister / PicklePersister in a
scratch directory, default or custom object loader, with or without a caller-supplied load_context, style of the constructor arguments) on the single-stepping loop of
harness/vloop.py.  The actions of the specification are performed on it

  * directly: `launcher(communicator, task_body)` as a task of the loop (route 'direct'), or
  * through the whole path  controller -> in-process communicator wrapped by plumpy's LoopCommunicator -> launcher subscribed
    as task subscriber (routes 'coro': RemoteProcessController, 'thread': RemoteProcessThreadController; a create task
    followed by the continue task of the created process may be sent as ONE execute_process call),

and after every action the observations are projected into the vocabulary of the specification: the outcome of every reply
future, the content of the persister, the processes that exist in the launcher's interpreter with the trace of the step
functions they executed, and the log of the counting object loaders.

Nothing of plumpy is changed: the process classes below are ordinary user subclasses (they override `init`,
`load_instance_state` and their step functions to leave a trace; Late also `on_finished`; Chain is a WorkChain that keeps its
working data in `self.ctx`; Opt declares its only input port optional and without a default, so that an instance constructed
without arguments has EMPTY parsed inputs, and reads `self.inputs` in run), the loaders are ordinary ObjectLoader subclasses.
"""
import asyncio
import logging
import os
import pickle
import shutil
import tempfile
import uuid
import warnings

import kiwipy
import plumpy
from plumpy import loaders, persistence, process_comms
from plumpy import futures as pfutures
from plumpy import process_states as ps

from . import vloop

warnings.filterwarnings('ignore', category=RuntimeWarning, message='coroutine .* was never awaited')
logging.getLogger('plumpy').setLevel(logging.CRITICAL)

SCRATCH_BASE = '/dev/shm' if os.path.isdir('/dev/shm') and os.access('/dev/shm', os.W_OK) else None
LABEL = {ps.ProcessState.CREATED: 'CREATED', ps.ProcessState.RUNNING: 'RUNNING', ps.ProcessState.WAITING: 'WAITING',
         ps.ProcessState.FINISHED: 'FINISHED', ps.ProcessState.EXCEPTED: 'EXCEPTED', ps.ProcessState.KILLED: 'KILLED'}


# ---- the process classes of the specification --------------------------------------------------------------------
class Boom(Exception):
    """The error of class Exc."""


class StoreFail(Exception):
    """The error of class Late (raised by on_finished, after the process future was resolved with the outputs)."""


_WORLD = [None]          # the World whose interpreter the instances live in
_SILENT = [0]            # > 0 while the harness itself recreates processes to look into a checkpoint


class _TracedMixin:
    CLS = '-'
    OPTIONAL_INPUT = False       # True: the port v is optional and has no default (ParsedInputs of the specification)

    @classmethod
    def define(cls, spec):
        super().define(spec)
        if cls.OPTIONAL_INPUT:
            spec.input('v', valid_type=int, required=False)
        else:
            spec.input('v', valid_type=int, default=0)
        spec.outputs.dynamic = True

    def load_instance_state(self, saved_state, load_context):
        super().load_instance_state(saved_state, load_context)
        self._verif_loaded = True

    def init(self):
        super().init()
        # common end of construction and of recreation: the instance now exists in this interpreter
        if not _SILENT[0] and _WORLD[0] is not None:
            _WORLD[0].register(self, 'loaded' if getattr(self, '_verif_loaded', False) else 'new')

    def _trace(self, name):
        steps = getattr(self, '_verif_steps', None)
        if steps is not None:
            steps.append(name)


class _Traced(_TracedMixin, plumpy.Process):
    pass


class FinProc(_Traced):
    CLS = 'Fin'

    def run(self):
        self._trace('run')
        self.out('v', self.inputs.v)
        self.out('s', 1)


class ExcProc(_Traced):
    CLS = 'Exc'

    def run(self):
        self._trace('run')
        self.out('v', self.inputs.v)
        raise Boom('boom')


class WaitProc(_Traced):
    CLS = 'Wait'

    def run(self):
        self._trace('run')
        self.out('v', self.inputs.v)
        return ps.Wait(self.after)

    def after(self, *_args):
        self._trace('after')
        self.out('s', 2)


class LateProc(_Traced):
    """Finishes, then fails while handling its own completion: FINISHED is entered (the process future is resolved with the
    outputs), on_finished raises, plumpy enters EXCEPTED and replaces the resolved future by one carrying the error."""
    CLS = 'Late'

    def run(self):
        self._trace('run')
        self.out('v', self.inputs.v)
        self.out('s', 1)

    def on_finished(self):
        super().on_finished()
        raise StoreFail('could not store the results')


class OptProc(_Traced):
    """Its only input is optional and has no default: constructed without arguments its parsed inputs are an empty (but
    existing) mapping, which run() reads the way user code does."""
    CLS = 'Opt'
    OPTIONAL_INPUT = True

    def run(self):
        self._trace('run')
        self.out('v', self.inputs.get('v', 1))
        self.out('g', 'v' in self.inputs)


class ChainProc(_TracedMixin, plumpy.WorkChain):
    """A WorkChain that keeps its working data in the context (a saved member the running process goes on changing), with the
    usual 'only initialise what a checkpointed step did not leave behind' idiom."""
    CLS = 'Chain'

    @classmethod
    def define(cls, spec):
        super().define(spec)
        spec.outline(cls.gather, cls.report)

    def gather(self):
        self._trace('gather')
        self.ctx.setdefault('items', []).append('item')

    def report(self):
        self._trace('report')
        self.out('v', self.inputs.v)
        self.out('n', len(self.ctx.items))


CLASSES = {'Fin': FinProc, 'Exc': ExcProc, 'Wait': WaitProc, 'Late': LateProc, 'Chain': ChainProc, 'Opt': OptProc}
DEFAULT_NAMES = {'%s:%s' % (c.__module__, c.__name__): k for k, c in CLASSES.items()}
CUSTOM_NAMES = {'custom:%s' % k: k for k in CLASSES}


# ---- counting loaders -----------------------------------------------------------------------------------------
class CountingDefaultLoader(loaders.DefaultObjectLoader):
    """DefaultObjectLoader that writes down which identifiers it is asked to resolve."""
    WHO = 'default'

    def __init__(self):
        self.events = None
        self._identifying = 0

    def load_object(self, identifier):
        if self.events is not None and not self._identifying and not _SILENT[0]:
            self.events.append((self.WHO, identifier))
        return super().load_object(identifier)

    def identify_object(self, obj):
        self._identifying += 1          # DefaultObjectLoader.identify_object checks by loading: not a resolution
        try:
            return super().identify_object(obj)
        finally:
            self._identifying -= 1


class CustomLoader(CountingDefaultLoader):
    """A loader with aliases of its own for the process classes, kept in a table of the INSTANCE (as a loader filled from
    entry points at start-up would): only the configured instance resolves them, a second instance of the class or the
    global default loader cannot.  Everything else as the default loader."""
    WHO = 'custom'

    def __init__(self, registry=None):
        super().__init__()
        self.registry = dict(registry or {})

    def load_object(self, identifier):
        if identifier in self.registry:
            if self.events is not None and not self._identifying and not _SILENT[0]:
                self.events.append((self.WHO, identifier))
            return self.registry[identifier]
        return super().load_object(identifier)

    def identify_object(self, obj):
        for alias, cls in self.registry.items():
            if obj is cls:
                return alias
        return super().identify_object(obj)


# ---- in-process communicator ----------------------------------------------------------------------------------
class InProcessCommunicator(kiwipy.CommunicatorHelper):
    """Stand-in for the RabbitMQ communicator, one thread, same conventions as kiwipy.rmq:

    task_send returns a future that resolves (delivery) to a second future holding the outcome of the task; subscribers are
    tried in order; a subscriber that raises TaskRejected - synchronously or through the chain of futures it returned - has
    not taken the task and the next one is tried; when nobody takes it the outcome is TaskRejected (the broker would keep
    the task queued)."""

    def task_send(self, task, no_reply=False):
        self._ensure_open()
        delivered = kiwipy.Future()
        outcome = kiwipy.Future()
        subscribers = list(self._task_subscribers.values())

        def attempt(i):
            if i >= len(subscribers):
                outcome.set_exception(kiwipy.TaskRejected('no subscriber took the task'))
                return
            try:
                result = subscribers[i](self, task)
            except kiwipy.TaskRejected:
                attempt(i + 1)
                return
            except Exception as exc:  # noqa
                outcome.set_exception(exc)
                return
            settle(result, i)

        def settle(result, i):
            if isinstance(result, kiwipy.Future):
                result.add_done_callback(lambda f: done(f, i))
            else:
                outcome.set_result(result)

        def done(fut, i):
            if fut.cancelled():
                outcome.cancel()
                return
            exc = fut.exception()
            if isinstance(exc, kiwipy.TaskRejected):
                attempt(i + 1)
            elif exc is not None:
                outcome.set_exception(exc)
            else:
                settle(fut.result(), i)

        attempt(0)
        if no_reply:
            return None
        delivered.set_result(outcome)
        return delivered

    def rpc_send(self, recipient_id, msg):
        return self.fire_rpc(recipient_id, msg)

    def broadcast_send(self, body, sender=None, subject=None, correlation_id=None):
        return self.fire_broadcast(body, sender=sender, subject=subject, correlation_id=correlation_id)


# ---- the world ------------------------------------------------------------------------------------------------
def is_process_start(handle):
    """A ready handle that belongs to a stepping task created by `asyncio.ensure_future(proc.step_until_terminated())`."""
    owner = vloop.owner_of(handle)
    if owner is None:
        return False
    coro = owner.get_coro()
    return getattr(coro, '__qualname__', '').endswith('step_until_terminated')


def error_name(exc, kind):
    if isinstance(exc, kiwipy.TaskRejected):
        return 'TaskRejected'
    if isinstance(exc, Boom):
        return 'Boom'
    if isinstance(exc, StoreFail):
        return 'StoreFail'
    # a missing checkpoint: which exception class the persister raises is C14's business (finding D14b)
    if isinstance(exc, plumpy.PersistenceError) or (kind == 'mem' and type(exc) is KeyError) \
            or (kind == 'pickle' and type(exc) is FileNotFoundError):
        return 'NoCheckpoint'
    return type(exc).__name__


class World:
    def __init__(self, cfg, route='direct'):
        self.cfg = cfg
        self.route = route
        self.loop = vloop.install()
        self.events = []                 # (loader, identifier) resolutions
        self.global_loader = CountingDefaultLoader()
        self.global_loader.events = self.events
        loaders.set_object_loader(self.global_loader)
        self.custom = None
        if cfg['loader'] == 'custom':
            self.custom = CustomLoader({'custom:%s' % k: c for k, c in CLASSES.items()})
            self.custom.events = self.events
        self.dir = None
        self.persister = None
        if cfg['hasP']:
            if cfg['kind'] == 'mem':
                self.persister = plumpy.InMemoryPersister(loader=self.custom)
            else:
                self.dir = tempfile.mkdtemp(prefix='verif-c17-', dir=SCRATCH_BASE)
                self.persister = plumpy.PicklePersister(self.dir)
        kwargs = {}
        if cfg.get('ctx'):
            # a caller-supplied load context carrying unrelated runtime data (no loader in it)
            kwargs['load_context'] = plumpy.LoadSaveContext(runtime_marker='verif')
        self.launcher = plumpy.ProcessLauncher(loop=self.loop, persister=self.persister, loader=self.custom, **kwargs)
        self.insts = []                  # instances in order of appearance
        self.meta = []                   # per instance: origin, from (state, outputs) when loaded, steps
        self.newpids = []                # real pids of constructed processes, in construction order: model pid = index + 1
        self.replies = []                # per task: a future-like (asyncio task / kiwi future) or ('implied', pid)
        self.log = []                    # [task, loader, scheme, class]
        self.ntask = 0
        self.decoded = {}                # pickled bundle -> what it describes (cache of store())
        self.ghost = uuid.uuid4()        # the pid no process ever had
        self.comm = None
        if route != 'direct':
            self.inner = InProcessCommunicator()
            self.comm = plumpy.wrap_communicator(self.inner, self.loop)
            self.comm.add_task_subscriber(self.launcher)
            self.controller = (process_comms.RemoteProcessController if route == 'coro'
                               else process_comms.RemoteProcessThreadController)(self.comm)
        _WORLD[0] = self

    def close(self):
        _WORLD[0] = None
        loaders.set_object_loader(None)
        if self.dir:
            shutil.rmtree(self.dir, ignore_errors=True)
        for t in self.loop.tasks:        # do not leave 'task was destroyed but it is pending' noise behind
            if not t.done():
                t._log_destroy_pending = False
        asyncio.set_event_loop(None)

    # ---- instances ---------------------------------------------------------------------------------------
    def register(self, proc, origin):
        proc._verif_steps = []
        self.insts.append(proc)
        frm = ([LABEL[proc.state], outs_of(proc.outputs), ctx_of(proc), err_of(proc, self.cfg['kind'])] if origin == 'loaded'
               else ['-', [], [], '-'])
        self.meta.append({'origin': origin, 'from': frm})
        if origin == 'new':
            self.newpids.append(proc.pid)

    def mpid(self, pid):
        """real pid -> pid of the specification"""
        if pid in self.newpids:
            return self.newpids.index(pid) + 1
        return 'unknown:%r' % (pid,)

    def rpid(self, mp):
        return self.ghost if mp == 0 else self.newpids[mp - 1]

    # ---- running the loop --------------------------------------------------------------------------------
    def run_plumbing(self):
        """Run everything that is ready except the first turn of the stepping tasks created with nowait
        (the specification gives those their turn in RunLoop)."""
        n = 0
        while True:
            self.loop.peek()            # promotes a due timer if nothing else is ready
            pick = None
            for h in self.loop.ready:
                if not h._cancelled and not is_process_start(h):
                    pick = h
                    break
            if pick is None:
                return
            self.loop.ready.remove(pick)
            self.loop.ready.appendleft(pick)
            self.loop.step_one()
            n += 1
            if n > 100000:
                raise RuntimeError('runaway loop')

    # ---- the actions of the specification ------------------------------------------------------------------
    def args(self):
        arg = self.cfg['arg']
        if arg == 'pos':
            return [{'v': 7}], None
        if arg == 'kw':
            return None, {'inputs': {'v': 7}}
        if arg == 'bad':
            return None, {'inputs': {'v': 'seven'}}
        return None, None

    def body(self, t):
        ia, ik = self.args()
        if t['type'] == 'launch':
            return process_comms.create_launch_body(CLASSES[t['cls']], ia, ik, persist=t['persist'], loader=self.custom,
                                                    nowait=t['nowait'])
        if t['type'] == 'create':
            return process_comms.create_create_body(CLASSES[t['cls']], ia, ik, persist=t['persist'], loader=self.custom)
        if t['type'] == 'continue':
            return process_comms.create_continue_body(self.rpid(t['pid']), None if t['tag'] == 'None' else t['tag'],
                                                      nowait=t['nowait'])
        return {process_comms.TASK_KEY: 'no-such-task-type', process_comms.TASK_ARGS: {}}

    def _mark(self):
        return len(self.events)

    def _collect(self, mark, k):
        """Resolutions of process-class names since `mark` belong to task k."""
        for who, ident in self.events[mark:]:
            self._collect_one(who, ident, k)

    def task(self, t):
        """Send one task and let the launcher take it as far as it goes without the turn of the loop."""
        self.ntask += 1
        k = self.ntask
        mark = self._mark()
        if self.route == 'direct':
            fut = self.loop.create_task(self.launcher(self.comm, self.body(t)))
        elif self.route == 'coro' and t['type'] == 'launch':
            ia, ik = self.args()
            fut = self.loop.create_task(self.controller.launch_process(
                CLASSES[t['cls']], ia, ik, persist=t['persist'], loader=self.custom, nowait=t['nowait']))
        elif self.route == 'coro' and t['type'] == 'continue':
            fut = self.loop.create_task(self.controller.continue_process(
                self.rpid(t['pid']), None if t['tag'] == 'None' else t['tag'], nowait=t['nowait']))
        elif self.route == 'thread' and t['type'] == 'launch':
            ia, ik = self.args()
            fut = pfutures.unwrap_kiwi_future(self.controller.launch_process(
                CLASSES[t['cls']], ia, ik, persist=t['persist'], loader=self.custom, nowait=t['nowait']))
        elif self.route == 'thread' and t['type'] == 'continue':
            fut = pfutures.unwrap_kiwi_future(self.controller.continue_process(
                self.rpid(t['pid']), None if t['tag'] == 'None' else t['tag'], nowait=t['nowait']))
        elif self.route == 'thread':
            fut = pfutures.unwrap_kiwi_future(self.controller.task_send(self.body(t)))
        else:
            fut = pfutures.unwrap_kiwi_future(self.comm.task_send(self.body(t)))
        self.replies.append(fut)
        self.run_plumbing()
        self._collect(mark, k)

    def execute(self, t_create, t_continue):
        """create(persist) + continue(created pid) as ONE controller.execute_process call (two tasks of the specification)."""
        ia, ik = self.args()
        k = self.ntask + 1
        self.ntask += 2
        before = len(self.newpids)
        mark = self._mark()
        cls = CLASSES[t_create['cls']]
        if self.route == 'coro':
            fut = self.loop.create_task(self.controller.execute_process(cls, ia, ik, loader=self.custom, nowait=t_continue['nowait']))
        else:
            fut = pfutures.unwrap_kiwi_future(self.controller.execute_process(cls, ia, ik, loader=self.custom,
                                                                              nowait=t_continue['nowait']))
        self.run_plumbing()
        # the reply of the create task is consumed by execute_process: what it was shows in what was continued
        created = self.newpids[before] if len(self.newpids) > before else None
        self.replies.append(('implied', created))
        self.replies.append(fut)
        # attribute the resolutions: the first one belongs to the create task, the rest to the continue task
        first = True
        for who, ident in self.events[mark:]:
            if ident in DEFAULT_NAMES or ident in CUSTOM_NAMES:
                self._collect_one(who, ident, k if first else k + 1)
                first = False

    def _collect_one(self, who, ident, k):
        if ident in DEFAULT_NAMES:
            self.log.append([k, who, 'd', DEFAULT_NAMES[ident]])
        elif ident in CUSTOM_NAMES:
            self.log.append([k, who, 'c', CUSTOM_NAMES[ident]])

    def runloop(self):
        self.loop.drain()

    def resume(self, i):
        self.insts[i - 1].resume()
        self.loop.drain()

    def save(self, i, tag):
        self.persister.save_checkpoint(self.insts[i - 1], None if tag == 'None' else tag)

    # ---- observation -------------------------------------------------------------------------------------
    def reply(self, fut):
        if isinstance(fut, tuple):
            return ['pid', self.mpid(fut[1])] if fut[1] is not None else ['error', 'not-created']
        if not fut.done():
            return ['pending']
        if fut.cancelled():
            return ['cancelled']
        exc = fut.exception()
        if exc is not None:
            name = error_name(exc, self.cfg['kind'])
            return ['rejected'] if name == 'TaskRejected' else ['error', name]
        res = fut.result()
        if isinstance(res, dict):
            return ['outputs', outs_of(res)]
        return ['pid', self.mpid(res)]

    def store(self):
        out = {}
        if self.persister is None:
            return out
        _SILENT[0] += 1
        try:
            for cp in self.persister.get_checkpoints():
                stored = self.persister.load_checkpoint(cp.pid, cp.tag)
                raw = pickle.dumps(stored)
                val = self.decoded.get(raw)
                if val is None:
                    bundle = pickle.loads(raw)          # a private copy: looking must not disturb the stored bundle
                    name = bundle[persistence.META][persistence.META__CLASS_NAME]
                    scheme = 'd' if name in DEFAULT_NAMES else 'c' if name in CUSTOM_NAMES else 'other:%s' % name
                    # look into the checkpoint the public way: recreate the process it describes (in a loop of its own)
                    twin = bundle.unbundle(plumpy.LoadSaveContext(loader=self.custom, loop=vloop.VLoop()))
                    val = self.decoded[raw] = (twin.pid, [getattr(twin, 'CLS', type(twin).__name__), scheme, LABEL[twin.state],
                                                          ins_of(twin.inputs), outs_of(twin.outputs), ctx_of(twin),
                                                          err_of(twin, self.cfg['kind'])])
                key = '%s/%s' % (self.mpid(cp.pid), 'None' if cp.tag is None else cp.tag)
                if val[0] != cp.pid:
                    key += '!pid-mismatch'
                out[key] = val[1]
        finally:
            _SILENT[0] -= 1
        return out

    def procs(self):
        out = []
        for p, m in zip(self.insts, self.meta):
            out.append([self.mpid(p.pid), p.CLS, m['origin'], m['from'], LABEL[p.state], ins_of(p.inputs), outs_of(p.outputs),
                        ctx_of(p), err_of(p, self.cfg['kind']), list(p._verif_steps)])
        return out

    def projection(self):
        errs = []
        while self.loop.errors:
            ctx = self.loop.errors.pop(0)
            errs.append(type(ctx.get('exception')).__name__ if ctx.get('exception') else str(ctx.get('message')))
        return {'replies': [self.reply(f) for f in self.replies], 'store': self.store(), 'procs': self.procs(),
                'log': [list(e) for e in self.log], 'looperr': errs}


def outs_of(d):
    return [[k, str(v)] for k, v in d.items()]


def ins_of(inputs):
    """The parsed inputs of a process (Process.inputs) as the list of its items; 'None' if the process has no mapping at all."""
    if inputs is None:
        return 'None'
    return [[k, str(v)] for k, v in inputs.items()]


def ctx_of(proc):
    """The working data of a process with a context: the list ctx.items (the only key the classes here use); [] without one."""
    ctx = getattr(proc, 'ctx', None)
    if ctx is None:
        return []
    data = dict(vars(ctx))
    items = [str(x) for x in data.pop('items', [])]
    return items + ['other:%s' % k for k in sorted(data)]


def err_of(proc, kind):
    """The error a process ended with (Process.exception()), '-' if it did not end EXCEPTED."""
    exc = proc.exception()
    return '-' if exc is None else error_name(exc, kind)


# ---- the specification's state in the same shape ---------------------------------------------------------------
def project_model(S):
    def reply(r):
        k = r['kind']
        if k == 'pending':
            return ['pending']
        if k == 'pid':
            return ['pid', r['pid']]
        if k == 'outputs':
            return ['outputs', norm(r['outs'])]
        if k == 'rejected':
            return ['rejected']
        return ['error', r['err']]
    store = {}
    st = S['store']
    if isinstance(st, dict):
        for key, snap in st.items():
            store['%s/%s' % (key[0], key[1])] = [snap['cls'], snap['name'], snap['st'], norm(snap['ins']), norm(snap['outs']),
                                                 norm(snap['ctx']), snap['err']]
    procs = [[p['pid'], p['cls'], p['origin'], [p['from']['st'], norm(p['from']['outs']), norm(p['from']['ctx']), p['from']['err']],
              p['st'], norm(p['ins']), norm(p['outs']), norm(p['ctx']), p['err'], list(p['steps'])] for p in S['procs']]
    return {'replies': [reply(r) for r in S['replies']], 'store': store, 'procs': procs,
            'log': [[e['task'], e['loader'], e['name'], e['cls']] for e in S['log']], 'looperr': []}


def norm(e):
    if isinstance(e, (tuple, list)):
        return [norm(x) for x in e]
    return e


def diff(want, got):
    return [[f, want[f], got[f]] for f in ('replies', 'store', 'procs', 'log', 'looperr') if want[f] != got[f]]


# ---- replay of one behaviour -----------------------------------------------------------------------------------
def replay_states(states, route='direct', use_execute=False, verbose=False):
    """states: the S records of one behaviour (initial state first).  Returns None or a divergence record."""
    S0 = states[0]
    world = World(S0['cfg'], route)
    try:
        i = 1
        while i < len(states):
            S = states[i]
            last = S['last']
            op = last['op']
            if op == 'task':
                t = S['tasks'][last['i'] - 1]
                nxt = states[i + 1] if i + 1 < len(states) else None
                if (use_execute and route != 'direct' and t['type'] == 'create' and t['persist'] and S['replies'][-1]['kind'] == 'pid'
                        and nxt is not None and nxt['last']['op'] == 'task'):
                    t2 = nxt['tasks'][nxt['last']['i'] - 1]
                    if t2['type'] == 'continue' and t2['tag'] == 'None' and t2['pid'] == S['replies'][-1]['pid']:
                        world.execute(t, t2)
                        i += 1
                        S = nxt
                        op = 'execute'
                if op == 'task':
                    world.task(t)
            elif op == 'runloop':
                world.runloop()
            elif op == 'resume':
                world.resume(last['i'])
            elif op == 'save':
                world.save(last['i'], last['g'])
            else:
                raise AssertionError(op)
            want, got = project_model(S), world.projection()
            if verbose:
                print(op, dict(last), '->', got)
            d = diff(want, got)
            if d:
                return {'at': i, 'op': op, 'diffs': d}
            i += 1
        return None
    finally:
        world.close()
