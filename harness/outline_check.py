"""Shared driver for the checks decided on spec/Outline.tla (C09, C08 ...)."""
import multiprocessing
import os
import time

from . import outline_model as om
from . import tlc

_G = {}


def _run_chunk(items):
    import logging
    logging.disable(logging.CRITICAL)
    from . import outline_real
    out = []
    for key in items:
        oi, ri, ci = key
        exp = _G['expected'][key]
        try:
            got = outline_real.run_outline(_G['outlines'][oi - 1], _G['oracles'][ri - 1], crash_at=_G['crash'][ci - 1],
                                           medium=_G['medium'], lag=_G.get('lag', 0), loaders=_G.get('loaders', 'default'), reloads=_G.get('reloads', 0))
        except Exception as e:  # noqa
            out.append((key, 'implementation raised %r' % (e,), None))
            continue
        want_units, want_res, want_restores, want_waits = exp
        if got['state'] != 'FINISHED':
            out.append((key, 'final state %s (%s), specification: FINISHED' % (got['state'], got['exception']), got))
        elif got['units'] != want_units:
            out.append((key, 'call trace differs', got))
        elif got['waits'] != want_waits:
            out.append((key, 'units ending in a wait %s, specification %s' % (got['waits'], want_waits), got))
        elif got['result'] != want_res:
            out.append((key, 'result %s, specification %s' % (got['result'], want_res), got))
        elif got['roundtrip_bad']:
            out.append((key, 'checkpoint round trip (save-load-save, or the same checkpoint loaded again): %s' % got['roundtrip_bad'][:2], got))
        elif got['restores'] != want_restores:
            out.append((key, 'restores %s, specification %s' % (got['restores'], want_restores), got))
    return out


def _tlc_chunk(args):
    name, k, outlines, oracles, crash_sets, cfgx, timeout, offset, lag, reloads = args
    tla, cfg = om.mc_module('MC_%s_%d' % (name, k), outlines, oracles, crash_sets, cfg_extra=cfgx, lag=lag, reloads=reloads)
    with tlc.Workdir() as wd:
        wd.write('MC_%s_%d.tla' % (name, k), tla)
        wd.write('MC_%s_%d.cfg' % (name, k), cfg)
        res = tlc.run(wd, 'MC_%s_%d.tla' % (name, k), 'MC_%s_%d.cfg' % (name, k), timeout=timeout, workers=2)
    reports = [[v[0], v[1] + offset] + v[2:] for v in res.printed_json() if v and v[0] == 'R']
    return {'ok': res.ok, 'violated': res.violated, 'distinct': res.distinct, 'generated': res.generated,
            'trace': res.trace() if res.violated else None, 'out': res.out[-3000:] if not res.ok else '', 'reports': reports}


class _Res:
    pass


def model_and_replay(name, outlines, oracles, crash_sets=((),), invariants=(), medium='pickle', procs=None, timeout=3000,
                     chunk=120, lag=0, loaders='default', max_behaviours=150000, reloads=0):
    """model_and_replay_slice over slices of the family small enough for the expected values of one slice (one record per
    behaviour, shared with 16 forked workers) to stay in memory; the result keeps the expected values of the mismatches and of a
    few samples only."""
    per = max(1, len(oracles) * len(crash_sets))
    size = max(chunk, (max_behaviours // per) // chunk * chunk)
    tot = None
    for off in range(0, max(1, len(outlines)), size):
        part = model_and_replay_slice('%s_s%d' % (name, off // size) if len(outlines) > size else name, outlines[off:off + size], oracles,
                                      crash_sets, invariants, medium, procs, timeout, chunk, lag, loaders, reloads)
        keep = {k for k, _, _ in part['mismatches']}
        withcrash = [k for k in sorted(part['expected']) if crash_sets[k[2] - 1]]
        keep |= set(withcrash[len(withcrash) // 2:len(withcrash) // 2 + 3]) | set(sorted(part['expected'])[:2])
        shift = lambda k: (k[0] + off, k[1], k[2])       # noqa
        part['expected'] = {shift(k): v for k, v in part['expected'].items() if k in keep}
        part['mismatches'] = [(shift(k), why, got) for k, why, got in part['mismatches']]
        if tot is None:
            tot = part
        else:
            t, r = tot['tlc'], part['tlc']
            t.ok = t.ok and r.ok
            if t.violated is None and r.violated:
                t.violated, t._trace = r.violated, r._trace
            t.distinct += r.distinct
            t.generated += r.generated
            t.out += r.out
            tot['tlc_s'] += part['tlc_s']
            tot['behaviours'] += part['behaviours']
            tot['mismatches'].extend(part['mismatches'])
            tot['expected'].update(part['expected'])
            tot['replay_s'] = tot.get('replay_s', 0) + part.get('replay_s', 0)
        if tot['tlc'].violated or not tot['tlc'].ok:
            break
    return tot


def model_and_replay_slice(name, outlines, oracles, crash_sets=((),), invariants=(), medium='pickle', procs=None, timeout=3000,
                           chunk=120, lag=0, loaders='default', reloads=0):
    """TLC on the family (invariants + one Report line per finished behaviour), then every behaviour on the real code.
    The family is checked in chunks (TLC's initial-state generation is quadratic in the size of the constant)."""
    from concurrent.futures import ThreadPoolExecutor
    cfgx = ''.join('INVARIANT %s\n' % i for i in invariants) + 'INVARIANT Report\n'
    t0 = time.time()
    jobs = [(name, k, outlines[i:i + chunk], oracles, crash_sets, cfgx, timeout, i, lag, reloads)
            for k, i in enumerate(range(0, len(outlines), chunk))]
    with ThreadPoolExecutor(max_workers=8) as ex:
        parts = list(ex.map(_tlc_chunk, jobs))
    res = _Res()
    res.ok = all(p['ok'] for p in parts)
    bad = [p for p in parts if p['violated']]
    res.violated = bad[0]['violated'] if bad else None
    res.distinct = sum(p['distinct'] for p in parts)
    res.generated = sum(p['generated'] for p in parts)
    res.out = ''.join(p['out'] for p in parts)
    res._trace = bad[0]['trace'] if bad else []
    res.trace = lambda: res._trace
    reports = [v for p in parts for v in p['reports']]
    t1 = time.time()
    expected = {}
    for v in reports:
        expected[(v[1], v[2], v[3])] = (v[4], v[5], v[6], v[7])
    out = {'tlc': res, 'tlc_s': t1 - t0, 'behaviours': len(expected), 'mismatches': [], 'expected': expected}
    if res.violated or not res.ok:
        return out
    n_expected = len(outlines) * len(oracles) * len(crash_sets)
    if len(expected) != n_expected:
        raise tlc.MachineryError('expected %d reports from TLC, got %d' % (n_expected, len(expected)))
    _G.update(outlines=outlines, oracles=oracles, crash=[sorted(c) for c in crash_sets], expected=expected, medium=medium, lag=lag, loaders=loaders, reloads=reloads)
    keys = sorted(expected)
    procs = procs or min(16, os.cpu_count() or 1)
    n = max(1, len(keys) // (procs * 4))
    chunks = [keys[i:i + n] for i in range(0, len(keys), n)]
    from . import pools
    for r in pools.fork_map(_run_chunk, chunks, procs):
        out['mismatches'].extend(r)
    _G.clear()
    out['replay_s'] = time.time() - t1
    return out
