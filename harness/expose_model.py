"""Python side of spec/Expose.tla (C15): the bounded universe as TLA+ constants, the MC module, the TLC run.

The families (source trees, destinations, namespace_options, contexts) are generated HERE and handed to TLC as
constants, so that TLC and the conformance run see the very same objects; the rule sets (every antichain of port
paths, as include and as exclude), the calls and their expected results are enumerated / computed by TLC.

Values: a name is a list of one-character symbols ('ab' = ['a','b']), a path a list of names; attribute values are
tokens ("T"/"F", "-" = None / UNSPECIFIED, others rendered by expose_real.py).
"""
import itertools
import os
import random

from . import tlaval, tlc

# repairs present in /repo (fix: commits); the specification's clause for each is switched on.
# F14: the include test of PortNamespace.absorb matches whole path components.
FIXES = ['F14']

DEVIATION_IDS = ['D14']     # deviation clauses Expose.tla can record (as-written include test)


def fixes():
    env = os.environ.get('VERIF_C15_FIXES')
    if env is not None:
        return [f for f in env.replace(',', ' ').split() if f]
    return list(FIXES)


# ---- attribute profiles (consistent with the constructors: a default makes an input port not required, a valid_type
# makes a namespace dynamic, a default is an instance of the valid_type) ------------------------------------------
LEAF_IN = [
    dict(required='T', valid_type='-', default='-', mutable=False, help='-', validator='-'),
    dict(required='F', valid_type='int', default='-', mutable=False, help='h1', validator='-'),
    dict(required='F', valid_type='int', default='i7', mutable=False, help='-', validator='-'),
    dict(required='F', valid_type='-', default='L', mutable=True, help='h2', validator='v1'),
    dict(required='T', valid_type='str', default='-', mutable=False, help='-', validator='v1'),
]
LEAF_OUT = [
    dict(required='T', valid_type='-', default='-', mutable=False, help='-', validator='-'),
    dict(required='F', valid_type='int', default='-', mutable=False, help='h1', validator='-'),
    dict(required='F', valid_type='-', default='-', mutable=False, help='h2', validator='v1'),
    dict(required='T', valid_type='str', default='-', mutable=False, help='-', validator='v1'),
]
NS_PROFILES = [
    dict(required='T', valid_type='-', default='-', help='-', dynamic='F', populate_defaults='T', validator='-'),
    dict(required='F', valid_type='-', default='-', help='h1', dynamic='T', populate_defaults='T', validator='-'),
    dict(required='T', valid_type='int', default='-', help='-', dynamic='T', populate_defaults='F', validator='v2'),
    dict(required='F', valid_type='-', default='t1', help='h2', dynamic='F', populate_defaults='T', validator='-'),
]
NS_ATTRS = ['default', 'dynamic', 'help', 'populate_defaults', 'required', 'valid_type', 'validator']

# namespace_options dictionaries (index 0 = none given); the last has a key that is no PortNamespace property
OPTS = [
    {},
    {'help': 'ho'},
    {'dynamic': 'T'},
    {'dynamic': 'F'},
    {'required': 'F', 'help': 'ho'},
    {'valid_type': 'str'},
    {'valid_type': '-', 'dynamic': 'F'},
    {'default': 't2', 'populate_defaults': 'F', 'validator': 'v3'},
    {'help': 'ho', 'bogus': 'x'},
]
NAMESPACES = [[], [['n']], [['n'], ['m']], [['n'], ['m'], ['k']]]

# name pools with string-prefix pairs on purpose: a/ab at the top, x/xy below
POOLS = [[['a'], ['a', 'b'], ['b']], [['x'], ['x', 'y'], ['y']], [['z']]]
POOLS_SMALL = [[['a'], ['a', 'b'], ['b']], [['x'], ['x', 'y']], [['z']]]


class Alloc:
    def __init__(self, start):
        self.n = start - 1

    def __call__(self):
        self.n += 1
        return self.n


def leaf(name, alloc, prof):
    return {'kind': 'leaf', 'name': list(name), 'id': alloc(), 'pid': 0, 'default': prof['default'],
            'default_id': alloc() if prof['mutable'] else 0, 'dynamic': '-', 'help': prof['help'], 'populate_defaults': '-',
            'required': prof['required'], 'valid_type': prof['valid_type'], 'validator': prof['validator'], 'ports': []}


def ns(name, alloc, prof, ports=()):
    return {'kind': 'ns', 'name': list(name), 'id': alloc(), 'pid': alloc(), 'default': prof['default'], 'default_id': 0,
            'dynamic': prof['dynamic'], 'help': prof['help'], 'populate_defaults': prof['populate_defaults'],
            'required': prof['required'], 'valid_type': prof['valid_type'], 'validator': prof['validator'], 'ports': list(ports)}


# ---- shapes --------------------------------------------------------------------------------------------------
def count(shape):
    return sum(1 + (count(v) if isinstance(v, dict) else 0) for v in shape.values())


def depth(shape):
    return max([1 + (depth(v) if isinstance(v, dict) else 0) for v in shape.values()] or [0])


def shapes(level, budget, maxdepth, pools=POOLS):
    """Every tree shape {name(tuple): None (leaf) | dict (namespace)} over pools[level:], <= budget nodes, paths <= maxdepth."""
    pool = pools[level]
    out = []

    def rec(i, cur, used):
        if i == len(pool):
            out.append(dict(cur))
            return
        rec(i + 1, cur, used)
        if used + 1 > budget:
            return
        name = tuple(pool[i])
        cur.append((name, None))
        rec(i + 1, cur, used + 1)
        cur.pop()
        subs = shapes(level + 1, budget - used - 1, maxdepth, pools) if level + 1 < maxdepth and level + 1 < len(pools) else [{}]
        for sub in subs:
            cur.append((name, sub))
            rec(i + 1, cur, used + 1 + count(sub))
            cur.pop()

    rec(0, [], 0)
    return out


def dress(shape, io, rng, rootname):
    """A shape with attribute profiles and allocation ids (ids of a source tree start at 1)."""
    alloc = Alloc(1)
    leaves = LEAF_IN if io == 'in' else LEAF_OUT

    def rec(name, sh):
        if sh is None:
            return leaf(name, alloc, rng.choice(leaves))
        node = ns(name, alloc, rng.choice(NS_PROFILES))
        node['ports'] = [rec(k, v) for k, v in sh.items()]
        return node

    return rec([rootname], shape)


def destinations(io):
    """Destination families: ports that exist before the call (ids from 100).  Index 0 is the empty destination."""
    L = LEAF_IN if io == 'in' else LEAF_OUT
    N = NS_PROFILES
    root = 'inputs' if io == 'in' else 'outputs'
    out = []
    a = Alloc(100)
    out.append(ns([root], a, N[0]))
    a = Alloc(100)
    out.append(ns([root], a, N[1], [leaf(['b'], a, L[2]), leaf(['c'], a, L[0])]))
    a = Alloc(100)
    d = ns([root], a, N[0])
    n = ns(['n'], a, N[2])
    m = ns(['m'], a, N[1])
    m['ports'] = [leaf(['b'], a, L[1]), leaf(['x'], a, L[0]), leaf(['a', 'b'], a, L[3])]
    n['ports'] = [leaf(['k'], a, L[3]), m]
    aa = ns(['a'], a, N[3])
    aa['ports'] = [leaf(['q'], a, L[0])]
    d['ports'] = [n, aa]
    out.append(d)
    a = Alloc(100)
    out.append(ns([root], a, N[0], [leaf(['n'], a, L[0]), leaf(['a'], a, L[1])]))
    a = Alloc(100)
    d = ns([root], a, N[3])
    n = ns(['n'], a, N[1])
    n['ports'] = [leaf(['m'], a, L[1])]
    d['ports'] = [n]
    out.append(d)
    # ---- the state of the namespaces ON THE WAY to the target (n, n.m, n.m.k) in the destination: besides absent (0, 1),
    # taken by a leaf (3, 4) and non-empty (2, 4), a namespace that EXISTS AND HOLDS NO PORTS YET (an empty PortNamespace is a
    # falsy MutableMapping), with non-default properties (5, 7) and with the constructor defaults (6: only the identity of the
    # object tells it from a namespace made by the call)
    a = Alloc(100)
    out.append(ns([root], a, N[0], [leaf(['c'], a, L[0]), ns(['n'], a, N[1])]))
    a = Alloc(100)
    out.append(ns([root], a, N[1], [ns(['n'], a, N[0])]))
    a = Alloc(100)
    d = ns([root], a, N[0])
    n = ns(['n'], a, N[2])
    n['ports'] = [ns(['m'], a, N[3])]
    d['ports'] = [n]
    out.append(d)
    return out


def refuses(dest, nsp):
    """A name on the way to (or at) the target namespace is taken by a leaf port of the destination (harness-side only: used to
    give such contexts the few rule sets; whether the call IS refused is decided by Refused / CreateNs in Expose.tla)."""
    node = dest
    for name in nsp:
        sub = [p for p in node['ports'] if p['name'] == list(name)]
        if not sub:
            return False
        if sub[0]['kind'] == 'leaf':
            return True
        node = sub[0]
    return False


def paths_of(tree, prefix=()):
    out = []
    for p in tree['ports']:
        q = prefix + (tuple(p['name']),)
        out.append(q)
        if p['kind'] == 'ns':
            out.extend(paths_of(p, q))
    return out


def antichains(paths):
    """Sets of paths with no element an ancestor of (or equal to) another: python mirror used to cross-check TLC's count."""
    paths = list(paths)
    out = []
    for r in range(len(paths) + 1):
        for S in itertools.combinations(paths, r):
            if all(not (len(p) <= len(q) and q[:len(p)] == p) for p in S for q in S if p != q):
                out.append(frozenset(S))
    return out


def instances_expected(universe):
    """Number of instances TLC must enumerate (same definition as Instances in Expose.tla)."""
    n = 0
    cache = {}
    for c in universe['ctxs']:
        key = (c['t'], c['rs'])
        if key not in cache:
            P = paths_of(universe['trees'][c['t'] - 1])
            if c['rs'] == 'all':
                ac = len(antichains(P))
                both = 2 if P else 0
            else:
                ac = 1 + len(P)
                both = 0
            cache[key] = 1 + ac + (ac - 1) + both
        n += cache[key]
    return n


# ---- the universe ----------------------------------------------------------------------------------------------
def universe(tier, seed):
    """-> dict(trees, dests, opts, ctxs, bounds).  Contexts:
       block A (the heart): every shape x every target namespace x {in,out share}, destination and options rotating,
                            ALL rule sets (every antichain as include and as exclude, none, include+exclude);
       block B: a few shapes x every namespace x every destination x every options dict x in/out, few rule sets."""
    rng = random.Random(1000003 * int(seed) + 15)
    if tier == 'quick':
        bounds = dict(pool='small', nodes=4, depth=2, deep_pool='small', deep_nodes=4, deep_depth=3, deep_share=2, out_share=4,
                      block_b_trees=2, per_ns=1, ns3_share=3)
    else:
        bounds = dict(pool='full', nodes=5, depth=2, deep_pool='small', deep_nodes=5, deep_depth=3, deep_share=1, out_share=3,
                      block_b_trees=8, per_ns=1, ns3_share=1)
    pools = {'full': POOLS, 'small': POOLS_SMALL}
    base = shapes(0, bounds['nodes'], bounds['depth'], pools[bounds['pool']])
    seen = {repr(s) for s in base}
    deep = [s for s in shapes(0, bounds['deep_nodes'], bounds['deep_depth'], pools[bounds['deep_pool']]) if repr(s) not in seen]
    pick = rng.randrange(bounds['deep_share'])
    deep = [s for i, s in enumerate(deep) if i % bounds['deep_share'] == pick]
    allshapes = base + deep
    trees, tree_io = [], []
    dests_in, dests_out = destinations('in'), destinations('out')
    dests = dests_in + dests_out
    nd = len(dests_in)
    ctxs = []
    # rotation of destination and options: one counter per (in/out, target namespace), so that every target namespace meets
    # every destination (and, over the rounds, every options dictionary) whatever the numbers of namespaces / destinations are
    rot = {}
    start = rng.randrange(1000)
    for si, sh in enumerate(allshapes):
        flavours = ['in'] + (['out'] if si % bounds['out_share'] == 0 else [])
        for io in flavours:
            trees.append(dress(sh, io, rng, 'inputs' if io == 'in' else 'outputs'))
            tree_io.append(io)
            t = len(trees)
            for ni, nsp in enumerate(NAMESPACES):
                # the three-level target namespace: on a share of the trees only (quick tier)
                if len(nsp) >= 3 and (t + start) % bounds['ns3_share'] != 0:
                    continue
                for k in range(bounds['per_ns']):
                    r = rot[io, ni] = rot.get((io, ni), start + ni) + 1
                    d = r % nd
                    o = (r // nd + ni + k) % len(OPTS)
                    # a combination the call refuses whatever the rules are (target name taken by a leaf port, unknown option
                    # key) gets the few rule sets only
                    refusing = 'bogus' in OPTS[o] or refuses(dests_in[d], nsp)
                    ctxs.append({'t': t, 'd': d + 1 + (nd if io == 'out' else 0), 'ns': nsp, 'o': o + 1, 'io': io,
                                 'rs': 'few' if refusing else 'all'})
    # block B
    cand = [i for i, tr in enumerate(trees) if len(paths_of(tr)) >= 3 and any(p['kind'] == 'ns' and p['ports'] for p in tr['ports'])]
    rng.shuffle(cand)
    for i in sorted(cand[:bounds['block_b_trees']]):
        io = tree_io[i]
        for nsp in NAMESPACES:
            for d in range(nd):
                for o in range(len(OPTS)):
                    ctxs.append({'t': i + 1, 'd': d + 1 + (nd if io == 'out' else 0), 'ns': nsp, 'o': o + 1, 'io': io, 'rs': 'few'})
    bounds['shapes'] = len(allshapes)
    return {'trees': trees, 'dests': dests, 'opts': OPTS, 'ctxs': ctxs, 'bounds': bounds, 'tier': tier, 'seed': seed}


# ---- TLA+ text ------------------------------------------------------------------------------------------------
def _name(n):
    return tlaval.emit(list(n))


def emit_node(p):
    if p['kind'] == 'leaf':
        return 'MkLeaf(%s, %d, "%s", "%s", "%s", %d, "%s", "%s")' % (
            _name(p['name']), p['id'], p['required'], p['valid_type'], p['default'], p['default_id'], p['help'], p['validator'])
    return 'MkNs(%s, %d, %d, "%s", "%s", "%s", "%s", "%s", "%s", "%s", <<%s>>)' % (
        _name(p['name']), p['id'], p['pid'], p['required'], p['valid_type'], p['default'], p['help'], p['dynamic'],
        p['populate_defaults'], p['validator'], ', '.join(emit_node(c) for c in p['ports']))


def mc_module(name, uni, fixes_, accepted, invariants):
    seq = lambda xs: '<<\n  ' + ',\n  '.join(xs) + '\n>>' if xs else '<<>>'
    ctx = ['[t |-> %d, d |-> %d, ns |-> %s, o |-> %d, io |-> "%s", rs |-> "%s"]' %
           (c['t'], c['d'], tlaval.emit(c['ns']), c['o'], c['io'], c['rs']) for c in uni['ctxs']]
    tla = '\n'.join([
        '---- MODULE %s ----' % name,
        'EXTENDS Expose',
        # TLC caches the value of a zero-arity constant definition only when it is reached through the definition's
        # name, not through a `X <- MCX` override: hence the indirection MCX == VX (otherwise every access to Trees
        # rebuilds the whole family)
        'VTrees == ' + seq([emit_node(t) for t in uni['trees']]),
        'VDests == ' + seq([emit_node(t) for t in uni['dests']]),
        'VOpts == ' + seq([tlaval.emit(o) for o in uni['opts']]),
        'VCtxs == ' + seq(ctx),
        'VFixes == ' + tlaval.emit(set(fixes_)),
        'VAccepted == ' + tlaval.emit(set(accepted)),
        'MCTrees == VTrees', 'MCDests == VDests', 'MCOpts == VOpts', 'MCCtxs == VCtxs', 'MCFixes == VFixes',
        'MCAccepted == VAccepted',
        '====', ''])
    cfg = '\n'.join(['SPECIFICATION Spec', 'CHECK_DEADLOCK FALSE',
                     'CONSTANTS', ' Trees <- MCTrees', ' Dests <- MCDests', ' Opts <- MCOpts', ' Ctxs <- MCCtxs',
                     ' Fixes <- MCFixes', ' Accepted <- MCAccepted'] + ['INVARIANT %s' % i for i in invariants] + [''])
    return tla, cfg


def run_tlc(uni, fixes_, accepted, invariants, name='MC_Expose', timeout=3000):
    """-> (tlc result, raw instance lines).  A line is the TLA+ text of Line(I, r) (see parse_line)."""
    tla, cfg = mc_module(name, uni, fixes_, accepted, invariants)
    for attempt in (1, 2):
        with tlc.Workdir() as wd:
            wd.write(name + '.tla', tla)
            wd.write(name + '.cfg', cfg)
            res = tlc.run(wd, name + '.tla', name + '.cfg', timeout=timeout)
        if res.ok or res.violated:
            break
        # the JVM ended without a verdict (killed from outside, out of memory, ...): one more try, then a machinery failure
        if attempt == 2:
            raise tlc.MachineryError('TLC ended without a verdict on %s (exit code %s):\n%s' % (name, res.rc, res.out[-2000:]))
    lines = [ln[1:-1].replace('\\"', '"') for ln in res.out.splitlines() if ln.startswith('"<<\\"C15\\"')]
    return res, lines


FIELDS = ['tag', 'c', 'inc_some', 'inc', 'exc_some', 'exc', 'err', 'dest', 'mem', 'memset', 'dev', 'verdicts', 'nmuts', 'want']
VERDICT_NAMES = ['SelectedOK', 'NsProps', 'Independent', 'MutuallyExclusive', 'Refused']


def parse_line(text):
    v = tlaval.parse(text)
    rec = dict(zip(FIELDS, v))
    for k in ('inc', 'exc'):
        rec[k] = sorted([list(list(n) for n in p) for p in rec[k]])
    rec['dev'] = sorted(rec['dev'])
    rec['want'] = sorted([[list(list(n) for n in p), k] for p, k in rec['want']])
    rec['mem'] = [list(n) for n in rec['mem']]
    return rec
