"""Shared driver of the checks decided on spec/Ports.tla (C11 inputs, C12 outputs).

A check =
  (1) TLC on every family of the tier, twice: with Dev = {} (the intended design must satisfy every declarative statement
      on every instance: invariant Conforms) and with Dev = all modelled deviations (the implementation as written: a failing
      statement must be explained by a deviation clause that was taken);
  (2) conformance: every instance TLC evaluated in the second run is executed against the real plumpy classes and compared
      with the TLA+ operational result (harness/ports_real.py);
  (3) instances whose statements fail under a deviation clause are known findings if known_findings.json lists the deviation
      for the property, violations otherwise; evidence.
"""
import concurrent.futures
import json
import multiprocessing
import os
import time

from . import evidence, findings, ports_model, ports_real, tlc

VERIF = os.path.dirname(os.path.dirname(os.path.abspath(__file__)))
KIND = {'C11': 'input', 'C12': 'output'}
CHUNK = 250
_COUNTER = [0]

ASSUMPTIONS = [
    'bounded: the port-tree families and instance universes listed under coverage.families (exhaustive inside them); '
    'thorough adds seeded hypothesis-generated larger trees evaluated by the same TLA+ operators',
    'value domain: ints {0,-1,7}, strings {"s","d",""}, None (given for a leaf port, for an undeclared key, inside a dynamic mapping, '
    'as a plain or callable default; given for a declared namespace only when ports_model.NONE_FOR_NAMESPACE is on; emitted for a '
    'declared output namespace only when ports_model.NONE_OUTPUT_FOR_NAMESPACE is on - it is OFF: out(ns, None) stores the None), nested dicts '
    'over keys z/u/w (C12 family typed_validators: also None as an emitted value); valid_type in {None,int,str}; validators: reject '
    'a negative int (port, total) / a mapping with a negative direct value (namespace, total); two port validators that rely on the '
    'type of their argument (`value > 0`, `value.isalpha()`; they raise when given another type), only on ports that declare that type '
    '(Ports!WellTyped: what a validator that crashes on a value its port admits should mean is outside the properties); namespace `default` is not used; specs that cannot be declared (a plain default its own port rejects) are not part '
    'of the universe (Ports!Declarable)',
    'TLC invariants transfer to the implementation only through the instance-by-instance comparison of the operational model '
    'with the real classes (constructor outcome, inputs, read-only levels, raw_inputs, caller dict; out() outcome, outputs after '
    'every call, listener arguments, future, is_successful, result)',
    'exception types are compared for out() (C12); for the constructor (C11) only raise / not raise',
    'a fresh Process subclass per instance (the spec is cached per class); cross-instance effects are explored only through the '
    'two-successive-processes instances of C12',
]


def write_replay(pid, kind, payload):
    d = os.path.join(VERIF, 'evidence', 'replays')
    os.makedirs(d, exist_ok=True)
    _COUNTER[0] += 1
    path = os.path.join(d, '%s_%s_%d_%d.json' % (pid, kind, os.getpid(), _COUNTER[0]))
    with open(path, 'w') as fh:
        json.dump(payload, fh, indent=1, default=str)
    return path


def nontrivial(kind, row):
    if kind == 'input':
        return row['raw'] not in ('n:none', []) and row['raw'] != {}
    return len(row['calls']) > 0


def instance_key(kind, tree, row):
    if kind == 'input':
        return json.dumps([tree, row['raw']], sort_keys=True)
    return json.dumps([tree, row['calls'], row['split'], row['ret']], sort_keys=True)


def run_row(kind, tree, row):
    return ports_real.run_c11(tree, row) if kind == 'input' else ports_real.run_c12(tree, row)


_LINES = []      # report lines of the as-written TLC run; shared with the pool workers through fork


def _chunk(args):
    kind, idx, part, nparts = args
    doc = ports_model.decode(_LINES[idx])
    family, tree = doc['fam'], doc['tree']
    rows = doc['rows'][part::nparts]
    out = {'family': family, 'first': part == 0, 'n': 0, 'nontrivial': 0, 'divergent': [], 'ndivergent': 0, 'model_bad': [], 'dev': {},
           'accepted': 0, 'sample': None}
    if part == 0 and rows:
        out['sample'] = {'family': family, 'tree': compact_tree(tree), 'instance': rows[len(rows) // 2]}
    for row in rows:
        out['n'] += 1
        if nontrivial(kind, row):
            out['nontrivial'] += 1
        if kind == 'input' and row['exc'] == 'none':
            out['accepted'] += 1
        if kind == 'output' and any(l['exc'] == 'none' for p in row['procs'] for l in p['log']):
            out['accepted'] += 1
        obs, diffs = run_row(kind, tree, row)
        if diffs:
            out['ndivergent'] += 1
            if len(out['divergent']) < 3:
                out['divergent'].append({'family': family, 'tree': tree, 'row': row, 'observed': obs, 'diffs': diffs})
        if row['fail']:
            if not row['dev']:
                if len(out['model_bad']) < 3:
                    out['model_bad'].append({'family': family, 'tree': tree, 'row': row})
            else:
                key = '+'.join(sorted(row['dev']))
                e = out['dev'].setdefault(key, {'n': 0, 'example': None, 'size': 0})
                e['n'] += 1
                size = len(row['calls']) if kind == 'output' else len(str(row['raw']))
                if e['example'] is None or size < e['size']:
                    e['example'] = {'family': family, 'tree': tree, 'row': row, 'observed': obs}
                    e['size'] = size
    return out


def hypothesis_family(kind, seed, n_trees, per_tree):
    """Seeded hypothesis-generated larger trees (depth <= 4) with instances guided by the tree."""
    from hypothesis import HealthCheck, Phase, given, settings
    from hypothesis import seed as hseed
    from hypothesis import strategies as st

    names = 'abcdefgh'
    ints = [0, -1, 7]
    leafvals = [0, -1, 7, 's', 'd', '', {}, {'u': 0}, {'u': 's'}]
    extravals = [0, 's', -1, {}, {'u': 0}, {'u': 's'}, {'u': {'w': 's'}}, {'u': {'w': 0}, 'w': 0}]
    nsvals = ['absent', 'absent', 'dict', 'dict', 'dict', 'dict', 0, 's', '']
    if kind == 'input':          # None as a supplied value (C11)
        leafvals = leafvals + [None, None]
        extravals = extravals + [None, {'u': None}, {'u': {'w': None}, 'w': 0}]
        if ports_model.NONE_FOR_NAMESPACE:
            nsvals = nsvals + [None]

    def gen_leaf(draw):
        vt = draw(st.sampled_from(['none', 'int', 'str']))
        # a validator that relies on a type only on a port that declares that type (Ports!WellTyped)
        val = draw(st.sampled_from(['none', 'nonneg'] + ({'int': ['pos'], 'str': ['word']}.get(vt, []))))
        leaf = dict(node='leaf', req=draw(st.booleans()), vt=vt, val=val)
        if kind == 'input':
            good = 'd' if vt == 'str' else 7
            choice = draw(st.sampled_from(['none', 'none', 'plain', 'call', 'callbad']))
            if choice == 'plain':
                leaf['def'] = ('plain', good)
            elif choice == 'call':
                leaf['def'] = ('call', good)
            elif choice == 'callbad':
                leaf['def'] = ('call', draw(st.sampled_from([-1, 's', 7, {}, None])))
            if choice == 'plain' and vt == 'none' and draw(st.integers(0, 3)) == 0:
                leaf['def'] = ('plain', None)          # default=None: declarable for an untyped port only
        return leaf

    def gen_ns(draw, depth, budget):
        dyn, vt = draw(st.sampled_from([(False, 'none'), (False, 'none'), (True, 'none'), (True, 'int'), (True, 'str')]))
        ns = dict(node='ns', req=draw(st.booleans()), vt=vt, dyn=dyn, pop=draw(st.booleans()) if kind == 'input' else True,
                  val=draw(st.sampled_from(['none', 'none', 'nonneg'])), ports=[])
        k = (draw(st.integers(2, 3)) if depth == 1 else draw(st.integers(0, 3))) if depth < 4 else 0
        for i in range(k):
            if budget[0] <= 0:
                break
            budget[0] -= 1
            if depth < 4 and draw(st.integers(0, 1)) == 0:
                ns['ports'].append((names[i], gen_ns(draw, depth + 1, budget)))
            else:
                ns['ports'].append((names[i], gen_leaf(draw)))
        return ns

    def gen_input(draw, ns):
        d = {}
        for name, p in ns['ports']:
            if p['node'] == 'leaf':
                c = draw(st.sampled_from(['absent', 'absent'] + leafvals))
                if not isinstance(c, str) or c != 'absent':
                    d[name] = c
            else:
                c = draw(st.sampled_from(nsvals))
                if c == 'dict':
                    d[name] = gen_input(draw, p)
                elif not isinstance(c, str) or c != 'absent':
                    d[name] = c
        if draw(st.integers(0, 3)) == 0:
            d['z'] = draw(st.sampled_from(extravals))
        return d

    ns_paths = set()

    def paths_of(ns, prefix, out):
        ns_paths.add('.'.join(prefix))
        out.append(prefix + ['z'])
        out.append(prefix + ['z', 'u'])
        out.append(prefix + ['z', 'u', 'w'])
        for name, p in ns['ports']:
            out.append(prefix + [name])
            if p['node'] == 'leaf':
                out.append(prefix + [name, 'u'])
            else:
                paths_of(p, prefix + [name], out)

    def gen_work(draw, tree):
        paths = []
        ns_paths.clear()
        paths_of(tree, [], paths)
        k = draw(st.integers(0, 4))
        calls = [('.'.join(draw(st.sampled_from(paths))), draw(st.sampled_from(leafvals + [{'u': {'w': 0}}, None]))) for _ in range(k)]
        if not ports_model.NONE_OUTPUT_FOR_NAMESPACE:      # None emitted for a declared namespace: see ports_model
            calls = [(p, 0 if v is None and p in ns_paths else v) for p, v in calls]
        split = draw(st.integers(0, max(0, k - 1)))
        return calls, split, draw(st.integers(0, 5)) != 0

    @st.composite
    def item(draw):
        budget = [draw(st.integers(4, 10))]
        tree = gen_ns(draw, 1, budget)
        tree['pop'] = True
        if kind == 'input':
            insts = [None if draw(st.integers(0, 30)) == 0 else gen_input(draw, tree) for _ in range(per_tree)]
        else:
            insts = [gen_work(draw, tree) for _ in range(per_tree)]
        return tree, insts

    items = []

    @hseed(seed)
    @settings(max_examples=n_trees, database=None, phases=[Phase.generate], deadline=None,
              suppress_health_check=list(HealthCheck))
    @given(item())
    def collect(x):
        items.append(x)

    collect()
    what = ('%d hypothesis-generated %s trees (seed %d; <= 10 ports, depth <= 4, <= 3 ports per namespace, all attribute combinations%s), '
            '%d tree-guided %s each; expectations computed by TLC evaluating the same operators on the recorded instances'
            % (len(items), kind, seed, '; None among the supplied values and the defaults' if kind == 'input' else '', per_tree,
               'inputs' if kind == 'input' else 'call sequences (<= 4 calls, any split)'))
    return ports_model.explicit_family('hypothesis', what, kind, items)


def deep_family():
    """C11: namespaces nested three deep whose defaults must be filled into a COPY of the caller's nested dictionaries
    (raw_inputs and the caller's dict stay exactly as given at every depth)."""
    def leaf(default):
        return dict(node='leaf', req=False, vt='none', val='none', **{'def': ('plain', default)})

    def ns(ports, req=False):
        return dict(node='ns', req=req, vt='none', dyn=False, pop=True, val='none', ports=ports)
    t1 = ns([('a', ns([('b', ns([('c', leaf(0))]))]))], req=True)
    t2 = ns([('a', ns([('b', ns([('c', leaf(0)), ('d', ns([('e', leaf('s'))]))]))]))], req=True)
    t3 = ns([('a', ns([('b', ns([('c', leaf(0))])), ('f', leaf(-1))]))], req=True)
    inputs = [None, {}, {'a': {}}, {'a': {'b': {}}}, {'a': {'b': {'c': -1}}}, {'a': {'b': {'d': {}}}}, {'a': {'b': {'d': {'e': 0}}}},
              {'a': {'f': 0, 'b': {}}}]
    what = 'three trees with namespaces nested three deep and defaults at the bottom x nested inputs that supply the deep dictionaries partly'
    return ports_model.explicit_family('deep_defaults', what, 'input', [(t1, inputs), (t2, inputs), (t3, inputs)])


def run(pid, tier, seed):
    t0 = time.time()
    kind = KIND[pid]
    fams = ports_model.c11_families(tier) if kind == 'input' else ports_model.c12_families(tier)
    if kind == 'input':
        fams.append(deep_family())
    if tier == 'thorough':
        fams.append(hypothesis_family(kind, seed, 400, 40 if kind == 'input' else 30))
    # ---- (1) TLC: intended design (Dev = {}) and implementation as written (all deviation clauses), in parallel -------------
    nw = max(2, min(16, os.cpu_count() or 2) // 2)

    def one(job):
        dev, emit = job
        t = time.time()
        res, lines = ports_model.run_families(kind, fams, dev, emit, workers=nw)
        return emit, res, lines, time.time() - t

    results = {}
    with concurrent.futures.ThreadPoolExecutor(max_workers=2) as ex:
        for emit, res, lines, wall in ex.map(one, [([], False), (ports_model.ALL_DEVS, True)]):
            results[emit] = (res, lines, wall)
    violations = 0
    states = transitions = 0
    for emit in (False, True):
        res, lines, wall = results[emit]
        states += res.distinct
        transitions += res.generated
        if res.violated:
            tr = res.trace()
            path = write_replay(pid, 'tlc', {'kind': 'tlc-counterexample', 'property': pid, 'violated': res.violated,
                                             'deviations_on': ports_model.ALL_DEVS if emit else [],
                                             'meaning': 'an instance (state variable `bad`) of the tree in the last state fails a '
                                                        'declarative statement and no deviation clause explains it',
                                             'trace': [{'action': a, 'state': s} for a, s in tr] or res.out[-4000:]})
            print('TLC: invariant %s violated (Dev %s): the operational model does not satisfy the declarative statements'
                  % (res.violated, 'as written' if emit else '= {}'))
            print('VIOLATION property=%s replay=%s' % (pid, path))
            violations += 1
    # ---- (2) conformance: every instance of the as-written run against the real classes ------------------------------------
    t1 = time.time()
    del _LINES[:]
    _LINES.extend(results[True][1])
    tasks = []
    for idx, ln in enumerate(_LINES):
        nparts = min(16, len(ln) // 120000 + 1)       # every part decodes the whole line: keep the parts few
        tasks.extend((kind, idx, part, nparts) for part in range(nparts))
    tot = {'n': 0, 'nontrivial': 0, 'ndivergent': 0, 'accepted': 0}
    divergent, model_bad, devs, samples = [], [], {}, []
    per_fam = {f['name']: {'trees': 0, 'instances': 0} for f in fams}
    procs = min(16, os.cpu_count() or 1)
    if tasks:
        ctx = multiprocessing.get_context('fork')
        with ctx.Pool(procs) as pool:
            for out in pool.imap_unordered(_chunk, tasks, chunksize=1):
                for k in tot:
                    tot[k] += out[k]
                per_fam[out['family']]['instances'] += out['n']
                per_fam[out['family']]['trees'] += 1 if out['first'] else 0
                if out['sample'] and sum(1 for x in samples if x['family'] == out['family']) < 2:
                    samples.append(out['sample'])
                divergent.extend(out['divergent'])
                model_bad.extend(out['model_bad'])
                for key, e in out['dev'].items():
                    d = devs.setdefault(key, {'n': 0, 'example': None, 'size': 0})
                    d['n'] += e['n']
                    if d['example'] is None or e['size'] < d['size']:
                        d['example'], d['size'] = e['example'], e['size']
    del _LINES[:]
    replay_s = time.time() - t1
    tlc_instances = tot['n']
    fam_summ = [{'family': f['name'], 'what': f['what'], 'trees': per_fam[f['name']]['trees'],
                 'instances': per_fam[f['name']]['instances']} for f in fams]
    tlc_summ = {'as_written': {'distinct_states': results[True][0].distinct, 'wall_s': round(results[True][2], 1)},
                'intended_design': {'distinct_states': results[False][0].distinct, 'wall_s': round(results[False][2], 1)}}
    for d in divergent[:5]:
        path = write_replay(pid, 'divergence', dict(kind='ports-divergence', property=pid, port_kind=kind, **d))
        print('DIVERGENCE family=%s tree=%s instance=%s: %s' % (d['family'], json.dumps(compact_tree(d['tree'])),
                                                                 json.dumps(instance_of(kind, d['row'])), d['diffs'][:3]))
        print('VIOLATION property=%s replay=%s' % (pid, path))
    violations += tot['ndivergent']
    for d in model_bad[:3]:
        path = write_replay(pid, 'model', dict(kind='ports-model-violation', property=pid, port_kind=kind, **d))
        print('MODEL: statements %s fail without a deviation clause: %s' % (d['row']['fail'], json.dumps(instance_of(kind, d['row']))))
        print('VIOLATION property=%s replay=%s' % (pid, path))
        violations += 1
    # ---- (3) deviations: listed -> KNOWN-FINDING, unlisted -> VIOLATION ------------------------------------------------------
    listed = set(findings.deviations(pid))
    used = set()
    dev_summ = []
    unlisted = {}
    for key in sorted(devs, key=lambda k: (k.count('+'), k)):
        ids = key.split('+')
        used |= set(ids)
        e = devs[key]
        missing = [i for i in ids if i not in listed]
        dev_summ.append({'deviations': ids, 'instances': e['n'], 'listed': not missing,
                         'example': {'tree': compact_tree(e['example']['tree']), 'instance': instance_of(kind, e['example']['row']),
                                     'failing_statements': e['example']['row']['fail']}})
        for i in missing:
            u = unlisted.setdefault(i, {'n': 0, 'ids': ids, 'example': e['example']})   # first = fewest clauses involved
            u['n'] += e['n']
    for i in sorted(unlisted):
        u = unlisted[i]
        path = write_replay(pid, 'deviation', dict(kind='ports-deviation', property=pid, port_kind=kind, deviations=u['ids'],
                                                   note='the implementation behaves as the named deviation clause(s) of spec/Ports.tla say, '
                                                        'which makes the declarative statement(s) in row.fail false; the deviation is '
                                                        'not listed in known_findings.json for this property', **u['example']))
        print('UNLISTED DEVIATION %s: %d instances fail a declarative statement under this clause, e.g. %s fail for tree=%s instance=%s' % (
            i, u['n'], u['example']['row']['fail'], json.dumps(compact_tree(u['example']['tree'])),
            json.dumps(instance_of(kind, u['example']['row']))))
        print('VIOLATION property=%s replay=%s' % (pid, path))
        violations += 1
    findings.print_known(pid, used)
    cov = {
        'states': max(states, 1), 'transitions': max(transitions, 1),
        'traces_validated_against_impl': tot['n'], 'evaluations': tot['n'], 'distinct_nontrivial': tot['nontrivial'],
        'samples': samples or [{'note': 'nothing explored'}],
        'rule': 'TLC enumerates every port tree of each family (Init) and every instance of the tree (one action per tree), checks the '
                'declarative statements on each (invariant Conforms, with Dev = {} and with all deviation clauses) and prints the operational '
                'result; every printed instance is executed once against the real classes.  Instances are distinct by construction (sets of '
                '(tree, instance)); non-trivial = ' + ('a non-empty input dictionary' if kind == 'input' else 'at least one out() call'),
        'exhaustive': True,
        'tlc_instances_evaluated': 2 * tlc_instances,
        'instances_accepting' if kind == 'input' else 'instances_storing_something': tot['accepted'],
        'families': fam_summ, 'tlc_runs': tlc_summ, 'deviations': dev_summ, 'deviation_clauses_exercised': sorted(used),
        'conformance_wall_s': round(replay_s, 1),
        'tlc_states_note': 'TLC states are (tree, phase) pairs: one action evaluates all instances of a tree; see tlc_instances_evaluated',
    }
    evidence.write(pid, tier, seed, 'model_checking', cov, time.time() - t0, violations, ASSUMPTIONS)
    print('%s: %d trees, %d instances checked by TLC (x2 deviation settings) and executed against plumpy; %d divergent; '
          'deviation instances: %s; tlc %.1fs conformance %.1fs' % (pid, sum(f['trees'] for f in fam_summ), tot['n'], tot['ndivergent'],
                                       {k: v['n'] for k, v in devs.items()} or 'none', t1 - t0, replay_s))
    return 1 if violations else 0


def compact_tree(t):
    """Readable one-line form of a printed tree record."""
    if t['node'] == 'leaf':
        out = {'leaf': [('required' if t['dreq'] else 'optional'), t['vt'], t['val']]}
        if t['def']['k'] != 'none':
            out['default'] = [t['def']['k'], ports_real.model_value(t['def']['v'])]
        return out
    return {'ns': [('required' if t['dreq'] else 'optional'), 'dynamic' if t['dyn'] else 'static', t['vt'], t['val'],
                   'populate' if t['pop'] else 'nopopulate'],
            'ports': {e['name']: compact_tree(e['p']) for e in t['ports']}}


def instance_of(kind, row):
    if kind == 'input':
        return {'inputs': ports_real.pyval(row['raw'])}
    return {'calls': [['.'.join(c['path']), ports_real.pyval(c['value'])] for c in row['calls']], 'split': row['split'],
            'returns': 7 if row['ret'] else 'UnsuccessfulResult(7)'}


def replay_file(path):
    """./check <id> --replay <file>: re-run a recorded instance against the real code."""
    rec = json.load(open(path))
    k = rec.get('kind')
    if k in ('ports-divergence', 'ports-deviation', 'ports-model-violation'):
        kind = rec['port_kind']
        print('tree      :', json.dumps(compact_tree(rec['tree'])))
        print('instance  :', json.dumps(instance_of(kind, rec['row'])))
        print('model     :', json.dumps({x: rec['row'][x] for x in rec['row'] if x not in ('raw', 'calls')}))
        obs, diffs = run_row(kind, rec['tree'], rec['row'])
        print('real      :', json.dumps(obs, default=str))
        print('diffs (what, specification, implementation):', diffs)
        if k == 'ports-deviation':
            print('deviation clause(s) %s; failing declarative statement(s): %s' % (rec['deviations'], rec['row']['fail']))
            return 1
        if k == 'ports-model-violation':
            return 1
        return 1 if diffs else 0
    print(json.dumps(rec, indent=1)[:6000])
    return 1
