-------------------------------- MODULE Ports --------------------------------
(***************************************************************************************************)
(* Port trees, input parsing/validation (C11) and output emission/validation (C12) of plumpy.      *)
(*                                                                                                 *)
(* Anchors: src/plumpy/ports.py (Port.validate, InputPort.required_override, PortNamespace         *)
(* .pre_process / .validate / .validate_ports / .validate_dynamic_ports / .get_port),              *)
(* src/plumpy/processes.py (Process.on_create, Process.out, Process.on_finish),                    *)
(* src/plumpy/process_states.py (Running.execute: plain value / UnsuccessfulResult -> Stop),       *)
(* src/plumpy/utils.py (AttributesFrozendict).                                                     *)
(*                                                                                                 *)
(* Two formulations:                                                                               *)
(*  - OPERATIONAL (part 2, part 4): the python algorithms clause by clause, in the same order;     *)
(*    every operator names the python function it mirrors.  A clause guarded by  d \in Dev  is the *)
(*    behaviour of the implementation as written where it departs from the intended behaviour (the *)
(*    other branch); taking such a clause records d in the result's `dev` field.                   *)
(*  - DECLARATIVE (part 3, part 5): the property.  Completed / Accepts / OutputAccepts /           *)
(*    OutputsSatisfy and the statements AcceptOK, ParsedOK, FrozenOK, RawUntouched (C11), OutOK,   *)
(*    ReportedOK, SuccessOK (C12) that relate the operational result to them.                      *)
(* TLC checks  operational |= declarative  on every instance of a bounded universe (part 6: Init   *)
(* chooses a family and one of its port trees, one action evaluates every instance of the tree)    *)
(* and prints, per tree, the operational result of every instance; the harness executes every      *)
(* printed instance against the real classes and compares (harness/ports_check.py).                *)
(***************************************************************************************************)
EXTENDS Naturals, Sequences, FiniteSets, TLC

CONSTANTS
  Dev,          \* set of deviation identifiers whose "as written" clause is switched on
  Emit(_)       \* how the report of a tree ([fam, tree, rows: {<<instance, row>>}]) leaves TLC (MC module: PrintT(ToJson(..)))

DevFalsy == "FALSY-NONMAPPING-AS-EMPTY-NS"   \* PortNamespace.validate: `if not port_values: port_values = {}` (0, '' ...)
DevDynNs == "DYNAMIC-NS-CREATED-BY-OUT"      \* get_port(create_dynamically=True) inserts into the sealed class-level spec
DevPath  == "OUT-PATH-THROUGH-VALUE"         \* out('a.b', v) where 'a' is a leaf port / an emitted non-mapping: TypeError
AllDevs  == {DevFalsy, DevDynNs, DevPath}

(* =============================================================================================== *)
(* Part 1.  Values and port trees                                                                  *)
(* =============================================================================================== *)
\* Python values.  One record shape for all (TLC cannot compare values of different shapes):
\*   k = "int" | "str" | "map" | "none" | "unspec";  a = the atom as text;  m = the mapping (names -> values);
\*   fz = the mapping is an AttributesFrozendict (read-only) rather than a dict.
V(k, a, m, fz) == [k |-> k, a |-> a, m |-> m, fz |-> fz]
NoneV     == V("none", "", <<>>, FALSE)      \* python None: Process(inputs=None), and None as a SUPPLIED value (given for a
                                             \* port or an undeclared key, returned by a default): not an int, not a str, not a
                                             \* mapping, falsy, and NOT the same as "nothing supplied" (Unspec)
Unspec    == V("unspec", "", <<>>, FALSE)    \* ports.UNSPECIFIED; also "key absent" in the declarative part
Int(a)    == V("int", a, <<>>, FALSE)        \* a \in {"0", "-1", "7"}
Str(a)    == V("str", a, <<>>, FALSE)        \* a \in {"s", "d", ""}
Map(f)    == V("map", "", f, FALSE)          \* dict
Frozen(f) == V("map", "", f, TRUE)           \* AttributesFrozendict
EmptyMap  == Map(<<>>)

IsMap(v)      == v.k = "map"
IsDict(v)     == v.k = "map" /\ ~v.fz                       \* isinstance(v, dict)
Keys(v)       == DOMAIN v.m
Has(v, n)     == n \in DOMAIN v.m
Put(v, n, x)  == [v EXCEPT !.m = (n :> x) @@ v.m]
Del(v, n)     == [v EXCEPT !.m = [key \in (DOMAIN v.m) \ {n} |-> v.m[key]]]
Falsy(v)      == \/ v.k \in {"none", "unspec"}              \* `not v` in python: None, (), 0, '', {}
                 \/ (v.k = "int" /\ v.a = "0")
                 \/ (v.k = "str" /\ v.a = "")
                 \/ (IsMap(v) /\ Keys(v) = {})
IsInstance(v, t) == (t = "int" /\ v.k = "int") \/ (t = "str" /\ v.k = "str")
Negative(v)   == v.k = "int" /\ v.a = "-1"
Positive(v)   == v.k = "int" /\ v.a = "7"                    \* the ints are 0, -1, 7

\* Port tree nodes, one record shape for leaves and namespaces.
\*   dreq = `required` as declared;  req = Port._required (InputPort: after required_override)
\*   vt = valid_type ("none"|"int"|"str");  dyn, pop = dynamic, populate_defaults (namespaces)
\*   val = validator ("none" | "nonneg": rejects a negative int / a mapping with a negative direct value; total: it can be
\*         given any value | "pos", "word": validators of leaf ports that RELY ON THE TYPE of what they are given, see below)
\*   def = [k |-> "none"|"plain"|"call", v |-> value]  (leaf default; "call" = a callable returning v)
\*   ports = <<[name, p]>> in declaration order (a python dict keeps insertion order)
NoDefault == [k |-> "none", v |-> Unspec]
Plain(v)  == [k |-> "plain", v |-> v]
Call(v)   == [k |-> "call", v |-> v]
Node(kind, dreq, req, vt, dyn, pop, val, def, ports) ==
  [node |-> kind, dreq |-> dreq, req |-> req, vt |-> vt, dyn |-> dyn, pop |-> pop, val |-> val, def |-> def, ports |-> ports]

\* InputPort.required_override
RequiredOverride(required, def) == IF def.k = "none" THEN required ELSE FALSE
\* InputPort.__init__
InputPort(required, vt, def, val) == Node("leaf", required, RequiredOverride(required, def), vt, FALSE, TRUE, val, def, <<>>)
\* OutputPort (Port.__init__)
OutputPort(required, vt, val)     == Node("leaf", required, required, vt, FALSE, TRUE, val, NoDefault, <<>>)
\* PortNamespace.__init__ (+ the valid_type setter: a valid_type forces dynamic)
PortNamespace(required, vt, dyn, pop, val, ports) ==
  Node("ns", required, required, vt, IF vt # "none" THEN TRUE ELSE dyn, pop, val, NoDefault, ports)

HasDefault(p)   == p.def.k # "none"
DeclNames(ns)   == {ns.ports[i].name : i \in 1..Len(ns.ports)}
IndexOf(ns, n)  == CHOOSE i \in 1..Len(ns.ports) : ns.ports[i].name = n
PortAt(ns, n)   == ns.ports[IndexOf(ns, n)].p
SetPort(ns, n, p) == IF n \in DeclNames(ns)
                     THEN [ns EXCEPT !.ports[IndexOf(ns, n)].p = p]
                     ELSE [ns EXCEPT !.ports = Append(@, [name |-> n, p |-> p])]

\* the validators used by the generated specs.  "nonneg" is TOTAL (it inspects the type itself and returns a verdict for any
\* value).  "pos" and "word" are PARTIAL: user code that uses its argument as a value of one type, as validators of typed ports
\* do (`value > 0`, `value.isalpha()`); outside that type (their domain) calling them does not return a verdict, it RAISES:
\*   "pos"  : lambda value, port: None if value > 0 else '...'          domain int; rejects 0 and -1; 's' > 0 -> TypeError
\*   "word" : lambda value, port: None if value.isalpha() else '...'    domain str; rejects '';      (0).isalpha -> AttributeError
ValidatorDomain(val)    == CASE val = "pos" -> "int" [] val = "word" -> "str" [] OTHER -> "any"
ValidatorException(val) == IF val = "pos" THEN "TypeError" ELSE "AttributeError"
ValidatorRaises(val, v) == ValidatorDomain(val) # "any" /\ ~IsInstance(v, ValidatorDomain(val))    \* called outside its domain
LeafValidatorRejects(val, v) == \/ val = "nonneg" /\ Negative(v)
                                \/ val = "pos"  /\ v.k = "int" /\ ~Positive(v)
                                \/ val = "word" /\ v.k = "str" /\ v.a = ""
NsValidatorRejects(val, m)   == val = "nonneg" /\ \E key \in Keys(m) : Negative(m.m[key])
\* a port whose validator relies on a type declares that type: the declaration is what entitles the validator to rely on it
\* (the universes of part 6 contain such ports only; what a validator that crashes on a value its port admits should mean
\* is not part of the properties)
WellTyped(p) == ValidatorDomain(p.val) \in {"any", p.vt}

(* =============================================================================================== *)
(* Part 2.  OPERATIONAL, inputs: ports.py validate / pre_process, processes.py on_create           *)
(* =============================================================================================== *)
\* result of a validate(): no error / a PortValidationError (why) / an exception that user code (a validator) raised and that
\* propagates through every validate() frame up to the caller (exc = its type); err is TRUE for both, so that the clauses
\* below that return at the first error also describe the propagation
NoErr        == [err |-> FALSE, why |-> "", dev |-> {}, exc |-> "none"]
Error(why)   == [err |-> TRUE, why |-> why, dev |-> {}, exc |-> "none"]
Raised(e)    == [err |-> TRUE, why |-> "raised", dev |-> {}, exc |-> e]
WithDev(r, d) == [r EXCEPT !.dev = @ \cup d]

\* Port.validate(value)
PortValidate(port, value) ==
  LET e1 == IF value = Unspec /\ port.req THEN "required"                                   \* value is UNSPECIFIED and self._required
            ELSE IF value # Unspec /\ port.vt # "none" /\ ~IsInstance(value, port.vt) THEN "type"  \* elif ... not isinstance(value, valid_type)
            ELSE ""
      called == e1 = "" /\ port.val # "none" /\ value # Unspec                           \* if not validation_error and validator and value specified
      e2 == IF called THEN (IF LeafValidatorRejects(port.val, value) THEN "validator" ELSE "")
            ELSE e1
  IN IF called /\ ValidatorRaises(port.val, value)                                        \* result = self.validator(value, self): outside
     THEN Raised(ValidatorException(port.val))                                            \* its domain the validator's exception escapes
     ELSE IF e2 # "" THEN Error(e2) ELSE NoErr

RECURSIVE Validate(_, _), NsValidate(_, _), ValidatePorts(_, _, _), ValidateDynamicPorts(_, _)

\* port.validate(...) dispatch: Port.validate for a leaf, PortNamespace.validate for a namespace
Validate(port, value) == IF port.node = "ns" THEN NsValidate(port, value) ELSE PortValidate(port, value)

\* PortNamespace.validate(port_values)
NsValidate(ns, pv0) ==
  LET \* `if not port_values: port_values = {}`  -- meant for None / UNSPECIFIED / an empty mapping; as written it
      \* also swallows 0 and '' (deviation DevFalsy); intended: those fall through to the Mapping test below
      odd  == Falsy(pv0) /\ ~IsMap(pv0) /\ pv0.k \notin {"none", "unspec"}
      d0   == IF odd /\ DevFalsy \in Dev THEN {DevFalsy} ELSE {}
      pv1  == IF Falsy(pv0) /\ (~odd \/ DevFalsy \in Dev) THEN EmptyMap ELSE pv0
  IN IF ~IsMap(pv1) THEN WithDev(Error("notmapping"), d0)                    \* not isinstance(port_values, Mapping)
     ELSE LET pvd   == Map(pv1.m)                                            \* port_values = dict(port_values)
              clone == pvd                                                   \* port_values_clone = port_values.copy()
          IN IF Keys(pvd) = {} /\ ~ns.req THEN WithDev(NoErr, d0)            \* if not port_values and not self.required: return None
             ELSE LET vp == ValidatePorts(ns, 1, pvd)                        \* validate_ports pops the declared names
                  IN IF vp.r.err THEN WithDev(vp.r, d0)
                     ELSE LET vd == ValidateDynamicPorts(ns, vp.rest)        \* what remains is judged by the dynamic properties
                              dd == d0 \cup vp.r.dev
                          IN IF vd.err THEN WithDev(vd, dd)
                             ELSE IF ns.val # "none" /\ NsValidatorRejects(ns.val, clone)   \* validator(port_values_clone, self), last
                                  THEN WithDev(Error("nsvalidator"), dd)
                                  ELSE WithDev(NoErr, dd)

\* PortNamespace.validate_ports(port_values): iteration i of `for name, port in self._ports.items()`
ValidatePorts(ns, i, pv) ==
  IF i > Len(ns.ports) THEN [r |-> NoErr, rest |-> pv]
  ELSE LET name  == ns.ports[i].name
           port  == ns.ports[i].p
           value == IF Has(pv, name) THEN pv.m[name] ELSE Unspec            \* port_values.pop(name, UNSPECIFIED)
           r     == Validate(port, value)
       IN IF r.err THEN [r |-> r, rest |-> Del(pv, name)]
          ELSE LET nx == ValidatePorts(ns, i + 1, Del(pv, name))
               IN [r |-> WithDev(nx.r, r.dev), rest |-> nx.rest]

\* PortNamespace.validate_dynamic_ports(port_values)  (recursive on the values of undeclared keys)
ValidateDynamicPorts(ns, pv) ==
  IF ~Falsy(pv) /\ ~ns.dyn THEN Error("unexpected")                          \* if port_values and not self.dynamic
  ELSE IF ns.vt = "none" THEN NoErr                                          \* if self.valid_type is None: return None
  ELSE IF IsDict(pv)                                                         \* if isinstance(port_values, dict): recurse into the values
       THEN IF \E key \in Keys(pv) : ValidateDynamicPorts(ns, pv.m[key]).err THEN Error("dyntype") ELSE NoErr
  ELSE IF ~IsInstance(pv, ns.vt) THEN Error("dyntype")                       \* elif not isinstance(port_values, self.valid_type)
  ELSE NoErr

Ok(v)     == [exc |-> "none", out |-> v, dev |-> {}]
Raise(e)  == [exc |-> e, out |-> Unspec, dev |-> {}]

RECURSIVE PreProcess(_, _), PreLoop(_, _, _)

\* PortNamespace.pre_process: iteration i of `for name, port in self.items()`; pv is the (mutated in place) argument
PreLoop(ns, i, pv) ==
  IF i > Len(ns.ports) THEN Ok(pv)
  ELSE LET name == ns.ports[i].name
           port == ns.ports[i].p
       IN IF pv.k \notin {"map", "str"} THEN Raise("TypeError")             \* `name not in port_values` on an int / None
          ELSE IF IsMap(pv) /\ Has(pv, name) /\ port.node = "ns" /\ pv.m[name] = NoneV
               THEN PreLoop(ns, i, Del(pv, name))                           \* None given for a namespace: "not specified" (as in validate)
          ELSE LET has == IsMap(pv) /\ Has(pv, name)                         \* on a str: substring test, never true for port names
               IN IF ~has /\ port.node = "ns" /\ ~port.pop THEN PreLoop(ns, i + 1, pv)       \* populate_defaults=False: continue
                  ELSE IF ~has /\ ~HasDefault(port) /\ ~(port.node = "ns" /\ Len(port.ports) > 0)
                       THEN PreLoop(ns, i + 1, pv)                                           \* nothing to fill in: continue
                  ELSE LET port_value == IF has THEN pv.m[name]
                                         ELSE IF HasDefault(port) THEN port.def.v            \* default() if callable(default) else default
                                         ELSE EmptyMap                                       \* namespace with ports: {}
                           \* repaired (DevFalsy off): a value that is not a mapping is left for validate() to reject
                           sub == IF port.node = "ns" /\ (IsMap(port_value) \/ DevFalsy \in Dev)
                                  THEN PreProcess(port, port_value) ELSE Ok(port_value)
                       IN IF sub.exc # "none" THEN sub
                          ELSE IF ~IsMap(pv) THEN [Raise("TypeError") EXCEPT !.dev = sub.dev]  \* port_values[name] = ... on a str
                          ELSE LET nx == PreLoop(ns, i + 1, Put(pv, name, sub.out))
                               IN [nx EXCEPT !.dev = @ \cup sub.dev]

\* PortNamespace.pre_process(port_values) -> AttributesFrozendict(port_values)
PreProcess(ns, pv) ==
  LET lp == PreLoop(ns, 1, pv)
  IN IF lp.exc # "none" THEN lp
     ELSE IF IsMap(lp.out) THEN [lp EXCEPT !.out = Frozen(lp.out.m)]
     ELSE IF lp.out.k = "str" /\ lp.out.a = ""                               \* dict('') == {}: '' given for a namespace becomes {}
          THEN (IF DevFalsy \in Dev THEN [lp EXCEPT !.out = Frozen(<<>>), !.dev = @ \cup {DevFalsy}]
                ELSE [Raise("TypeError") EXCEPT !.dev = lp.dev])
     ELSE IF lp.out.k = "str" THEN [Raise("ValueError") EXCEPT !.dev = lp.dev]   \* dict('s')
     ELSE [Raise("TypeError") EXCEPT !.dev = lp.dev]                             \* dict(0)

\* recursively_copy_dictionaries (Process.on_create): new dict objects, same values
RECURSIVE RecursivelyCopyDictionaries(_)
RecursivelyCopyDictionaries(v) ==
  IF IsDict(v) THEN Map([key \in Keys(v) |-> RecursivelyCopyDictionaries(v.m[key])]) ELSE v

\* Process.__init__ + Process.on_create: the constructor
\*   result: exc ("none" = a process exists), parsed = process.inputs, raw = process.raw_inputs, caller = the caller's dict
OnCreate(tree, raw) ==
  LET raw_inputs == IF Falsy(raw) THEN EmptyMap                              \* ... if self._raw_inputs else {}
                    ELSE RecursivelyCopyDictionaries(Map(raw.m))             \* pre_process mutates its argument: pass a clone
      pp == PreProcess(tree, raw_inputs)
      base == [exc |-> "none", why |-> "", parsed |-> Unspec, raw |-> raw, caller |-> raw, dev |-> pp.dev]
  IN IF pp.exc # "none" THEN [base EXCEPT !.exc = pp.exc, !.why = "pre_process"]
     ELSE LET vr == NsValidate(tree, pp.out)                                 \* self.spec().inputs.validate(self._parsed_inputs)
          IN IF vr.err THEN [base EXCEPT !.exc = IF vr.exc # "none" THEN vr.exc ELSE "ValueError",      \* raise ValueError(result)
                                         !.why = vr.why, !.dev = @ \cup vr.dev]                         \* (or what a validator raised)
             ELSE [base EXCEPT !.parsed = pp.out, !.dev = @ \cup vr.dev]

(* =============================================================================================== *)
(* Part 3.  DECLARATIVE, inputs (C11)                                                              *)
(* =============================================================================================== *)
\* a leaf with a default is never required
LeafRequired(p) == p.dreq /\ ~HasDefault(p)

\* Completed(ns, raw): raw, plus default(p) for each unsupplied leaf with a default, plus, for each unsupplied
\* sub-namespace that has ports and populates defaults, its own completion of {}; supplied namespaces recursively
RECURSIVE Completed(_, _)
Completed(ns, v) ==
  IF ~IsMap(v) THEN v
  ELSE LET declared == DeclNames(ns)
           added == {n \in declared \ Keys(v) :
                       LET p == PortAt(ns, n) IN IF p.node = "leaf" THEN HasDefault(p) ELSE Len(p.ports) > 0 /\ p.pop}
       IN Map([n \in Keys(v) \cup added |->
                 IF n \notin declared THEN v.m[n]
                 ELSE LET p == PortAt(ns, n)
                      IN IF n \in Keys(v) THEN (IF p.node = "ns" THEN Completed(p, v.m[n]) ELSE v.m[n])
                         ELSE IF p.node = "leaf" THEN p.def.v ELSE Completed(p, EmptyMap)])

RECURSIVE AllLeavesOfType(_, _)
AllLeavesOfType(v, t) == IF IsMap(v) THEN \A key \in Keys(v) : AllLeavesOfType(v.m[key], t) ELSE IsInstance(v, t)

\* Accepts(ns, v): the spec accepts v for namespace ns (v = Unspec: nothing supplied)
RECURSIVE Accepts(_, _)
Accepts(ns, v) ==
  LET m        == IF v = Unspec \/ v = NoneV THEN EmptyMap ELSE v          \* absent counts as {}
      declared == DeclNames(ns)
      leaves   == {n \in declared : PortAt(ns, n).node = "leaf"}
      subs     == {n \in declared : PortAt(ns, n).node = "ns"}
      extra    == Keys(m) \ declared
  IN /\ IsMap(m)                                                            \* a non-mapping is rejected
     /\ \/ Keys(m) = {} /\ ~ns.dreq                                         \* an empty value for a non-required namespace is fine
        \/ /\ \A n \in leaves \ Keys(m) : ~LeafRequired(PortAt(ns, n))      \* required ports present
           /\ \A n \in leaves \cap Keys(m) :
                LET p == PortAt(ns, n)
                IN /\ (p.vt # "none" => IsInstance(m.m[n], p.vt))           \* values of the declared types
                   /\ ~LeafValidatorRejects(p.val, m.m[n])                  \* port validators satisfied
           /\ \A n \in subs : Accepts(PortAt(ns, n), IF n \in Keys(m) THEN m.m[n] ELSE Unspec)
           /\ (extra # {} => ns.dyn)                                        \* no undeclared keys outside dynamic namespaces
           /\ (ns.vt # "none" => \A n \in extra : AllLeavesOfType(m.m[n], ns.vt))   \* dynamic values, at any nesting, of the type
           /\ ~NsValidatorRejects(ns.val, m)                                \* namespace validator satisfied (on the whole mapping)

\* --- leaf-wise view of a nested value relative to a port tree: <<path, value>> for every key that is not a
\* declared namespace holding a mapping
RECURSIVE LeavesT(_, _, _)
LeavesT(ns, v, prefix) ==
  UNION {LET sub == v.m[n]
             q   == Append(prefix, n)
         IN IF n \in DeclNames(ns) /\ PortAt(ns, n).node = "ns" /\ IsMap(sub)
            THEN LeavesT(PortAt(ns, n), sub, q)
            ELSE {<<q, sub>>} : n \in Keys(v)}

RECURSIVE NodeAt(_, _), Lookup(_, _), LeafPaths(_, _), NsPaths(_, _)
NodeAt(ns, path) == IF path = <<>> THEN ns ELSE NodeAt(PortAt(ns, Head(path)), Tail(path))
Lookup(v, path)  == IF path = <<>> THEN v
                    ELSE IF IsMap(v) /\ Has(v, Head(path)) THEN Lookup(v.m[Head(path)], Tail(path)) ELSE Unspec
LeafPaths(ns, prefix) ==
  UNION {LET p == ns.ports[i].p  q == Append(prefix, ns.ports[i].name)
         IN IF p.node = "leaf" THEN {q} ELSE LeafPaths(p, q) : i \in 1..Len(ns.ports)}
NsPaths(ns, prefix) ==
  {prefix} \cup UNION {LET p == ns.ports[i].p  q == Append(prefix, ns.ports[i].name)
                       IN IF p.node = "ns" THEN NsPaths(p, q) ELSE {} : i \in 1..Len(ns.ports)}

\* exactly the declared defaults: default(p) for p unsupplied whose every unsupplied ancestor namespace populates defaults
DefaultLeaves(tree, raw) ==
  {<<p, NodeAt(tree, p).def.v>> :
     p \in {p \in LeafPaths(tree, <<>>) :
              /\ HasDefault(NodeAt(tree, p))
              /\ Lookup(raw, p) = Unspec
              /\ \A i \in 1..(Len(p) - 1) : Lookup(raw, SubSeq(p, 1, i)) = Unspec => NodeAt(tree, SubSeq(p, 1, i)).pop}}

NormRaw(raw) == IF raw = NoneV THEN EmptyMap ELSE raw
\* None given for a declared namespace stands for "not specified": the same as leaving the key out (at every level)
RECURSIVE StripNone(_, _)
StripNone(ns, v) ==
  IF ~IsMap(v) THEN v
  ELSE LET declared == DeclNames(ns)
           nones == {n \in Keys(v) \cap declared : PortAt(ns, n).node = "ns" /\ v.m[n] = NoneV}
       IN Map([n \in Keys(v) \ nones |-> IF n \in declared /\ PortAt(ns, n).node = "ns" THEN StripNone(PortAt(ns, n), v.m[n]) ELSE v.m[n]])
NormIn(tree, raw) == StripNone(tree, NormRaw(raw))

\* the statements of C11 (res = OnCreate(tree, raw))
AcceptOK(tree, raw, res)     == (res.exc = "none") <=> Accepts(tree, Completed(tree, NormIn(tree, raw)))
ParsedOK(tree, raw, res)     == res.exc = "none" =>
                                  LeavesT(tree, res.parsed, <<>>) = LeavesT(tree, NormIn(tree, raw), <<>>) \cup DefaultLeaves(tree, NormIn(tree, raw))
FrozenOK(tree, raw, res)     == res.exc = "none" =>
                                  \A q \in NsPaths(tree, <<>>) :
                                     LET x == Lookup(res.parsed, q) IN x # Unspec => IsMap(x) /\ x.fz
RawUntouched(tree, raw, res) == res.raw = raw /\ res.caller = raw
C11Statements(tree, raw, res) ==
  {s \in {"AcceptOK", "ParsedOK", "FrozenOK", "RawUntouched"} :
     ~ CASE s = "AcceptOK" -> AcceptOK(tree, raw, res)
         [] s = "ParsedOK" -> ParsedOK(tree, raw, res)
         [] s = "FrozenOK" -> FrozenOK(tree, raw, res)
         [] OTHER          -> RawUntouched(tree, raw, res)}                  \* = the set of statements that FAIL

(* =============================================================================================== *)
(* Part 4.  OPERATIONAL, outputs: ports.py get_port, processes.py out / on_finish                  *)
(* =============================================================================================== *)
\* PortNamespace.get_port(name, create_dynamically=True); names = name.split('.')
\*   -> [exc, port, ns (self afterwards), dev]
RECURSIVE GetPort(_, _)
GetPort(ns, names) ==
  LET port_name == Head(names)
      namespace == Tail(names)
      missing   == port_name \notin DeclNames(ns)
  IN IF missing /\ ~ns.dyn                                                   \* if not self.dynamic or not create_dynamically
     THEN [exc |-> "ValueError", port |-> ns, ns |-> ns, dev |-> {}]
     ELSE LET \* self[port_name] = self.__class__(name=port_name, required=self.required, validator=self.validator,
              \*      valid_type=self.valid_type, default=self.default, dynamic=self.dynamic, populate_defaults=...)
              created == PortNamespace(ns.req, ns.vt, ns.dyn, ns.pop, ns.val, <<>>)
              ns1 == IF missing THEN SetPort(ns, port_name, created) ELSE ns
              \* as written the new namespace stays in the (class-level, sealed) spec: DevDynNs; intended: it is transient
              keep(n2) == IF missing /\ DevDynNs \notin Dev THEN ns ELSE n2
              d1 == IF missing /\ DevDynNs \in Dev THEN {DevDynNs} ELSE {}
              sub == PortAt(ns1, port_name)
          IN IF namespace = <<>> THEN [exc |-> "none", port |-> sub, ns |-> keep(ns1), dev |-> d1]
             ELSE IF sub.node # "ns"                                         \* cast(PortNamespace, leaf).get_port -> AttributeError
                  THEN (IF DevPath \in Dev THEN [exc |-> "AttributeError", port |-> sub, ns |-> keep(ns1), dev |-> d1 \cup {DevPath}]
                        ELSE [exc |-> "ValueError", port |-> sub, ns |-> keep(ns1), dev |-> d1])
                  ELSE LET r == GetPort(sub, namespace)
                       IN [exc |-> r.exc, port |-> r.port, ns |-> keep(SetPort(ns1, port_name, r.ns)), dev |-> d1 \cup r.dev]

\* the store loop of Process.out: `for sub_space in namespace: output_namespace = output_namespace.setdefault(sub_space, {})`
\* then `output_namespace[port_name] = value`   -> [exc, outs, dev]
RECURSIVE StoreOut(_, _, _)
StoreOut(outs, path, value) ==
  IF ~IsMap(outs)
  THEN \* a previously emitted non-mapping sits on the path
       IF DevPath \in Dev
       THEN [exc |-> IF Len(path) = 1 THEN "TypeError" ELSE "AttributeError", outs |-> outs, dev |-> {DevPath}]
       ELSE StoreOut(EmptyMap, path, value)                                  \* intended: the accepted value replaces it
  ELSE IF Len(path) = 1 THEN [exc |-> "none", outs |-> Put(outs, Head(path), value), dev |-> {}]
  ELSE LET n   == Head(path)
           cur == IF Has(outs, n) THEN outs.m[n] ELSE EmptyMap               \* setdefault(sub_space, {})
           r   == StoreOut(cur, Tail(path), value)
       IN IF r.exc # "none" THEN [r EXCEPT !.outs = outs] ELSE [r EXCEPT !.outs = Put(outs, n, r.outs)]

\* process state relevant to outputs: spec = the output port tree of the CLASS, outs = process.outputs,
\* emitted = the on_output_emitted notifications <<path, value, dynamic>>
\* Process.out(output_port, value); path = output_port.split('.')   -> [S, exc]
OutCall(S, path, value) ==
  LET namespace == SubSeq(path, 1, Len(path) - 1)
      port_name == path[Len(path)]
      gp == IF namespace # <<>> THEN GetPort(S.spec, namespace)              \* get_port('.'.join(namespace), create_dynamically=True)
            ELSE [exc |-> "none", port |-> S.spec, ns |-> S.spec, dev |-> {}]
      S1 == [S EXCEPT !.spec = gp.ns, !.dev = @ \cup gp.dev]
  IN IF gp.exc # "none" THEN [S |-> S1, exc |-> gp.exc]
     ELSE LET port_namespace == gp.port
          IN IF port_namespace.node # "ns"                                   \* port_namespace[port_name] on an OutputPort
             THEN (IF DevPath \in Dev THEN [S |-> [S1 EXCEPT !.dev = @ \cup {DevPath}], exc |-> "TypeError"]
                   ELSE [S |-> S1, exc |-> "ValueError"])
             ELSE LET found   == port_name \in DeclNames(port_namespace)     \* try: port = port_namespace[port_name] except KeyError
                      dynamic == ~found
                      verr == IF found THEN Validate(PortAt(port_namespace, port_name), value)
                              ELSE ValidateDynamicPorts(port_namespace, Map(port_name :> value))
                      S2 == [S1 EXCEPT !.dev = @ \cup verr.dev]
                  IN IF found /\ value = NoneV /\ PortAt(port_namespace, port_name).node = "ns"
                     THEN [S |-> S1, exc |-> "ValueError"]   \* None is "nothing specified" to validate(): not a value to store for a namespace
                     ELSE IF verr.err                                        \* raise ValueError(msg); an exception raised by a
                     THEN [S |-> S2, exc |-> IF verr.exc # "none" THEN verr.exc ELSE "ValueError"]   \* validator escapes as it is
                     ELSE LET st == StoreOut(S2.outs, path, value)
                          IN IF st.exc # "none" THEN [S |-> [S2 EXCEPT !.dev = @ \cup st.dev], exc |-> st.exc]
                             ELSE [S |-> [S2 EXCEPT !.outs = st.outs, !.dev = @ \cup st.dev,
                                                     !.emitted = Append(@, <<path, value, dynamic>>)],   \* on_output_emitted
                                   exc |-> "none"]

\* the step function of the generated process: out(...) for each call, exceptions caught; records exc and outputs per call
RECURSIVE RunCalls(_, _, _)
RunCalls(S, calls, log) ==
  IF calls = <<>> THEN [S |-> S, log |-> log]
  ELSE LET r == OutCall(S, calls[1].path, calls[1].value)
       IN RunCalls(r.S, Tail(calls), Append(log, [exc |-> r.exc, outs |-> r.S.outs]))

\* Running.execute (a plain return value v -> Stop(v, True), UnsuccessfulResult(v) -> Stop(v, False)),
\* Process.on_finish (validation, StateEntryFailed -> FINISHED with successful=False, future().set_result(outputs))
OnFinishValidate(S, ret) ==
  LET verr == IF ret.successful THEN NsValidate(S.spec, S.outs)              \* self.spec().outputs.validate(self.outputs)
              ELSE NoErr
      \* an exception other than StateEntryFailed out of on_finish (a validator that raised) fails the transition: EXCEPTED
      \* (the other fields mean nothing then; SuccessOK excludes the case and TLC shows that it does not arise)
  IN [state |-> IF verr.exc # "none" THEN "EXCEPTED" ELSE "FINISHED", result |-> ret.value,
      successful |-> ret.successful /\ ~verr.err, future |-> S.outs, dev |-> S.dev \cup verr.dev]

\* one process of the class whose output spec is currently `spec`
RunProcess(spec, calls, ret) ==
  LET rc == RunCalls([spec |-> spec, outs |-> EmptyMap, emitted |-> <<>>, dev |-> {}], calls, <<>>)
      fin == OnFinishValidate(rc.S, ret)
  IN [log |-> rc.log, outs |-> rc.S.outs, emitted |-> rc.S.emitted, fin |-> fin, spec |-> rc.S.spec, dev |-> fin.dev]

\* an instance: the calls are split over two successive processes of the SAME class (split = 0: a single process);
\* the class-level spec is what the first process left behind
RunInstance(tree, calls, split, ret) ==
  LET p1 == RunProcess(tree, SubSeq(calls, 1, split), ret)
      p2 == RunProcess(p1.spec, SubSeq(calls, split + 1, Len(calls)), ret)
  IN IF split = 0 THEN <<p2>> ELSE <<p1, p2>>

(* =============================================================================================== *)
(* Part 5.  DECLARATIVE, outputs (C12)                                                             *)
(* =============================================================================================== *)
DynamicAccepts(ns, v) == ns.dyn /\ (ns.vt = "none" \/ AllLeavesOfType(v, ns.vt))

\* the output spec accepts value v for the (possibly nested, possibly dynamic) port at `path`
RECURSIVE OutputAccepts(_, _, _)
OutputAccepts(ns, path, v) ==
  LET n == Head(path)
      rest == Tail(path)
  IN IF n \in DeclNames(ns)
     THEN LET p == PortAt(ns, n)
          IN IF rest = <<>>
             THEN (IF p.node = "leaf"
                   THEN (p.vt # "none" => IsInstance(v, p.vt)) /\ ~LeafValidatorRejects(p.val, v)
                   ELSE IsMap(v) /\ Accepts(p, v))
             ELSE p.node = "ns" /\ OutputAccepts(p, rest, v)
     ELSE DynamicAccepts(ns, v)                                              \* undeclared: only the dynamic properties count

OutputsSatisfy(tree, outs) == Accepts(tree, outs)

RECURSIVE Declared(_, _), StoredAt(_, _, _)
Declared(ns, path) == /\ Head(path) \in DeclNames(ns)
                      /\ (Tail(path) = <<>> \/ (PortAt(ns, Head(path)).node = "ns" /\ Declared(PortAt(ns, Head(path)), Tail(path))))
\* outs with v stored at path (intermediate mappings created; whatever was there that is not a mapping is replaced)
StoredAt(outs, path, v) ==
  IF Len(path) = 1 THEN Put(outs, Head(path), v)
  ELSE LET n == Head(path)
           cur == IF Has(outs, n) /\ IsMap(outs.m[n]) THEN outs.m[n] ELSE EmptyMap
       IN Put(outs, n, StoredAt(cur, Tail(path), v))

\* what one process should have done, judged against the DECLARED tree only
RECURSIVE ExpectedOuts(_, _, _), ExpectedEmitted(_, _, _)
ExpectedOuts(tree, calls, k) ==    \* the outputs after the first k calls
  IF k = 0 THEN EmptyMap
  ELSE LET prev == ExpectedOuts(tree, calls, k - 1)
       IN IF OutputAccepts(tree, calls[k].path, calls[k].value) THEN StoredAt(prev, calls[k].path, calls[k].value) ELSE prev
ExpectedEmitted(tree, calls, k) ==
  IF k = 0 THEN <<>>
  ELSE LET prev == ExpectedEmitted(tree, calls, k - 1)
       IN IF OutputAccepts(tree, calls[k].path, calls[k].value)
          THEN Append(prev, <<calls[k].path, calls[k].value, ~Declared(tree, calls[k].path)>>) ELSE prev

\* the statements of C12 for one process p = RunProcess(_, calls, ret) of a class declared with `tree`
OutOK(tree, calls, p) ==
  \A k \in 1..Len(calls) :
     /\ (p.log[k].exc = "none") <=> OutputAccepts(tree, calls[k].path, calls[k].value)   \* stores exactly when accepted
     /\ (p.log[k].exc # "none" => p.log[k].exc = "ValueError")                           \* ValueError for a rejected value
     /\ p.log[k].outs = ExpectedOuts(tree, calls, k)                                     \* stored / left unchanged
ReportedOK(tree, calls, p) ==
  /\ p.fin.future = p.outs                                                               \* the future reports the stored values
  /\ p.emitted = ExpectedEmitted(tree, calls, Len(calls))                                \* listeners: the stored calls, in order
SuccessOK(tree, calls, ret, p) ==
  /\ p.fin.state = "FINISHED" /\ p.fin.result = ret.value                                \* result preserved
  /\ p.fin.successful <=> (ret.successful /\ OutputsSatisfy(tree, p.outs))               \* successful only with conforming outputs
C12Statements(tree, calls, ret, p) ==
  {s \in {"OutOK", "ReportedOK", "SuccessOK"} :
     ~ CASE s = "OutOK"      -> OutOK(tree, calls, p)
         [] s = "ReportedOK" -> ReportedOK(tree, calls, p)
         [] OTHER            -> SuccessOK(tree, calls, ret, p)}              \* = the set of statements that FAIL

(* =============================================================================================== *)
(* Part 6.  Bounded universes and the two checking specifications                                  *)
(* =============================================================================================== *)
Types == {"none", "int", "str"}
Vals  == {"none", "nonneg"}                  \* the total validators (leaf ports and namespaces)
TypedVals == {"pos", "word"}                 \* the validators that rely on the declared type (leaf ports)
\* <<valid_type, validator>> of a leaf port: every combination with a total validator, a typed validator with its own type
LeafTypeVals == (Types \X Vals) \cup {<<ValidatorDomain(v), v>> : v \in TypedVals}

\* --- attribute universes ---------------------------------------------------------------------------------
\* defaults on offer for a leaf: none, a valid plain value, a callable returning it, and (when the port can reject
\* anything) a callable returning a value of the wrong type / a negative one
GoodDefault(vt) == IF vt = "str" THEN Str("d") ELSE Int("7")
BadDefault(vt)  == IF vt = "int" THEN Str("d") ELSE IF vt = "str" THEN Int("7") ELSE Int("-1")
\* ... and None, plain (`default=None`) or returned by a callable: a value like any other for an untyped port, of the
\* wrong type for a typed one
DefaultsFor(vt, val) == {NoDefault, Plain(GoodDefault(vt)), Call(GoodDefault(vt))}
                        \cup (IF vt # "none" \/ val # "none" THEN {Call(BadDefault(vt))} ELSE {})
                        \cup {Plain(NoneV), Call(NoneV)}
\* InputPort.__init__: a default that is not callable is validated by the port itself when the port is declared
\* (`self.validate(default)` -> ValueError 'Invalid default value'): such a port is not part of any spec that can be built
Declarable(p)   == p.def.k = "plain" => ~PortValidate(p, p.def.v).err
AllInputLeaves  == {p \in UNION {{InputPort(r, tv[1], d, tv[2]) : r \in BOOLEAN, d \in DefaultsFor(tv[1], tv[2])} : tv \in LeafTypeVals}
                      : Declarable(p) /\ WellTyped(p)}
AllOutputLeaves == {OutputPort(r, tv[1], tv[2]) : r \in BOOLEAN, tv \in LeafTypeVals}
\* namespace attributes: [req, vt, dyn, pop, val]
NsAttr(req, vt, dyn, pop, val) == [req |-> req, vt |-> vt, dyn |-> dyn, pop |-> pop, val |-> val]
DynTypes   == {<<FALSE, "none">>, <<TRUE, "none">>, <<TRUE, "int">>, <<TRUE, "str">>}
AllNsAttrs == {NsAttr(r, dt[2], dt[1], pp, v) : r \in BOOLEAN, dt \in DynTypes, pp \in BOOLEAN, v \in Vals}
MkNs(a, ports) == PortNamespace(a.req, a.vt, a.dyn, a.pop, a.val, ports)

\* --- trees: <= n ports below the root, depth <= 2, <= kids ports per namespace -------------------------------
L1Names == <<"a", "b", "c", "e">>
L2Names == <<"p", "q", "r", "t">>
Named(names, nodes) == [i \in 1..Len(nodes) |-> [name |-> names[i], p |-> nodes[i]]]

RECURSIVE SumSeq(_)
SumSeq(s) == IF s = <<>> THEN 0 ELSE Head(s) + SumSeq(Tail(s))
\* weights of the root's children (a child of weight w has w - 1 children of its own)
Weights(n, kids) == UNION {{ws \in [1..k -> 1..(kids + 1)] : SumSeq(ws) <= n} : k \in 0..kids}

Level2(k, LS, M2) == [1..k -> LS \cup {MkNs(a, <<>>) : a \in M2}]
Level1(w, LS, MS, M2) == IF w = 1 THEN LS \cup {MkNs(a, <<>>) : a \in MS}
                         ELSE {MkNs(a, Named(L2Names, ks)) : a \in MS, ks \in Level2(w - 1, LS, M2)}
RECURSIVE KidSeqs(_, _, _, _)
KidSeqs(ws, LS, MS, M2) == IF ws = <<>> THEN {<<>>}
                           ELSE {<<h>> \o t : h \in Level1(Head(ws), LS, MS, M2), t \in KidSeqs(Tail(ws), LS, MS, M2)}
\* RS: root attributes, LS: leaves, MS: level-1 namespace attributes, M2: level-2 (empty) namespace attributes
TreesOf(RS, LS, MS, M2, n, kids) ==
  {MkNs(ra, Named(L1Names, ks)) : ra \in RS, ks \in UNION {KidSeqs(ws, LS, MS, M2) : ws \in Weights(n, kids)}}

\* --- inputs of a tree (C11): every nested dictionary giving each declared leaf a value of LeafVals or nothing, each
\* declared namespace nothing, a non-mapping of NsBad, or such a dictionary, and one undeclared key "z" a value of
\* ZTop (root level) / ZSub (below) or nothing; plus inputs=None.  "Nothing" (the key is left out) and None (the key is
\* there and holds None) are different instances: LeafVals / ZTop / ZSub may contain NoneV.  NoneV in NsBad = None given
\* for a declared namespace: PortNamespace.validate reads it as {} and pre_process leaves it in place, so `inputs.<ns>` is
\* None where FrozenOK / ParsedOK demand a completed read-only mapping (repaired in /repo: pre_process drops the key);
\* (ports_model.NONE_FOR_NAMESPACE) until the library is repaired or the behaviour is a listed finding.
RECURSIVE DictsFor(_, _, _, _, _, _), DictLoop(_, _, _, _, _, _, _)
DictLoop(ns, i, depth, LeafVals, NsBad, ZTop, ZSub) ==
  IF i > Len(ns.ports)
  THEN {<<>>} \cup {("z" :> v) : v \in (IF depth = 0 THEN ZTop ELSE ZSub)}
  ELSE LET name == ns.ports[i].name
           p    == ns.ports[i].p
           opts == IF p.node = "leaf" THEN LeafVals
                   ELSE NsBad \cup DictsFor(p, depth + 1, LeafVals, NsBad, ZTop, ZSub)
           rest == DictLoop(ns, i + 1, depth, LeafVals, NsBad, ZTop, ZSub)
       IN rest \cup {(name :> o) @@ r : o \in opts, r \in rest}
DictsFor(ns, depth, LeafVals, NsBad, ZTop, ZSub) == {Map(f) : f \in DictLoop(ns, 1, depth, LeafVals, NsBad, ZTop, ZSub)}
InputsOf(tree, LeafVals, NsBad, ZTop, ZSub) == {NoneV} \cup DictsFor(tree, 0, LeafVals, NsBad, ZTop, ZSub)

\* --- calls of a tree (C12): paths that walk the declared tree, leave it through an undeclared name ("z", then "u",
\* "w"), or run through a leaf port ("u", "w" appended), of length <= depth; every value of OutVals
RECURSIVE PathsFrom(_, _)
Undeclared(budget) == {SubSeq(<<"z", "u", "w">>, 1, k) : k \in 1..budget}
Through(budget)    == {SubSeq(<<"u", "w">>, 1, k) : k \in 1..(IF budget > 2 THEN 2 ELSE budget)}
PathsFrom(node, budget) ==
  IF budget = 0 THEN {}
  ELSE IF node.node = "leaf" THEN Through(budget)
  ELSE Undeclared(budget)
       \cup UNION {{<<node.ports[i].name>>} \cup {<<node.ports[i].name>> \o q : q \in PathsFrom(node.ports[i].p, budget - 1)}
                   : i \in 1..Len(node.ports)}
CallsOf(tree, depth, OutVals) == {[path |-> q, value |-> v] : q \in PathsFrom(tree, depth), v \in OutVals}
\* None emitted for a declared NAMESPACE port (out('ns', None)): PortNamespace.validate reads None as {} and out() stores the
\* None, where OutputAccepts demands a mapping.  The calls of a run contain these only when noneNs is TRUE
\* (ports_model.NONE_OUTPUT_FOR_NAMESPACE); None for a leaf port or an undeclared name is a value like any other.
NoneForNamespace(tree, c) == c.value = NoneV /\ Declared(tree, c.path) /\ NodeAt(tree, c.path).node = "ns"
CallsOfN(tree, depth, OutVals, noneNs) == {c \in CallsOf(tree, depth, OutVals) : noneNs \/ ~NoneForNamespace(tree, c)}
CallSeqs(C, n) == UNION {[1..k -> C] : k \in 0..n}
PlainRet        == [value |-> Int("7"), successful |-> TRUE]      \* `return 7`
UnsuccessfulRet == [value |-> Int("7"), successful |-> FALSE]     \* `return UnsuccessfulResult(7)`

\* --- the universes of a run are given by the MC module -------------------------------------------------------
CONSTANTS
  Families,         \* names of the families of this run
  Trees(_),         \* family -> its port trees
  InputsFor(_, _),  \* C11: family, tree -> set of raw inputs
  WorkFor(_, _)     \* C12: family, tree -> set of [calls, split, ret]

\* every port of every tree of the run is well-typed (a typed validator only on a leaf port that declares its type): a universe
\* that breaks this is a mistake of the harness, not a verdict (TLC stops with an assumption failure = machinery error)
RECURSIVE AllWellTyped(_)
AllWellTyped(node) == IF node.node = "leaf" THEN WellTyped(node)
                      ELSE node.val \in Vals /\ \A i \in 1..Len(node.ports) : AllWellTyped(node.ports[i].p)
ASSUME UniverseWellTyped == \A f \in Families : \A t \in Trees(f) : AllWellTyped(t)

VARIABLES fam, tree, phase, bad
vars == <<fam, tree, phase, bad>>

\* encodings for the report (compact JSON): atoms as "i:0" / "s:d" / "n:", mappings as objects (frozen ones carry "!fz")
RECURSIVE Enc(_)
Enc(v) == IF IsMap(v) THEN (IF v.fz THEN ("!fz" :> "1") ELSE <<>>) @@ [key \in Keys(v) |-> Enc(v.m[key])]
          ELSE IF v.k = "int" THEN "i:" \o v.a ELSE IF v.k = "str" THEN "s:" \o v.a ELSE "n:" \o v.k

Init == fam \in Families /\ tree \in Trees(fam) /\ phase = "chosen" /\ bad = {}

\* C11: every input of the tree through the constructor
Eval11(raw) ==
  LET res  == OnCreate(tree, raw)
      fail == C11Statements(tree, raw, res)
  IN [raw |-> Enc(raw), exc |-> res.exc, why |-> res.why, parsed |-> Enc(res.parsed), dev |-> res.dev, fail |-> fail]
Next11 ==
  /\ phase = "chosen"
  /\ LET rows == {<<raw, Eval11(raw)>> : raw \in InputsFor(fam, tree)}            \* <<instance, row>>, each evaluated once
     IN /\ Emit([fam |-> fam, tree |-> tree, rows |-> rows])
        /\ bad' = {r[1] : r \in {x \in rows : x[2].fail # {} /\ x[2].dev = {}}}   \* failing, not explained by a deviation clause
  /\ phase' = "done" /\ UNCHANGED <<fam, tree>>
Spec11 == Init /\ [][Next11]_vars

\* C12: every work item (calls, split, ret) through one or two processes of a class with this output tree
EncCalls(calls) == [k \in 1..Len(calls) |-> [path |-> calls[k].path, value |-> Enc(calls[k].value)]]
EncProc(p) == [log |-> [k \in 1..Len(p.log) |-> [exc |-> p.log[k].exc, outs |-> Enc(p.log[k].outs)]],
               emitted |-> [k \in 1..Len(p.emitted) |-> <<p.emitted[k][1], Enc(p.emitted[k][2]), p.emitted[k][3]>>],
               state |-> p.fin.state, successful |-> p.fin.successful, result |-> Enc(p.fin.result), future |-> Enc(p.fin.future),
               ports |-> [i \in 1..Len(p.spec.ports) |-> p.spec.ports[i].name]]
Eval12(w) ==
  LET ps    == RunInstance(tree, w.calls, w.split, w.ret)
      parts == IF w.split = 0 THEN <<w.calls>> ELSE <<SubSeq(w.calls, 1, w.split), SubSeq(w.calls, w.split + 1, Len(w.calls))>>
      fail  == UNION {C12Statements(tree, parts[j], w.ret, ps[j]) : j \in 1..Len(ps)}
      dev   == UNION {ps[j].dev : j \in 1..Len(ps)}
  IN [calls |-> EncCalls(w.calls), split |-> w.split, ret |-> w.ret.successful,
      procs |-> [j \in 1..Len(ps) |-> EncProc(ps[j])], dev |-> dev, fail |-> fail]
Next12 ==
  /\ phase = "chosen"
  /\ LET rows == {<<w, Eval12(w)>> : w \in WorkFor(fam, tree)}
     IN /\ Emit([fam |-> fam, tree |-> tree, rows |-> rows])
        /\ bad' = {r[1] : r \in {x \in rows : x[2].fail # {} /\ x[2].dev = {}}}
  /\ phase' = "done" /\ UNCHANGED <<fam, tree>>
Spec12 == Init /\ [][Next12]_vars

\* the invariant of both specifications: operational |= declarative on every instance (a deviation clause, when
\* switched on, must have been taken for a statement to fail; with Dev = {} nothing may fail)
Conforms == bad = {}
===============================================================================
