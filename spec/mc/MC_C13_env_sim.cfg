SPECIFICATION Spec
CHECK_DEADLOCK FALSE
CONSTANTS
 Progs <- MCProgs
 Plans <- MCPlans
 Fixes <- MCFixes
 Alphabet <- MCAlphabet
 K = 8
 ResumeVals <- MCResumeVals
INVARIANT C13_Continuation
INVARIANT C06_ResumeValue
