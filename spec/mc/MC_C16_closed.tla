---- MODULE MC_C16_closed ----
EXTENDS ProcessProps
MCProgs == <<[name |-> "P01", steps |-> <<[kind |-> "sync", n |-> 0, status |-> "-", emits |-> <<>>, cmd |-> "stop", next |-> 0, args |-> <<>>, kw |-> <<>>, val |-> "v7", aws |-> <<>>, via |-> "return", makes |-> <<>>]>>, outMissing |-> FALSE, awt |-> <<>>], [name |-> "P03", steps |-> <<[kind |-> "sync", n |-> 0, status |-> "-", emits |-> <<>>, cmd |-> "wait", next |-> 2, args |-> <<>>, kw |-> <<>>, val |-> "w1", aws |-> <<>>, via |-> "return", makes |-> <<>>], [kind |-> "sync", n |-> 0, status |-> "-", emits |-> <<>>, cmd |-> "stop", next |-> 0, args |-> <<>>, kw |-> <<>>, val |-> "v7", aws |-> <<>>, via |-> "return", makes |-> <<>>]>>, outMissing |-> FALSE, awt |-> <<>>], [name |-> "P04", steps |-> <<[kind |-> "async", n |-> 2, status |-> "-", emits |-> <<>>, cmd |-> "continue", next |-> 2, args |-> <<"v1">>, kw |-> <<<<"x", "v3">>>>, val |-> "-", aws |-> <<>>, via |-> "return", makes |-> <<>>], [kind |-> "sync", n |-> 0, status |-> "-", emits |-> <<>>, cmd |-> "stop", next |-> 0, args |-> <<>>, kw |-> <<>>, val |-> "v0", aws |-> <<>>, via |-> "return", makes |-> <<>>]>>, outMissing |-> FALSE, awt |-> <<>>]>>
MCPlans == <<<<>>>>
MCFixes == {"F1", "F10", "F11", "F12", "F13", "F13b", "F15", "F16", "F17", "F2", "F4", "F5", "F6", "F7", "F8", "F9"}
MCAlphabet == {"close", "fail", "kill", "rpc"}
====
