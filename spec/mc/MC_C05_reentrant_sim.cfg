SPECIFICATION Spec
CHECK_DEADLOCK FALSE
CONSTANTS
 Progs <- MCProgs
 Plans <- MCPlans
 Fixes <- MCFixes
 Alphabet <- MCAlphabet
 K = 7
INVARIANT C05_NoStepWhilePaused
INVARIANT C05_NoRaise
INVARIANT C05_PlayUnpauses
INVARIANT C05_PlayWins
