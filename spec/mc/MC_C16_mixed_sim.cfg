SPECIFICATION Spec
CHECK_DEADLOCK FALSE
CONSTANTS
 Progs <- MCProgs
 Plans <- MCPlans
 Fixes <- MCFixes
 Alphabet <- MCAlphabet
 K = 8
 WithComm <- TRUE
INVARIANT C16_AnnouncedOnceInOrder
INVARIANT C16_Unsubscribed
INVARIANT C16_Reply
