SPECIFICATION FSpec
CHECK_DEADLOCK FALSE
CONSTANTS
 Progs <- MCProgs
 Plans <- MCPlans
 Fixes <- MCFixes
 Alphabet <- MCAlphabet
 K = 7
 WithComm <- TRUE
INVARIANT C16_BroadcastFaultTolerated
INVARIANT C16_OneAnnouncementLost
INVARIANT C03_UserFault
INVARIANT C03_CtorFault
INVARIANT C03_NoHalf
