SPECIFICATION Spec
CHECK_DEADLOCK FALSE
CONSTANTS
 Progs <- MCProgs
 Plans <- MCPlans
 Fixes <- MCFixes
 Alphabet <- MCAlphabet
 K = 9
INVARIANT C06_NoLostWakeup
INVARIANT C06_ResumeValue
INVARIANT C06_NoLostCompletion
