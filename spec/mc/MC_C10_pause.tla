---- MODULE MC_C10_pause ----
EXTENDS ProcessProps
MCProgs == <<[name |-> "W1", steps |-> <<[kind |-> "sync", n |-> 0, status |-> "-", emits |-> <<>>, cmd |-> "await", next |-> 2, args |-> <<>>, kw |-> <<>>, val |-> "-", aws |-> <<1, 2>>, via |-> "return", makes |-> <<1, 2>>], [kind |-> "sync", n |-> 0, status |-> "-", emits |-> <<>>, cmd |-> "stop", next |-> 0, args |-> <<>>, kw |-> <<>>, val |-> "-", aws |-> <<>>, via |-> "return", makes |-> <<>>]>>, outMissing |-> FALSE, awt |-> <<"a", "b">>], [name |-> "W3", steps |-> <<[kind |-> "sync", n |-> 0, status |-> "-", emits |-> <<>>, cmd |-> "await", next |-> 2, args |-> <<>>, kw |-> <<>>, val |-> "-", aws |-> <<1>>, via |-> "return", makes |-> <<1>>], [kind |-> "sync", n |-> 0, status |-> "-", emits |-> <<>>, cmd |-> "await", next |-> 3, args |-> <<>>, kw |-> <<>>, val |-> "-", aws |-> <<2>>, via |-> "return", makes |-> <<2>>], [kind |-> "sync", n |-> 0, status |-> "-", emits |-> <<>>, cmd |-> "stop", next |-> 0, args |-> <<>>, kw |-> <<>>, val |-> "-", aws |-> <<>>, via |-> "return", makes |-> <<>>]>>, outMissing |-> FALSE, awt |-> <<"a", "a">>]>>
MCPlans == <<<<>>>>
MCFixes == {"F1", "F10", "F11", "F12", "F13", "F13b", "F15", "F16", "F17", "F2", "F4", "F5", "F6", "F7", "F8", "F9"}
MCAlphabet == {"complete", "kill", "pause", "play"}
====
