SPECIFICATION Spec
CHECK_DEADLOCK FALSE
CONSTANTS
 Progs <- MCProgs
 Plans <- MCPlans
 Fixes <- MCFixes
 Alphabet <- MCAlphabet
 K = 9
 ResumeVals <- MCResumeVals
INVARIANT C13_Continuation
INVARIANT C13_Outcome
INVARIANT C06_ResumeValue
