SPECIFICATION Spec
CHECK_DEADLOCK FALSE
CONSTANTS
 Progs <- MCProgs
 Plans <- MCPlans
 Fixes <- MCFixes
 Alphabet <- MCAlphabet
 K = 9
INVARIANT C04_KillNoRaise
INVARIANT C04_KillNotLost
INVARIANT C04_KillReply
INVARIANT C04_KillText
INVARIANT C04_KillFromAnywhere
