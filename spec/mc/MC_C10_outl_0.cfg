SPECIFICATION Spec
CHECK_DEADLOCK FALSE
CONSTANTS
 Outlines <- MCOutlines
 Oracles <- MCOracles
 CrashSets <- MCCrashSets
 Lag <- MCLag
INVARIANT C09_Prefix
INVARIANT C09_Finished
INVARIANT Report
