---- MODULE MC_C16_downgrade ----
EXTENDS ProcessProps
MCProgs == <<[name |-> "P12", steps |-> <<[kind |-> "sync", n |-> 0, status |-> "-", emits |-> <<<<"o1", "v1">>>>, cmd |-> "continue", next |-> 2, args |-> <<>>, kw |-> <<>>, val |-> "-", aws |-> <<>>, via |-> "return", makes |-> <<>>], [kind |-> "sync", n |-> 0, status |-> "-", emits |-> <<<<"o2", "v2">>>>, cmd |-> "stop", next |-> 0, args |-> <<>>, kw |-> <<>>, val |-> "v7", aws |-> <<>>, via |-> "return", makes |-> <<>>]>>, outMissing |-> TRUE, awt |-> <<>>], [name |-> "P02", steps |-> <<[kind |-> "sync", n |-> 0, status |-> "-", emits |-> <<>>, cmd |-> "continue", next |-> 2, args |-> <<>>, kw |-> <<>>, val |-> "-", aws |-> <<>>, via |-> "return", makes |-> <<>>], [kind |-> "sync", n |-> 0, status |-> "-", emits |-> <<>>, cmd |-> "stop", next |-> 0, args |-> <<>>, kw |-> <<>>, val |-> "v7", aws |-> <<>>, via |-> "return", makes |-> <<>>]>>, outMissing |-> TRUE, awt |-> <<>>]>>
MCPlans == <<<<>>>>
MCFixes == {"F1", "F10", "F11", "F12", "F13", "F13b", "F15", "F16", "F17", "F2", "F4", "F5", "F6", "F7", "F8", "F9"}
MCAlphabet == {"bcast", "rpc"}
====
