SPECIFICATION Spec
CHECK_DEADLOCK FALSE
CONSTANTS
 Progs <- MCProgs
 Plans <- MCPlans
 Fixes <- MCFixes
 Alphabet <- MCAlphabet
 K = 3
