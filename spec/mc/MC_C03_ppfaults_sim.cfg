SPECIFICATION FSpec
CHECK_DEADLOCK FALSE
CONSTANTS
 Progs <- MCProgs
 Plans <- MCPlans
 Fixes <- MCFixes
 Alphabet <- MCAlphabet
 K = 8
INVARIANT C03_UserFault
INVARIANT C03_CtorFault
INVARIANT C03_Construction
INVARIANT C03_ListenerFault
INVARIANT C03_PausePlayFault
INVARIANT C03_NoHalf
INVARIANT C03_NothingEscapes
