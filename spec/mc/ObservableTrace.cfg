SPECIFICATION TSpec
CHECK_DEADLOCK FALSE
CONSTRAINT Constraint
POSTCONDITION Post
