SPECIFICATION Spec
CHECK_DEADLOCK FALSE
CONSTANTS
 Progs <- MCProgs
 Plans <- MCPlans
 Fixes <- MCFixes
 Alphabet <- MCAlphabet
 K = 9
INVARIANT C10_Barrier
INVARIANT C10_FailureStops
INVARIANT C06_NoLostCompletion
