SPECIFICATION Spec
CHECK_DEADLOCK FALSE
CONSTANTS
 Progs <- MCProgs
 Plans <- MCPlans
 Fixes <- MCFixes
 Alphabet <- MCAlphabet
 K = 3
INVARIANT C01_Lifecycle
PROPERTY C01_TerminalFinal
