---- MODULE MC_C10_lpause ----
EXTENDS ProcessProps
MCProgs == <<[name |-> "W1", steps |-> <<[kind |-> "sync", n |-> 0, status |-> "-", emits |-> <<>>, cmd |-> "await", next |-> 2, args |-> <<>>, kw |-> <<>>, val |-> "-", aws |-> <<1, 2>>, via |-> "return", makes |-> <<1, 2>>], [kind |-> "sync", n |-> 0, status |-> "-", emits |-> <<>>, cmd |-> "stop", next |-> 0, args |-> <<>>, kw |-> <<>>, val |-> "-", aws |-> <<>>, via |-> "return", makes |-> <<>>]>>, outMissing |-> FALSE, awt |-> <<"a", "b">>], [name |-> "W2", steps |-> <<[kind |-> "sync", n |-> 0, status |-> "-", emits |-> <<>>, cmd |-> "await", next |-> 2, args |-> <<>>, kw |-> <<>>, val |-> "-", aws |-> <<1, 2>>, via |-> "call", makes |-> <<1, 2>>], [kind |-> "sync", n |-> 0, status |-> "-", emits |-> <<>>, cmd |-> "stop", next |-> 0, args |-> <<>>, kw |-> <<>>, val |-> "-", aws |-> <<>>, via |-> "return", makes |-> <<>>]>>, outMissing |-> FALSE, awt |-> <<"a", "b">>]>>
MCPlans == <<<<[hook |-> "L_waiting", occ |-> 1, req |-> "pause", arg |-> "p2"]>>, <<[hook |-> "step", occ |-> 1, req |-> "pause", arg |-> "p2"]>>, <<[hook |-> "on_wait", occ |-> 1, req |-> "pause", arg |-> "p2"]>>>>
MCFixes == {"F1", "F10", "F11", "F12", "F13", "F13b", "F15", "F16", "F17", "F2", "F4", "F5", "F6", "F7", "F8", "F9"}
MCAlphabet == {"complete", "play"}
====
