------------------------------ MODULE Savable ------------------------------
(***************************************************************************************************)
(* C19 - any Savable round-trips its declared members through the named loader.                   *)
(*                                                                                                 *)
(* Anchors: src/plumpy/persistence.py (auto_persist, Savable.auto_persist, Savable.save,           *)
(* save_instance_state, save_members, Savable.load, _ensure_object_loader, get/set_custom_meta,    *)
(* _get_class_name, recreate_from, load_members, _get_value, SavableFuture.save_instance_state,    *)
(* SavableFuture.recreate_from, Savable.persist / _ensure_persist_configured),                     *)
(* src/plumpy/loaders.py (DefaultObjectLoader, get/set_object_loader).                             *)
(*                                                                                                 *)
(* One instance is a short SESSION: (a prior bundle loaded), (another class of the chain used), the  *)
(* object under test saved, its saved state tampered (or the module that holds the classes changed  *)
(* under it: a class removed), the original mutated, the state loaded and saved again.  Every load  *)
(* of a session goes through the load context the CALLER supplies: None, or ONE LoadSaveContext     *)
(* object handed to all of them; what a load leaves in that object is part of the result of the     *)
(* load (`ctx`), and the next load of the session starts from it.                                   *)
(*                                                                                                 *)
(* Two formulations.                                                                               *)
(*   OPERATIONAL: python objects live in a heap (a sequence of uniform entries: objects, futures,  *)
(*   mutable value cells, saved-state dicts); `SaveAny` and `LoadAny` mirror the python clause by  *)
(*   clause, including object identity (what is copied, what is aliased, what a method is bound    *)
(*   to) and the two places of the meta block where a loader identifier can live.                  *)
(*   DECLARATIVE: `Want(inst)` describes the object one must get back, from the instance alone     *)
(*   (union of the declared member sets along the inheritance chain, the member values as they     *)
(*   were at save time, methods bound to their new holder, nothing shared with the original), and  *)
(*   `ExpectedLoader`, `UnknownIsValueError`.                                                      *)
(* TLC evaluates both on every instance of the bounded universe; every instance it enumerates is   *)
(* also executed on the real code and compared with `out` (harness/savable_real.py).               *)
(*                                                                                                 *)
(* A clause guarded by "Fx" \in Fixes is the repaired behaviour, its ELSE branch the code as       *)
(* written; an as-written clause that goes wrong records a deviation identifier in `dev`.          *)
(***************************************************************************************************)
EXTENDS Naturals, Sequences, FiniteSets, TLC

CONSTANTS
  Names,     \* member names on offer for the classes of the chain: a subset of {"a", "b", "c"}
  MaxChain,  \* longest inheritance chain K1 <- K2 <- K3
  Kinds,     \* member kinds on offer
  Loaders,   \* loader configurations on offer
  Unknowns,  \* ways of making a class name - or the recorded loader - unknown (besides "none")
  Ctxs,      \* how a load context WITHOUT loader may be supplied besides None ("asis"): "shared" = one loader-less
             \* LoadSaveContext object handed to every load of the session
  Priors,    \* which bundle may be loaded through the session's load context BEFORE the one under test (besides none):
             \* "plain" (saved without a save context), "custom" (saved with LoadSaveContext(loader=CustomLoader()))
  Ways,      \* how a class of the chain may declare members: "deco" (@auto_persist), "hook" (persist() classmethod calling
             \* cls.auto_persist), besides declaring nothing
  Orders,    \* which OTHER class of the chain may be used (an instance saved and loaded) before the instance under test:
             \* "parent" (an ancestor), "child" (a descendant), besides none
  Fixes,     \* repairs contained in the implementation under test
  Known,     \* deviation identifiers of listed known findings (excused)
  Detail,    \* TRUE: `out` carries the facts about the loaded object (for conformance); FALSE: only the verdicts
  OnlyChains \* {} = every chain of the bounded universe; otherwise the chains to instantiate (a sample of them)

VARIABLES phase, inst, out
vars == <<phase, inst, out>>

\* future kinds = state x what a FINISHED future was resolved with: futP pending, futC cancelled, futE failed, and resolved with a
\* mutable value (futR), a tuple holding one (futT), None - an action that returns nothing - (futN), a falsy immutable value, the
\* empty string (futZ)
AllKinds    == {"value", "none", "method", "tuple", "sav1", "sav2", "futP", "futR", "futT", "futE", "futC", "futN", "futZ"}
AllLoaders  == {"default", "global", "persave", "ctxboth", "peralias"}
AllUnknowns == {"noattr", "malformed", "nocls", "nometa", "nested", "noldr", "badldr", "gone", "ldrgone"}
ASSUME Names \subseteq {"a", "b", "c"} /\ Kinds \subseteq AllKinds /\ Loaders \subseteq AllLoaders /\ Unknowns \subseteq AllUnknowns
ASSUME Ways \subseteq {"deco", "hook"} /\ Orders \subseteq {"parent", "child"}
ASSUME Ctxs \subseteq {"shared"} /\ Priors \subseteq {"plain", "custom"}

\* members of the chain classes, then members of the helper classes N1 (x, m) and N2 (x, s, f)
NameOrder == <<"a", "b", "c", "x", "m", "s", "f">>
AllNames  == {NameOrder[i] : i \in 1..Len(NameOrder)}
InOrder(S) == SelectSeq(NameOrder, LAMBDA n : n \in S)

(* ----------------------------------------------------------------------------------------------- *)
(* the heap                                                                                        *)
(* ----------------------------------------------------------------------------------------------- *)
\* attribute / dictionary values
Absent     == [k |-> "absent", v |-> "-", p |-> 0]
NoneV      == [k |-> "none",   v |-> "-", p |-> 0]
Plain(p)   == [k |-> "plain",  v |-> "-", p |-> p]      \* a mutable plain value: reference to a cell
Meth(n, p) == [k |-> "meth",   v |-> n,   p |-> p]      \* bound method n of object p
Ref(p)     == [k |-> "ref",    v |-> "-", p |-> p]      \* reference to an object, future or dict
Tup(p)     == [k |-> "tup",    v |-> "-", p |-> p]      \* a tuple (immutable itself) holding one mutable cell
Str(s)     == [k |-> "str",    v |-> s,   p |-> 0]      \* an immutable string
NoAttrs    == [n \in AllNames |-> Absent]

\* identifiers produced by object loaders: <<scheme, class name>>
NoIdent    == <<"-", "-">>
\* '!!meta' of a saved state.  ldrUser = ['!!meta']['user']['object_loader'], ldrTop = ['!!meta']['object_loader']
NoMeta     == [has |-> FALSE, cls |-> NoIdent, ldrTop |-> NoIdent, ldrUser |-> NoIdent, types |-> [n \in AllNames |-> "-"]]

\* t: "cell" (v = content) | "obj" (cls, attrs) | "fut" (v = _state, res = _result, e = exception) |
\*    "dict" (a saved state: meta, attrs = members, v/res/e = '_state' / '_result' / 'exception' keys)
\*    conf = the INSTANCE attribute _persist_configured
Entry(t, cls, v) == [t |-> t, cls |-> cls, v |-> v, e |-> "-", res |-> Absent, attrs |-> NoAttrs, meta |-> NoMeta, conf |-> FALSE]
Cell(h, content) == Append(h, Entry("cell", "-", content))

\* results of python calls: heap, class attributes, returned id, exception class name, deviation clauses gone through
R(h, st, r, dev)   == [h |-> h, st |-> st, r |-> r, exc |-> "-", dev |-> dev]
Err(h, st, e, dev) == [h |-> h, st |-> st, r |-> 0, exc |-> e, dev |-> dev]

(* ----------------------------------------------------------------------------------------------- *)
(* auto_persist: the class attribute `_auto_persist` (set objects have identity)                  *)
(* ----------------------------------------------------------------------------------------------- *)
\* own[i] = index into `sets` of the set object stored on class i itself, 0 = not defined there (inherited);
\* Savable._auto_persist = None is index 0 at the root.
RECURSIVE Lookup(_, _)
Lookup(own, i) == IF i = 0 THEN 0 ELSE IF own[i] # 0 THEN own[i] ELSE Lookup(own, i - 1)

\* Savable.auto_persist(cls_i, *members), the classmethod -> [st, dev]
\*   if cls._auto_persist is None: cls._auto_persist = set()
\*   cls._auto_persist.update(members)
\* As written the update goes to whatever set object the attribute lookup finds: when class i has no set of its own
\* (no decorator) but an ancestor has one, the ANCESTOR's set is changed (deviation D19d).
AutoPersistCM(st, i, members) ==
  LET cur  == Lookup(st.own, i)
      mine == st.own[i] # 0
      st1  == IF cur = 0 THEN [st EXCEPT !.own = [st.own EXCEPT ![i] = Len(st.sets) + 1], !.sets = Append(st.sets, {})]
              ELSE IF ~mine /\ "FH1" \in Fixes                         \* repaired: a class gets its own copy first
                   THEN [st EXCEPT !.own = [st.own EXCEPT ![i] = Len(st.sets) + 1], !.sets = Append(st.sets, st.sets[cur])]
              ELSE st
      tgt  == Lookup(st1.own, i)
      leak == st1.own[i] = 0 /\ ~(members \subseteq st1.sets[tgt])
  IN [st |-> [st1 EXCEPT !.sets[tgt] = @ \cup members], dev |-> IF leak THEN {"D19d"} ELSE {}]

Decorate(st, i, members) ==                \* auto_persist(*members)(cls_i), the decorator
  LET cur == Lookup(st.own, i)
      new == IF cur = 0 THEN {} ELSE st.sets[cur]        \* set()  |  set(savable._auto_persist): a NEW set object
      st1 == [st EXCEPT !.own = [st.own EXCEPT ![i] = Len(st.sets) + 1], !.sets = Append(st.sets, new)]
  IN AutoPersistCM(st1, i, members).st                   \* savable.auto_persist(*members)

RECURSIVE DefineClasses(_, _, _)
DefineClasses(ch, i, st) ==
  IF i > Len(ch) THEN st
  ELSE DefineClasses(ch, i + 1, IF ch[i].way = "deco" THEN Decorate(st, i, ch[i].names) ELSE st)
\* the class attributes once the chain is defined (decorators run at definition time, hooks at first use); `gone` = the names that
\* were REMOVED from the module since (the plugin that provided them was uninstalled while the interpreter keeps running)
ClassStore(ch) == DefineClasses(ch, 1, [own |-> [j \in 1..Len(ch) |-> 0], sets |-> <<>>, gone |-> {}])

\* self.persist() for an instance of class i: the hook of the nearest class that has one; each hook is
\*     @classmethod
\*     def persist(cls): super().persist(); cls.auto_persist(*names)
\* so the hooks of the ancestors run first, all of them with cls = class i
RECURSIVE RunHooks(_, _, _, _, _)
RunHooks(ch, st, i, j, dev) ==
  IF j > i THEN [st |-> st, dev |-> dev]
  ELSE IF ch[j].way = "hook" THEN LET r == AutoPersistCM(st, i, ch[j].names) IN RunHooks(ch, r.st, i, j + 1, dev \cup r.dev)
  ELSE RunHooks(ch, st, i, j + 1, dev)

ChainClass(t) == "K" \o ToString(t)
ChainIdx(ch, c) == IF c \in {ChainClass(t) : t \in 1..Len(ch)} THEN CHOOSE t \in 1..Len(ch) : ChainClass(t) = c ELSE 0
\* Savable._ensure_persist_configured(self): `if not self._persist_configured: self.persist(); self._persist_configured = True`
\* (an INSTANCE attribute: every instance runs the hook once, at its first save or load)  -> [h, st, dev]
EnsureConfigured(h, st, ch, oid) ==
  IF h[oid].conf THEN [h |-> h, st |-> st, dev |-> {}]
  ELSE LET i == ChainIdx(ch, h[oid].cls)
           r == IF i = 0 THEN [st |-> st, dev |-> {}] ELSE RunHooks(ch, st, i, 1, {})       \* N1, N2: Savable.persist is `pass`
       IN [h |-> [h EXCEPT ![oid].conf = TRUE], st |-> r.st, dev |-> r.dev]

\* `if self._auto_persist is not None: ...members(self._auto_persist, ...)`: the set the attribute lookup finds NOW
PersistedNow(st, ch, c) ==
  CASE c = "N1" -> {"x", "m"} [] c = "N2" -> {"x", "s", "f"}
    [] OTHER -> LET idx == Lookup(st.own, ChainIdx(ch, c)) IN IF idx = 0 THEN {} ELSE st.sets[idx]
PersistedOp(ch, t) == PersistedNow(ClassStore(ch), ch, ChainClass(t))
\* DECLARATIVE: a class persists what it and its ancestors declared, by decorator or by hook
PersistedDecl(ch, t) == UNION {ch[j].names : j \in 1..t}
DecoratedDecl(ch, t) == UNION {ch[j].names : j \in {k \in 1..t : ch[k].way = "deco"}}
\* the module always holds L1, L2, L3: Savables that declare nothing, living under the LEGACY names of the chain classes
\* (what the default loader finds under the names the alias loader writes)
StandIns == {"L1", "L2", "L3"}
ClassNames(ch) == {ChainClass(t) : t \in 1..Len(ch)} \cup {"N1", "N2"} \cup StandIns

(* ----------------------------------------------------------------------------------------------- *)
(* object loaders                                                                                  *)
(* ----------------------------------------------------------------------------------------------- *)
\* loader objects: "D" a DefaultObjectLoader ('module:name'), "C" an instance of the custom loader (its own,
\* disjoint identifier scheme), "A" an instance of the alias loader (a DefaultObjectLoader that keeps writing the stable
\* legacy name L<i> for the chain class K<i>: identifiers in the DEFAULT loader's format, which the default loader
\* resolves too - to the stand-in of that name), "class:CustomLoader" the custom loader CLASS (not an instance), "none"
Scheme(l) == IF l \in {"D", "A"} THEN "D" ELSE "C"
Legacy(c) == CASE c = "K1" -> "L1" [] c = "K2" -> "L2" [] c = "K3" -> "L3" [] OTHER -> c
Modern(n) == CASE n = "L1" -> "K1" [] n = "L2" -> "K2" [] n = "L3" -> "K3" [] OTHER -> n
Identify(l, cls) == <<Scheme(l), IF l = "A" THEN Legacy(cls) ELSE cls>>      \* ObjectLoader.identify_object
LoaderClass(l) == CASE l = "C" -> "CustomLoader" [] l = "A" -> "AliasLoader" [] OTHER -> "DefaultObjectLoader"
LoaderClasses == {"CustomLoader", "AliasLoader"}
InstanceOf(c) == CASE c = "CustomLoader" -> "C" [] c = "AliasLoader" -> "A" [] OTHER -> "none"      \* cls(): only loader classes are ever recorded
\* what the module holds NOW: an object loader keeps no memory, every load_object looks the name up at the moment of the call
ModuleNow(ch, st) == (ClassNames(ch) \cup LoaderClasses) \ st.gone
Loadable(ct) == ct \cup {"SavableFuture"}
LoadObject(l, ident, ct) ==                                    \* ObjectLoader.load_object -> [cls, exc]
  IF l \notin {"D", "C", "A"} THEN [cls |-> "-", exc |-> "TypeError"]      \* unbound method called on the class
  ELSE IF l = "A" /\ ident[1] = "D" /\ ident[2] \in StandIns                \* a legacy name: the class that carries it today
       THEN IF Modern(ident[2]) \in ct THEN [cls |-> Modern(ident[2]), exc |-> "-"] ELSE [cls |-> "-", exc |-> "ValueError"]
  ELSE IF ident[1] = Scheme(l) /\ ident[2] \in Loadable(ct) THEN [cls |-> ident[2], exc |-> "-"]
  ELSE [cls |-> "-", exc |-> "ValueError"]

\* what a loader configuration means: global loader, loader of the save context, loader of the load context
Global(cfg)  == IF cfg = "global" THEN "C" ELSE "D"
SaveCtx(cfg) == IF cfg \in {"persave", "ctxboth"} THEN "C" ELSE IF cfg = "peralias" THEN "A" ELSE "none"
LoadCtx(cfg) == IF cfg = "ctxboth" THEN "C" ELSE "none"

(* ----------------------------------------------------------------------------------------------- *)
(* building the original object (harness/savable_real.py builds the same python object)           *)
(* ----------------------------------------------------------------------------------------------- *)
NewN1(h, path) ==                          \* N1(): self.x = <plain>; self.m = self.nm
  LET id == Len(h) + 1
      h1 == Cell(Append(h, Entry("obj", "N1", "-")), "v:" \o path \o ".x")
  IN [h |-> [h1 EXCEPT ![id].attrs = [@ EXCEPT !["x"] = Plain(id + 1), !["m"] = Meth("nm", id)]], id |-> id]

NewFut(h, kind, path) ==                   \* SavableFuture(), then set_result / set_exception / cancel
  LET id == Len(h) + 1
      st == CASE kind = "futP" -> "PENDING" [] kind = "futC" -> "CANCELLED" [] OTHER -> "FINISHED"
      f  == [Entry("fut", "SavableFuture", st) EXCEPT !.e = IF kind = "futE" THEN "E1" ELSE "-", !.res = NoneV]
  IN IF kind = "futR"
     THEN [h |-> Cell(Append(h, [f EXCEPT !.res = Plain(id + 1)]), "v:" \o path \o ".result"), id |-> id]
     ELSE IF kind = "futT"                                   \* the result is a tuple holding a mutable cell
     THEN [h |-> Cell(Append(h, [f EXCEPT !.res = Tup(id + 1)]), "v:" \o path \o ".result[0]"), id |-> id]
     ELSE IF kind = "futZ"                                   \* set_result(''): resolved with a falsy immutable value
     THEN [h |-> Append(h, [f EXCEPT !.res = Str("")]), id |-> id]
     \* futN: set_result(None) - FINISHED, no exception, _result None (as _result is for every future that holds no result)
     ELSE [h |-> Append(h, f), id |-> id]

NewN2(h, path) ==                          \* N2(): self.x = <plain>; self.s = N1(); self.f = <future with a result>
  LET id == Len(h) + 1
      h1 == Cell(Append(h, Entry("obj", "N2", "-")), "v:" \o path \o ".x")
      n1 == NewN1(h1, path \o ".s")
      fu == NewFut(n1.h, "futR", path \o ".f")
  IN [h |-> [fu.h EXCEPT ![id].attrs = [@ EXCEPT !["x"] = Plain(id + 1), !["s"] = Ref(n1.id), !["f"] = Ref(fu.id)]], id |-> id]

RECURSIVE Fill(_, _, _, _)
Fill(h, root, names, kinds) ==
  IF names = <<>> THEN h
  ELSE LET n == Head(names)  k == kinds[n]  path == "o." \o n
           r == CASE k = "value"  -> [h |-> Cell(h, "v:" \o path), val |-> Plain(Len(h) + 1)]
                  [] k = "tuple"  -> [h |-> Cell(h, "v:" \o path \o "[0]"), val |-> Tup(Len(h) + 1)]
                  [] k = "none"   -> [h |-> h, val |-> NoneV]
                  [] k = "method" -> [h |-> h, val |-> Meth("m_" \o n, root)]
                  [] k = "sav1"   -> LET x == NewN1(h, path) IN [h |-> x.h, val |-> Ref(x.id)]
                  [] k = "sav2"   -> LET x == NewN2(h, path) IN [h |-> x.h, val |-> Ref(x.id)]
                  [] OTHER        -> LET x == NewFut(h, k, path) IN [h |-> x.h, val |-> Ref(x.id)]
       IN Fill([r.h EXCEPT ![root].attrs[n] = r.val], root, Tail(names), kinds)
\* every name on offer is an attribute of the original, persisted or not; the object is id 1
BuildOf(t, kinds) == Fill(<<Entry("obj", ChainClass(t), "-")>>, 1, InOrder(Names), kinds)
Build(i) == BuildOf(i.t, i.kinds)

(* ----------------------------------------------------------------------------------------------- *)
(* OPERATIONAL: Savable.save                                                                       *)
(* ----------------------------------------------------------------------------------------------- *)
\* copy.deepcopy of a member value (value domain: None, strings, one mutable cell, a tuple holding one mutable cell):
\* every mutable cell, also one inside a tuple, is a NEW cell
DeepCopy(h, val) == IF val.k \in {"plain", "tup"} THEN [h |-> Cell(h, h[val.p].v), val |-> [val EXCEPT !.p = Len(h) + 1]]
                    ELSE [h |-> h, val |-> val]

RECURSIVE SaveAny(_, _, _, _, _, _), SaveMembers(_, _, _, _, _, _, _, _, _)

\* Savable.save_members (the loop; `did` is out_state); ch = the chain (the classes that exist)
SaveMembers(h, st, oid, did, names, sctx, G, ch, dev) ==
  IF names = <<>> THEN R(h, st, did, dev)
  ELSE LET m == Head(names)  val == h[oid].attrs[m]  rest == Tail(names) IN
    IF val.k = "absent" THEN Err(h, st, "AttributeError", dev)                   \* getattr(self, member)
    ELSE IF val.k = "meth" THEN                                                  \* inspect.ismethod(value)
      IF val.p # oid THEN Err(h, st, "TypeError", dev)                           \* method of another object
      ELSE SaveMembers([h EXCEPT ![did].meta.has = TRUE, ![did].meta.types[m] = "m", ![did].attrs[m] = Str(val.v)],
                       st, oid, did, rest, sctx, G, ch, dev)
    ELSE IF val.k = "ref" THEN                                                   \* isinstance(value, Savable): value.save(...)
      \* as written the nested object is saved WITHOUT the save context: its class name comes from the global loader
      LET inner == IF "FL3" \in Fixes THEN sctx ELSE "none"
          d1    == IF "FL3" \notin Fixes /\ sctx # "none" /\ sctx # G THEN dev \cup {"D19b"} ELSE dev
          n     == SaveAny(h, st, val.p, inner, G, ch)
      IN IF n.exc # "-" THEN Err(n.h, n.st, n.exc, d1 \cup n.dev)
         ELSE SaveMembers([n.h EXCEPT ![did].meta.has = TRUE, ![did].meta.types[m] = "S", ![did].attrs[m] = Ref(n.r)],
                          n.st, oid, did, rest, sctx, G, ch, d1 \cup n.dev)
    ELSE LET c == DeepCopy(h, val) IN                                            \* copy.deepcopy(value)
         SaveMembers([c.h EXCEPT ![did].attrs[m] = c.val], st, oid, did, rest, sctx, G, ch, dev)

\* SavableFuture.save_instance_state: auto-persisted '_state' and '_result', then the exception
SaveFuture(h, st, fid, did, dev) ==
  LET f  == h[fid]
      c  == DeepCopy(h, f.res)
      h1 == [c.h EXCEPT ![did].v = f.v, ![did].res = c.val]
  IN IF f.v = "CANCELLED" /\ "FFC" \notin Fixes
     THEN Err(h1, st, "CancelledError", dev \cup {"D19c"})   \* `self.done() and self.exception() is not None`: exception() raises
     ELSE IF f.v = "FINISHED" /\ f.e # "-" THEN R([h1 EXCEPT ![did].e = f.e], st, did, dev)     \* the exception object itself (not copied)
     ELSE R(h1, st, did, dev)

\* Savable.save(self, save_context); sctx = save_context.loader or "none"; G = loaders.get_object_loader()
SaveAny(h, st, oid, sctx, G, ch) ==
  LET o      == h[oid]
      did    == Len(h) + 1
      \* `if save_context.loader is not None: set_custom_meta(out_state, 'object_loader', default.identify_object(loader class))`
      user   == IF sctx # "none" THEN Identify(G, LoaderClass(sctx)) ELSE NoIdent
      loader == IF sctx # "none" THEN sctx ELSE G
      meta   == [NoMeta EXCEPT !.has = TRUE, !.ldrUser = user, !.cls = Identify(loader, o.cls)]     \* _set_class_name
      h1     == Append(h, [Entry("dict", "-", "-") EXCEPT !.meta = meta])
  IN IF o.t = "fut" THEN SaveFuture(h1, st, oid, did, {})
     ELSE \* save_instance_state: self._ensure_persist_configured(); save_members(self._auto_persist, ...)
          LET e == EnsureConfigured(h1, st, ch, oid) IN
          SaveMembers(e.h, e.st, oid, did, InOrder(PersistedNow(e.st, ch, o.cls)), sctx, G, ch, e.dev)

(* ----------------------------------------------------------------------------------------------- *)
(* OPERATIONAL: Savable.load                                                                       *)
(* ----------------------------------------------------------------------------------------------- *)
\* _ensure_object_loader(context, saved_state) -> [ldr, exc, dev, ctx]
\* lctx = what the caller handed in: "absent" (None: `context = LoadSaveContext()`, a fresh object), "none" (a LoadSaveContext
\* object without loader), else the loader of the caller's context object.  ldr = the loader of the context the load goes on
\* with; ctx = the loader attribute of the CALLER's context object afterwards: the resolved loader goes into a COPY
\* (`return context.copyextend(loader=loader)`), the caller's object is left as it was.
EnsureLoader(d, lctx, G, ct) ==
  IF lctx \notin {"absent", "none"} THEN [ldr |-> lctx, exc |-> "-", dev |-> {}, ctx |-> lctx]     \* 1) the one already in the context
  ELSE LET \* 2) get_custom_meta(saved_state, 'object_loader'): as written saved_state['!!meta'][name], although
           \*    set_custom_meta wrote saved_state['!!meta']['user'][name]
           key  == IF ~d.meta.has THEN NoIdent ELSE IF "FL1" \in Fixes THEN d.meta.ldrUser ELSE d.meta.ldrTop
           miss == "FL1" \notin Fixes /\ d.meta.has /\ d.meta.ldrUser # NoIdent /\ d.meta.ldrTop = NoIdent
           dv   == IF miss THEN {"D19a"} ELSE {}
       IN IF key = NoIdent THEN [ldr |-> G, exc |-> "-", dev |-> dv, ctx |-> lctx]             \* 3) the global default (except ValueError: nothing recorded)
          ELSE LET c == LoadObject(G, key, ct) IN                                \* else: default_loader.load_object(identifier)
               IF c.exc # "-" THEN [ldr |-> "none", exc |-> c.exc, dev |-> dv, ctx |-> lctx]  \* a recorded loader that cannot be found is NOT "nothing recorded"
               ELSE IF "FL2" \in Fixes THEN [ldr |-> InstanceOf(c.cls), exc |-> "-", dev |-> dv, ctx |-> lctx]      \* an instance of that class
               ELSE [ldr |-> "class:" \o c.cls, exc |-> "-", dev |-> dv \cup {"D19a"}, ctx |-> lctx]               \* as written: the class itself

RECURSIVE LoadAny(_, _, _, _, _, _), LoadMembers(_, _, _, _, _, _, _, _, _)
LR(h, st, r, exc, dev, used) == [h |-> h, st |-> st, r |-> r, exc |-> exc, dev |-> dev, used |-> used]
\* the result of a top-level load: also what it left in the caller's context object
WithCtx(r, c) == [h |-> r.h, st |-> r.st, r |-> r.r, exc |-> r.exc, dev |-> r.dev, used |-> r.used, ctx |-> c]

\* Savable.load_members / _get_value
LoadMembers(h, st, nid, sid, names, ldr, G, ch, dev) ==
  IF names = <<>> THEN LR(h, st, nid, "-", dev, ldr)
  ELSE LET m == Head(names)  val == h[sid].attrs[m]  rest == Tail(names)
           typ == IF h[sid].meta.has THEN h[sid].meta.types[m] ELSE "-"        \* _get_meta_type: KeyError -> None
       IN IF val.k = "absent" THEN LR(h, st, 0, "KeyError", dev, ldr)            \* saved_state[name]
          ELSE IF typ = "m" THEN                                                \* getattr(self, value): bound to the NEW object
            LoadMembers([h EXCEPT ![nid].attrs[m] = Meth(val.v, nid)], st, nid, sid, rest, ldr, G, ch, dev)
          ELSE IF typ = "S" THEN                                                \* Savable.load(value, load_context)
            LET n == LoadAny(h, st, val.p, ldr, G, ch) IN
            IF n.exc # "-" THEN LR(n.h, n.st, 0, n.exc, dev \cup n.dev, ldr)
            ELSE LoadMembers([n.h EXCEPT ![nid].attrs[m] = Ref(n.r)], n.st, nid, sid, rest, ldr, G, ch, dev \cup n.dev)
          ELSE LoadMembers([h EXCEPT ![nid].attrs[m] = val], st, nid, sid, rest, ldr, G, ch, dev)     \* the saved value itself

\* SavableFuture.recreate_from: which of set_exception / set_result is called is decided by the saved STATE and by the PRESENCE of the
\* 'exception' key (try ... except KeyError), never by the saved value: a future resolved with None or '' is resolved again
RecreateFuture(h, st, sid, ldr, dev) ==
  LET d  == h[sid]
      id == Len(h) + 1
      f  == Entry("fut", "SavableFuture", d.v)
      g  == CASE d.v = "FINISHED" /\ d.e # "-" -> [f EXCEPT !.e = d.e, !.res = NoneV]       \* set_exception(saved_state['exception'])
              [] d.v = "FINISHED"              -> [f EXCEPT !.res = d.res]                  \* set_result(saved_state['_result'])
              [] OTHER                         -> [f EXCEPT !.res = NoneV]                  \* pending | cancel()
  IN LR(Append(h, g), st, id, "-", dev, ldr)

\* Savable.load(saved_state, load_context); lctx = "absent" (None) | "none" (a context without loader) | load_context.loader
\* -> [h, st, r, exc, dev, used, ctx]
\* used = the loader whose load_object resolved (or tried to resolve) the class name of this saved state
\* ctx  = the loader attribute of the caller's context object after the call (see EnsureLoader)
LoadAny(h, st, sid, lctx, G, ch) ==
  LET d  == h[sid]
      ct == ModuleNow(ch, st)
      en == EnsureLoader(d, lctx, G, ct)
  IN WithCtx(
     IF en.exc # "-" THEN LR(h, st, 0, en.exc, en.dev, "none")
     ELSE LET h1 == [h EXCEPT ![sid].meta.has = TRUE] IN        \* _get_class_name -> _get_create_meta: setdefault('!!meta', {})
          IF d.meta.cls = NoIdent \/ ~d.meta.has
          THEN LR(h1, st, 0, "ValueError", en.dev, "none")       \* KeyError -> 'Class name not found'
          ELSE LET c == LoadObject(en.ldr, d.meta.cls, ct) IN   \* load_context.loader.load_object(class_name)
               IF c.exc # "-" THEN LR(h1, st, 0, c.exc, en.dev, en.ldr)
               ELSE IF c.cls = "SavableFuture" THEN RecreateFuture(h1, st, sid, en.ldr, en.dev)
               ELSE IF c.cls \in LoaderClasses THEN LR(h1, st, 0, "AttributeError", en.dev, en.ldr)      \* not a Savable
               ELSE \* Savable.recreate_from: cls.__new__(cls); load_instance_state: self._ensure_persist_configured();
                    \* load_members(self._auto_persist, ...): the members get the EXTENDED context (a copy that carries en.ldr)
                    LET nid == Len(h1) + 1
                        e   == EnsureConfigured(Append(h1, Entry("obj", c.cls, "-")), st, ch, nid)
                    IN LoadMembers(e.h, e.st, nid, sid, InOrder(PersistedNow(e.st, ch, c.cls)), en.ldr, G, ch, en.dev \cup e.dev),
     en.ctx)

(* ----------------------------------------------------------------------------------------------- *)
(* descriptions: sets of <<path, kind, detail>> (all strings, so that any two are comparable)      *)
(* ----------------------------------------------------------------------------------------------- *)
Present(e) == {n \in AllNames : e.attrs[n].k # "absent"}
RECURSIVE Facts(_, _, _, _, _), ValFacts(_, _, _, _, _)
\* avoid = heap ids that must not be reachable (the original's): reported as <<path, "shared", "-">>
Facts(h, id, path, avoid, members) ==
  LET e == h[id] IN
  (IF id \in avoid THEN {<<path, "shared", "-">>} ELSE {}) \cup
  CASE e.t = "cell" -> {<<path, "plain", e.v>>}
    [] e.t = "fut"  -> {<<path, "fut", e.v>>}
                       \cup (IF e.v = "FINISHED" /\ e.e = "-" THEN ValFacts(h, id, e.res, path \o ".result", avoid) ELSE {})
                       \cup (IF e.e # "-" THEN {<<path \o ".exc", "exc", e.e>>} ELSE {})
    [] e.t = "obj"  -> {<<path, "obj", e.cls>>} \cup UNION {ValFacts(h, id, e.attrs[n], path \o "." \o n, avoid) : n \in members}
    [] OTHER        -> {<<path, "dict", "-">>}
ValFacts(h, holder, val, path, avoid) ==
  CASE val.k = "absent" -> {<<path, "absent", "-">>}
    [] val.k = "none"   -> {<<path, "none", "-">>}
    [] val.k = "str"    -> {<<path, "str", val.v>>}
    [] val.k = "meth"   -> {<<path, "meth", val.v \o (IF val.p = holder THEN "@self" ELSE "@other")>>}
    [] val.k = "plain"  -> Facts(h, val.p, path, avoid, {})
    [] val.k = "tup"    -> {<<path, "tuple", "-">>} \cup Facts(h, val.p, path \o "[0]", avoid, {})
    [] OTHER            -> Facts(h, val.p, path, avoid, Present(h[val.p]))

\* everything an object holds (methods excluded: what they are bound to is part of Facts)
RECURSIVE Reach(_, _)
Reach(h, id) ==
  LET e == h[id]
      ps == {e.attrs[n].p : n \in {m \in AllNames : e.attrs[m].k \in {"plain", "ref", "tup"}}}
            \cup (IF e.res.k \in {"plain", "ref", "tup"} THEN {e.res.p} ELSE {})
  IN {id} \cup UNION {Reach(h, p) : p \in ps}

\* a saved state as facts (second save = first save; the saved state does not change under mutation of the original)
IdStr(i) == i[1] \o ":" \o i[2]
RECURSIVE DictFacts(_, _, _)
DictVal(h, val, path) ==
  CASE val.k = "absent" -> {}
    [] val.k = "plain"  -> {<<path, "plain", h[val.p].v>>}
    [] val.k = "tup"    -> {<<path, "tuple", h[val.p].v>>}
    [] val.k = "ref"    -> DictFacts(h, val.p, path)
    [] OTHER            -> {<<path, val.k, val.v>>}
DictFacts(h, id, path) ==
  LET d == h[id] IN
  {<<path, "meta", IF d.meta.has THEN "y" ELSE "n">>, <<path, "cls", IdStr(d.meta.cls)>>, <<path, "user", IdStr(d.meta.ldrUser)>>,
   <<path, "top", IdStr(d.meta.ldrTop)>>, <<path, "_state", d.v>>, <<path, "exception", d.e>>}
  \cup {<<path \o "." \o n, "type", d.meta.types[n]>> : n \in {m \in AllNames : d.meta.types[m] # "-"}}
  \cup DictVal(h, d.res, path \o "._result")
  \cup UNION {DictVal(h, d.attrs[n], path \o "." \o n) : n \in AllNames}

(* ----------------------------------------------------------------------------------------------- *)
(* one instance: build, save, (tamper with the class name), mutate the original, load, save again  *)
(* ----------------------------------------------------------------------------------------------- *)
\* what the environment does to the original after the save: every mutable value is changed in place,
\* every pending future is resolved
Mutate(h, ids) ==
  [i \in 1..Len(h) |->
     IF i \in ids /\ h[i].t = "cell" THEN [h[i] EXCEPT !.v = @ \o "!"]
     ELSE IF i \in ids /\ h[i].t = "fut" /\ h[i].v = "PENDING" THEN [h[i] EXCEPT !.v = "FINISHED", !.res = Str("late")]
     ELSE h[i]]

\* making the class name of a saved state - or the loader it records - unknown (the plugin that provided it is gone)
Tamper(h, sid, how) ==
  CASE how = "noattr"    -> [h EXCEPT ![sid].meta.cls = <<@[1], "Nope">>]        \* right format, no such object
    [] how = "malformed" -> [h EXCEPT ![sid].meta.cls = <<"X", @[2]>>]           \* no loader understands the format
    [] how = "nocls"     -> [h EXCEPT ![sid].meta.cls = NoIdent]                 \* no 'class_name' key
    [] how = "nometa"    -> [h EXCEPT ![sid].meta = NoMeta]                      \* no '!!meta' key
    [] how = "noldr"     -> [h EXCEPT ![sid].meta.ldrUser = <<@[1], "Nope">>]    \* the recorded loader: right format, no such object
    [] how = "badldr"    -> [h EXCEPT ![sid].meta.ldrUser = <<"X", @[2]>>]       \* the recorded loader: a format nobody understands
    [] how = "nested"    -> [i \in 1..Len(h) |->                                 \* the nested saved states directly below
                               IF i \in {h[sid].attrs[n].p : n \in {m \in AllNames : h[sid].attrs[m].k = "ref"}}
                               THEN [h[i] EXCEPT !.meta.cls = <<@[1], "Nope">>] ELSE h[i]]
    [] OTHER -> h
\* ... or the environment changes under a saved state that stays as it is: between the save and the load the class of the object
\* under test ("gone"), or the class of the loader the state records ("ldrgone"), is removed from the module
Unplug(st, i) ==
  CASE i.unk = "gone"    -> [st EXCEPT !.gone = {ChainClass(i.t)}]
    [] i.unk = "ldrgone" -> [st EXCEPT !.gone = {LoaderClass(SaveCtx(i.ldr))}]
    [] OTHER -> st

(* ---- DECLARATIVE ------------------------------------------------------------------------------ *)
\* the object one must get back: the declared members, as they were when save() was called
Want(i) == Facts(Build(i), 1, "o", {}, PersistedDecl(i.chain, i.t))
\* the loader that must resolve the class: the load context's, else the one the state was saved with, else the global one
\* (cl = loader the CALLER put into the load context, sl = loader of the save context the state was saved with, "none" = none)
Precedence(cl, sl, G) == IF cl # "none" THEN cl ELSE IF sl # "none" THEN sl ELSE G
ExpectedLoader(i) == Precedence(LoadCtx(i.ldr), SaveCtx(i.ldr), Global(i.ldr))
PriorSaveCtx(p) == IF p = "custom" THEN "C" ELSE "none"
OfKind(fs, ks) == {f \in fs : f[2] \in ks}
PlainKinds == {"plain", "none", "str", "absent"}
\* the load context the caller supplies to every load of the session
Ctx0(i) == IF LoadCtx(i.ldr) # "none" THEN LoadCtx(i.ldr) ELSE IF i.lc = "shared" THEN "none" ELSE "absent"

Run(i) ==
  LET G    == Global(i.ldr)
      sctx == SaveCtx(i.ldr)
      cx0  == Ctx0(i)
      ch   == i.chain
      st0  == ClassStore(ch)
      \* a bundle loaded earlier through the same load context: an N1 saved with its OWN save context
      hq   == NewN1(<<>>, "q").h
      qs   == SaveAny(hq, st0, 1, PriorSaveCtx(i.prior), G, ch)
      ql   == LoadAny(qs.h, qs.st, qs.r, cx0, G, ch)
      pri  == IF i.prior = "none" THEN [exc |-> "-", used |-> "none", dev |-> {}, ctx |-> cx0]
              ELSE IF qs.exc # "-" THEN [exc |-> qs.exc, used |-> "none", dev |-> qs.dev, ctx |-> cx0]
              ELSE [exc |-> ql.exc, used |-> ql.used, dev |-> qs.dev \cup ql.dev, ctx |-> ql.ctx]
      cx1  == pri.ctx
      \* order of use: an instance of ANOTHER class of the chain (all its members plain values) is saved and loaded first
      hp   == BuildOf(i.first, [n \in Names |-> "value"])
      ps   == SaveAny(hp, st0, 1, sctx, G, ch)
      pl   == LoadAny(ps.h, ps.st, ps.r, cx1, G, ch)
      pre  == IF i.first = 0 THEN [st |-> st0, exc |-> "-", dev |-> {}, ctx |-> cx1]
              ELSE IF ps.exc # "-" THEN [st |-> ps.st, exc |-> ps.exc, dev |-> ps.dev, ctx |-> cx1]
              ELSE [st |-> pl.st, exc |-> pl.exc, dev |-> ps.dev \cup pl.dev, ctx |-> pl.ctx]
      cx2  == pre.ctx
      h0   == Build(i)
      orig == Reach(h0, 1)
      s1   == SaveAny(h0, pre.st, 1, sctx, G, ch)
      ht   == Tamper(s1.h, s1.r, i.unk)
      hm   == Mutate(ht, orig)
      none == [h |-> s1.h, st |-> s1.st, r |-> 0, exc |-> "NotSaved", dev |-> {}, used |-> "none", ctx |-> cx2]
      stu  == Unplug(s1.st, i)
      ld   == IF s1.exc # "-" THEN none ELSE LoadAny(hm, stu, s1.r, cx2, G, ch)        \* after the original moved on
      ld0  == IF s1.exc # "-" THEN none ELSE LoadAny(ht, stu, s1.r, cx2, G, ch)        \* had it not moved on
      \* had nothing gone through the context before (the same evaluation when the context is as the caller made it)
      ldF  == IF s1.exc # "-" THEN none ELSE IF cx2 = cx0 THEN ld ELSE LoadAny(hm, stu, s1.r, cx0, G, ch)
      s2   == SaveAny(ld.h, ld.st, ld.r, sctx, G, ch)
      stEnd == IF s1.exc # "-" THEN s1.st ELSE IF ld.exc # "-" THEN ld.st ELSE s2.st
      facts  == IF ld.exc = "-" THEN Facts(ld.h, ld.r, "o", orig, Present(ld.h[ld.r])) ELSE {}
      facts0 == IF ld0.exc = "-" THEN Facts(ld0.h, ld0.r, "o", orig, Present(ld0.h[ld0.r])) ELSE {}
      factsF == IF cx2 = cx0 THEN facts ELSE IF ldF.exc = "-" THEN Facts(ldF.h, ldF.r, "o", orig, Present(ldF.h[ldF.r])) ELSE {}
      stage == IF s1.exc # "-" THEN "save" ELSE IF ld.exc # "-" THEN "load" ELSE IF s2.exc # "-" THEN "resave" ELSE "ok"
      exc   == IF s1.exc # "-" THEN s1.exc ELSE IF ld.exc # "-" THEN ld.exc ELSE s2.exc
      resave == stage = "ok" /\ DictFacts(s2.h, s1.r, "s") = DictFacts(s2.h, s2.r, "s")
      stable == s1.exc = "-" => DictFacts(hm, s1.r, "s") = DictFacts(ht, s1.r, "s")
      want  == Want(i)
      known == i.unk = "none"
      props == [
        RoundTrip       |-> known => (stage = "ok" /\ facts = want /\ resave /\ stable),
        ValuesEqual     |-> known => (stage = "ok" /\ OfKind(facts, PlainKinds) = OfKind(want, PlainKinds)),
        CopiedAtSave    |-> (known /\ s1.exc = "-") => (stable /\ ld.exc = ld0.exc /\ facts = facts0 /\ OfKind(facts, {"shared"}) = {}),
        MethodsRebound  |-> known => (stage = "ok" /\ OfKind(facts, {"meth"}) = OfKind(want, {"meth"})),
        NestedRecreated |-> known => (stage = "ok" /\ OfKind(facts, {"obj", "dict", "shared"}) = OfKind(want, {"obj", "dict", "shared"})),
        FutureState     |-> known => (stage = "ok" /\ OfKind(facts, {"fut", "exc"}) = OfKind(want, {"fut", "exc"})),
        \* every load of the session resolves the class through the loader ITS OWN bundle and the caller's context name
        LoaderPrecedence |-> /\ (s1.exc = "-" /\ ld.used # "none") => ld.used = ExpectedLoader(i)
                             /\ pri.used # "none" => pri.used = Precedence(LoadCtx(i.ldr), PriorSaveCtx(i.prior), G),
        \* a load context is the caller's: loading through it leaves in it the loader the caller put there (none, if none), and
        \* what a load gives does not depend on what was loaded through the same context before (the second conjunct is the
        \* property on the loads of THIS session; the first is its inductive form: what the last load of the session leaves is
        \* what the next load through that context - one beyond the bounded session - starts from)
        ContextIsCallers |-> /\ (IF s1.exc = "-" THEN ld.ctx ELSE cx2) = cx0
                             /\ s1.exc = "-" => (ld.exc = ldF.exc /\ ld.used = ldF.used /\ facts = factsF),
        \* using one class never adds members to another: no class ends up persisting more than it and its ancestors declared
        SetsIntact      |-> \A t \in 1..Len(ch) : PersistedNow(stEnd, ch, ChainClass(t)) \subseteq PersistedDecl(ch, t),
        \* an unknown class - or an unknown recorded loader, where the recorded loader is the one to use - is a ValueError
        UnknownIsValueError |-> (~known /\ s1.exc = "-") => (stage = "load" /\ exc = "ValueError")]
  IN [stage |-> stage, exc |-> exc, pre |-> pre.exc, prior |-> pri.exc,
      facts |-> IF Detail THEN facts ELSE {},
      resave |-> resave, stable |-> stable,
      used |-> IF s1.exc = "-" THEN ld.used ELSE "none", priorUsed |-> pri.used,
      ctx |-> IF s1.exc = "-" THEN ld.ctx ELSE cx2,
      dev |-> pri.dev \cup pre.dev \cup s1.dev \cup (IF s1.exc = "-" THEN ld.dev \cup (IF ld.exc = "-" THEN s2.dev ELSE {}) ELSE {}),
      \* the declarative properties that do NOT hold on this instance
      bad |-> {p \in DOMAIN props : ~props[p]}]

(* ----------------------------------------------------------------------------------------------- *)
(* the bounded universe                                                                            *)
(* ----------------------------------------------------------------------------------------------- *)
Decls  == {[way |-> "none", names |-> {}]}
          \cup (IF "deco" \in Ways THEN {[way |-> "deco", names |-> s] : s \in SUBSET Names} ELSE {})
          \cup (IF "hook" \in Ways THEN {[way |-> "hook", names |-> s] : s \in (SUBSET Names) \ {{}}} ELSE {})
Chains == UNION {[1..n -> Decls] : n \in 1..MaxChain}
\* names that are not persisted are plain attributes of the original
KindsFor(ch, t) == {k \in [Names -> Kinds] : \A n \in Names \ PersistedDecl(ch, t) : k[n] = "value"}
HasNested(ch, t, k) == \E n \in PersistedDecl(ch, t) : k[n] \notin {"value", "none", "method", "tuple"}
\* unknown class names (rewritten in the state, or removed from the module) are tried on the one-class chain that persists every
\* name; an unknown RECORDED LOADER (rewritten, or removed from the module) where a loader
\* is recorded and the load context names none (elsewhere the recorded loader is not what resolves the class)
LoaderMatters(l) == SaveCtx(l) # "none" /\ LoadCtx(l) = "none"
UnknownsFor(ch, t, k, l) == {"none"} \cup (IF Len(ch) = 1 /\ ch[1].way = "deco" /\ ch[1].names = Names
                                            THEN {u \in Unknowns : /\ u = "nested" => HasNested(ch, t, k)
                                                                   /\ u \in {"noldr", "badldr", "ldrgone"} => LoaderMatters(l)} ELSE {})
\* which other class of the chain is used first (0 = none)
FirstsFor(ch, t) == {0} \cup {j \in 1..Len(ch) : (j < t /\ "parent" \in Orders) \/ (j > t /\ "child" \in Orders)}
\* how the load context is supplied: as the loader configuration says (None, or a context that names a loader), or - where
\* it names none - one loader-less context object for the whole session
CtxsFor(l) == {"asis"} \cup (IF LoadCtx(l) = "none" THEN Ctxs ELSE {})
ASSUME OnlyChains \subseteq Chains

\* the instances of a chain: which class is instantiated x member kinds x loader configuration x unknown-class flavour x order of use
\* x how the load context is supplied x what was loaded through it before
InstsOf(ch) == UNION {UNION {{[chain |-> ch, t |-> t, kinds |-> k, ldr |-> l, unk |-> u, first |-> f, lc |-> c, prior |-> p]
                               : u \in UnknownsFor(ch, t, k, l), f \in FirstsFor(ch, t), c \in CtxsFor(l), p \in {"none"} \cup Priors}
                             : k \in KindsFor(ch, t), l \in Loaders} : t \in 1..Len(ch)}

NoOut  == [dev |-> {}, bad |-> {}]
NoInst == [chain |-> <<>>, t |-> 0, kinds |-> [n \in Names |-> "value"], ldr |-> "default", unk |-> "none", first |-> 0,
           lc |-> "asis", prior |-> "none"]
\* first the chain is chosen (one initial state per chain, so that TLC's workers share the universe), then the rest
Init == /\ phase = "pick"
        /\ \E ch \in (IF OnlyChains # {} THEN OnlyChains ELSE Chains) : inst = [NoInst EXCEPT !.chain = ch]
        /\ out = NoOut
Next == /\ phase = "pick"
        /\ \E i \in InstsOf(inst.chain) : inst' = i /\ out' = Run(i)
        /\ phase' = "done"
Spec == Init /\ [][Next]_vars

(* ----------------------------------------------------------------------------------------------- *)
(* operational |= declarative (instances that went through a LISTED deviation clause are excused)  *)
(* ----------------------------------------------------------------------------------------------- *)
Excused == out.dev \cap Known # {}
Checked == phase = "done" /\ ~Excused
C19_RoundTrip           == Checked => "RoundTrip" \notin out.bad
C19_ValuesEqual         == Checked => "ValuesEqual" \notin out.bad
C19_CopiedAtSave        == Checked => "CopiedAtSave" \notin out.bad
C19_MethodsRebound      == Checked => "MethodsRebound" \notin out.bad
C19_NestedRecreated     == Checked => "NestedRecreated" \notin out.bad
C19_FutureState         == Checked => "FutureState" \notin out.bad
C19_LoaderPrecedence    == Checked => "LoaderPrecedence" \notin out.bad
C19_UnknownIsValueError == Checked => "UnknownIsValueError" \notin out.bad
C19_SetsIntact          == Checked => "SetsIntact" \notin out.bad
C19_ContextIsCallers    == Checked => "ContextIsCallers" \notin out.bad
\* a violation of the property is never silent: it is explained by a deviation clause of the specification
C19_Explained           == phase = "done" => (out.bad = {} \/ out.dev # {})
\* at definition time (decorators only; hooks have not run) the two formulations of auto_persist inheritance agree
C19_AutoPersist == \A t \in 1..Len(inst.chain) : PersistedOp(inst.chain, t) = DecoratedDecl(inst.chain, t)
=============================================================================
