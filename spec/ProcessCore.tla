------------------------------ MODULE ProcessCore ------------------------------
(***************************************************************************************************)
(* plumpy's process control protocol, clause by clause.                                          *)
(*                                                                                                 *)
(* Anchors: src/plumpy/base/state_machine.py (transition_to, _exit_current_state,                  *)
(* _enter_next_state), src/plumpy/processes.py (step, step_until_terminated, kill, pause, play,    *)
(* resume, fail, _do_pause, _create_interrupt_action, _set_interrupt_action, call_soon,            *)
(* callback_excepted, on_* hooks, close), src/plumpy/process_states.py (Created/Running/Waiting    *)
(* .execute, Waiting.interrupt/resume), src/plumpy/futures.py (CancellableAction),                 *)
(* src/plumpy/events.py (ProcessCallback.run), src/plumpy/event_helper.py (fire_event).            *)
(*                                                                                                 *)
(* Conventions (DESIGN.md section 3):                                                              *)
(*  - one TLA+ action = one event-loop callback (RunHandle) or one public call made by the         *)
(*    environment between two callbacks (Env-actions);                                                  *)
(*  - python methods are operators over the state record S returning [s, ret, exc];                *)
(*  - user code runs only at hook points; Plan says what a hook occurrence does (a re-entrant      *)
(*    request or an injected fault);                                                               *)
(*  - a clause guarded by  "Fn" \in Fixes  is the repaired behaviour, its ELSE branch is the       *)
(*    behaviour of the implementation as written; clauses that describe a listed known finding     *)
(*    record its identifier in S.dev.                                                              *)
(***************************************************************************************************)
EXTENDS Naturals, Sequences, FiniteSets, TLC

CONSTANTS
  Progs,     \* <<[name, steps, outMissing]>>: the program family; steps[1] is run(); one program per behaviour
             \* outMissing: the output spec has a required port the program never emits (FINISHED downgrade)
  Plans,     \* <<plan>>, plan = <<[hook, occ, req, arg]>>: what user code does at the occ-th occurrence of a hook
  Fixes,     \* set of repair identifiers that the implementation under test contains
  Alphabet,  \* environment request kinds on offer
  K          \* environment request budget

VARIABLES S, ready, budget
vars == <<S, ready, budget>>

WithComm == FALSE        \* (overridden in MC modules) the process is constructed with a communicator
MaxRestores == 99        \* (overridden in MC modules) how often one checkpoint may be loaded

Terminal == {"FINISHED", "EXCEPTED", "KILLED"}
Live     == {"CREATED", "RUNNING", "WAITING"}
Allowed(st) == CASE st = "CREATED" -> {"RUNNING", "KILLED", "EXCEPTED"}
                 [] st \in {"RUNNING", "WAITING"} -> {"RUNNING", "WAITING", "FINISHED", "KILLED", "EXCEPTED"}
                 [] OTHER -> {}

NoExc == "-"
None  == "-"
NoKeep == [st |-> "none", val |-> "-", cookie |-> 0]
Ok(s, r)  == [s |-> s, ret |-> r, exc |-> NoExc]
Err(s, e) == [s |-> s, ret |-> None, exc |-> e]
Then(r, Op(_)) == IF r.exc # NoExc THEN r ELSE Op(r.s)

Note(s, e) == [s EXCEPT !.log = Append(@, e)]
Bad(s, b)  == [s EXCEPT !.bad = @ \cup {b}]
Dev(s, d)  == [s EXCEPT !.dev = @ \cup {d}]

(* ----------------------------------------------------------------------------------------------- *)
(* state objects                                                                                   *)
(* ----------------------------------------------------------------------------------------------- *)
NewState(label, fn, args, kw, val, succ) ==
  [label |-> label, fn |-> fn, args |-> args, kw |-> kw, val |-> val, succ |-> succ, aw |-> <<>>]
NoState        == NewState("NONE", 0, <<>>, <<>>, None, FALSE)
Running(f,a,k) == NewState("RUNNING", f, a, k, None, FALSE)
Waiting(f, m)  == NewState("WAITING", f, <<>>, <<>>, m, FALSE)
\* workchains.Waiting: a waiting state that awaits the futures aw (indices into S.awt, in registration order)
WaitingAw(f, m, aw) == [Waiting(f, m) EXCEPT !.aw = aw]
Finished(v, b) == NewState("FINISHED", 0, <<>>, <<>>, v, b)
Excepted(e)    == NewState("EXCEPTED", 0, <<>>, <<>>, e, FALSE)
Killed(m)      == NewState("KILLED", 0, <<>>, <<>>, m, FALSE)

(* ----------------------------------------------------------------------------------------------- *)
(* the stepping task and futures it may be blocked on                                              *)
(* ----------------------------------------------------------------------------------------------- *)
\* a future's done-callbacks are scheduled when it is resolved: the task is woken at most once
Wake(s, on) == IF s.task.pc = on /\ ~s.task.woken
               THEN [s EXCEPT !.task.woken = TRUE, !.sched = Append(@, "task")] ELSE s

(* ----------------------------------------------------------------------------------------------- *)
(* persistence: Process.save_instance_state / load_instance_state / recreate_from (C07, C08, C13)  *)
(* ----------------------------------------------------------------------------------------------- *)
\* what a bundle holds: the state object with its function BY NAME and its arguments, the savable futures,
\* the status pair and the outputs.  Runtime members (stepping flag, interrupt actions, waiting future,
\* the stepping task, closedness) are not persisted.  nlog/expect are bookkeeping of the harness/monitors.
Persist(s) == [has |-> TRUE, st |-> s.st, cur |-> s.cur, pausedF |-> s.pausedF, status |-> s.status,
               preStatus |-> s.preStatus, fut |-> s.fut, outputs |-> s.outputs, inState |-> s.inState,
               nlog |-> Len(s.log), expect |-> s.mon.expect]
TakeSnapshot(s) == LET s1 == Note(s, <<"saved">>) IN [s1 EXCEPT !.snap = Persist(s1)]

(* ----------------------------------------------------------------------------------------------- *)
(* user code at hook points                                                                        *)
(* ----------------------------------------------------------------------------------------------- *)
\* the program and the plan of a behaviour are chosen in Init and recorded in the state
Prog(s) == Progs[s.pi].steps
Plan(s) == Plans[s.pl]
PlanHooks == UNION {{Plans[j][i].hook : i \in 1..Len(Plans[j])} : j \in 1..Len(Plans)}

RECURSIVE TransitionTo(_, _), Kill(_, _), Pause(_, _), Play(_), Resume(_, _), Hook(_, _)

\* A control call together with what its caller saw and the monitors of C04/C05/C06.
\* (monitors only observe: they never influence behaviour)
CallKill(s, text, where) ==
  LET r   == Kill(s, text)
      acc == s.st \in Live                 \* kill() on a process that has not terminated
      s1  == Note(r.s, <<"call", "kill", text, r.ret, r.exc, where>>)
  IN [s1 EXCEPT !.mon.killAcc = @ \/ acc,
                !.mon.killTexts = IF acc THEN @ \cup {text} ELSE @,
                !.bad = IF acc /\ r.exc # NoExc THEN @ \cup {"killRaised"} ELSE @]

CallPause(s, text, where) ==
  LET r  == Pause(s, text)
      s1 == Note(r.s, <<"call", "pause", text, r.ret, r.exc, where>>)
  IN [s1 EXCEPT !.mon.lastPlay = FALSE,
                !.bad = IF r.exc # NoExc THEN @ \cup {"pauseRaised"} ELSE @]

CallPlay(s, where) ==
  LET r  == Play(s)
      s1 == Note(r.s, <<"call", "play", None, r.ret, r.exc, where>>)
  IN [s1 EXCEPT !.mon.lastPlay = TRUE,
                !.bad = (IF r.exc # NoExc THEN @ \cup {"playRaised"} ELSE @)
                        \cup (IF r.exc = NoExc /\ r.s.pausedF # "none" THEN {"playLeftPaused"} ELSE {})]

CallResume(s, v, where) ==
  LET r  == Resume(s, v)
      s1 == Note(r.s, <<"call", "resume", v, r.ret, r.exc, where>>)
      first == s.st = "WAITING" /\ ~s.mon.resumed
  IN [s1 EXCEPT !.mon.resumed = @ \/ (s.st = "WAITING"),
                !.mon.resumeVal = IF first THEN v ELSE @]

Hook(s, name) ==
  IF name \notin PlanHooks THEN Ok(s, None)
  ELSE LET k  == s.occ[name] + 1
           s1 == [s EXCEPT !.occ[name] = k]
           hit == {i \in 1..Len(Plan(s)) : Plan(s)[i].hook = name /\ Plan(s)[i].occ = k}
       IN IF hit = {} THEN Ok(s1, None)
          ELSE LET p == Plan(s)[CHOOSE i \in hit : TRUE] IN
            CASE p.req = "fault"  -> Err(Note(s1, <<"fault", name, k, p.arg>>), p.arg)
              [] p.req = "kill"   -> Ok(CallKill(s1, p.arg, name), None)
              [] p.req = "pause"  -> Ok(CallPause(s1, p.arg, name), None)
              [] p.req = "play"   -> Ok(CallPlay(s1, name), None)
              [] p.req = "resume" -> Ok(CallResume(s1, p.arg, name), None)
              [] p.req = "save"   -> Ok(TakeSnapshot(s1), None)      \* user code checkpoints the process here
              [] OTHER            -> Ok(s1, None)

\* EventHelper.fire_event: listener exceptions are logged and swallowed
Listeners(s, evt, arg) ==
  LET s1 == Note(s, <<"notify", evt, arg>>)
      r  == Hook(s1, "L_" \o evt)
  IN r.s

(* ----------------------------------------------------------------------------------------------- *)
(* the process future                                                                              *)
(* ----------------------------------------------------------------------------------------------- *)
FutSet(s, kind, v) ==
  IF s.fut.st # "pending"                 \* known finding D9: a future cancelled by the user cannot be resolved (on_kill: F10 replaces it)
  THEN Err(IF s.fut.st = "cancelled" THEN Dev(s, "D9") ELSE s, "InvalidStateError")
  ELSE Ok([s EXCEPT !.fut = [st |-> kind, val |-> v]], None)

(* ----------------------------------------------------------------------------------------------- *)
(* Process.on_entering / on_entered / on_exiting / on_terminated                                   *)
(* ----------------------------------------------------------------------------------------------- *)
OnFinish(s, new) ==                       \* Process.on_finish(result, successful)
  IF new.succ /\ Progs[s.pi].outMissing
  THEN [s |-> s, ret |-> None, exc |-> "StateEntryFailed"]
  ELSE Then(FutSet(s, "result", s.outputs), LAMBDA t : Hook(t, "on_finish"))

OnExcept(s, new) ==                       \* Process.on_except: a done future is replaced first
  LET s1 == IF s.fut.st # "pending" THEN [s EXCEPT !.fut = [st |-> "pending", val |-> None]] ELSE s
  IN Then(FutSet(s1, "exc", new.val), LAMBDA t : Hook(t, "on_except"))

\* a Kill command without a message ("NOMSG"): killed_msg() is None, the status text and the KilledError text are empty
Txt(v) == IF v = "NOMSG" THEN "" ELSE v
OnKill(s, new) ==                         \* Process.on_kill: status := text; future fails with KilledError(text)
  LET s1 == [s EXCEPT !.status = Txt(new.val)]
      s2 == IF "F10" \in Fixes /\ s1.fut.st = "cancelled"
            THEN [s1 EXCEPT !.fut = [st |-> "pending", val |-> None]] ELSE s1
  IN Then(FutSet(s2, "killed", Txt(new.val)), LAMBDA t : Hook(t, "on_kill"))

OnEntering(s, new) ==
  CASE new.label = "CREATED"  -> Hook(s, "on_create")          \* (construction) creation time, uuid, inputs parsed and validated
    [] new.label = "RUNNING"  -> Hook(s, "on_run")
    [] new.label = "WAITING"  -> Hook(s, "on_wait")
    [] new.label = "FINISHED" -> OnFinish(s, new)
    [] new.label = "EXCEPTED" -> OnExcept(s, new)
    [] new.label = "KILLED"   -> OnKill(s, new)
    [] OTHER -> Ok(s, None)

\* future().result() / future().exception() as used by on_finished / on_excepted / on_killed
FutRead(s) == CASE s.fut.st = "pending"   -> Err(s, "InvalidStateError")
                [] s.fut.st = "cancelled" -> Err(s, "CancelledError")
                [] OTHER -> Ok(s, None)

\* the state change broadcast at the end of Process.on_entered; ConnectionClosed, ChannelInvalidStateError and
\* kiwipy.TimeoutError are tolerated (logged), anything else fails the transition
Tolerated == {"ConnectionClosed", "ChannelInvalidStateError", "TimeoutError"}
Broadcast(s, last) ==
  IF ~s.comm THEN Ok(s, None)
  ELSE LET h == Hook(s, "bcast") IN
       IF h.exc = NoExc THEN Ok(Note(h.s, <<"bcast", "state_changed", IF last = "NONE" THEN None ELSE last, s.st>>), None)
       ELSE IF h.exc \in Tolerated THEN Ok(h.s, None) ELSE h

OnEnteredHooks(s) ==                      \* s.st is already the new label
  CASE s.st = "RUNNING"  -> Hook(Listeners(s, "running", None), "on_running")
    [] s.st = "WAITING"  -> Hook(Listeners(s, "waiting", None), "on_waiting")
    [] s.st = "FINISHED" ->
         IF s.fut.st = "result" THEN Hook(Listeners(s, "finished", None), "on_finished")
         ELSE IF s.fut.st \in {"exc", "killed"} THEN Err(s, s.fut.val)    \* future().result() raises
         ELSE FutRead(s)
    [] s.st = "EXCEPTED" -> Then(FutRead(s), LAMBDA t : Hook(Listeners(t, "excepted", t.fut.val), "on_excepted"))
    [] s.st = "KILLED"   -> Then(FutRead([s EXCEPT !.killing = 0]),
                                 LAMBDA t : Hook(Listeners(t, "killed", t.cur.val), "on_killed"))
    [] OTHER -> Ok(s, None)
OnEntered(s, last) == Then(OnEnteredHooks(s), LAMBDA t : Broadcast(t, last))

OnExiting(s) ==
  CASE s.st = "WAITING" -> Hook(s, "on_exit_waiting")
    [] s.st = "RUNNING" -> Hook(s, "on_exit_running")
    [] OTHER -> Ok(s, None)

\* Process.on_terminated -> close() -> on_close: cleanups (exceptions swallowed), callbacks dropped
\* Process.close() -> on_close: cleanups (unsubscribe rpc/broadcast, then the user's; a raising cleanup is logged and
\* swallowed), the state-event callbacks are dropped, _closed = True; the user's on_close override may raise
CloseOp(s) ==
  IF s.closed THEN Ok(s, None)
  ELSE LET c  == Hook(Note([s EXCEPT !.subs = {}], <<"cleanup">>), "cleanup")
           s1 == [c.s EXCEPT !.closed = TRUE, !.cleaned = @ + 1]
       IN Hook(s1, "on_close")

\* Process.on_terminated: release a step blocked on the pause future (F8), then close()
OnTerminated(s) ==
       LET \* F8: termination releases a step that is blocked on the pause future (the future is resolved, the
           \* process stays "paused"); a task still blocked on a waiting future is not released: known finding D7
           s1r == IF "F8" \in Fixes /\ s.pausedF = "pending"
                  THEN Wake([s EXCEPT !.pausedF = "released"], "awaitPaused") ELSE s
           blocked == s1r.task.pc \in {"awaitPaused", "awaitWF"} /\ ~s1r.task.woken
       IN CloseOp(IF blocked THEN Dev(s1r, "D7") ELSE s1r)

(* ----------------------------------------------------------------------------------------------- *)
(* StateMachine.transition_to                                                                      *)
(* ----------------------------------------------------------------------------------------------- *)
\* workchains.Waiting.enter: add _awaitable_done as done-callback of every awaited future; a future that is
\* already done schedules the callback at once (asyncio: call_soon)
RECURSIVE RegisterAll(_, _)
RegisterAll(s, aw) ==
  IF aw = <<>> THEN s
  ELSE LET i == Head(aw) IN
       RegisterAll(IF s.awt[i].st = "pending" THEN [s EXCEPT !.awt[i].reg = TRUE]
                   ELSE [s EXCEPT !.sched = Append(@, "aw" \o ToString(i))], Tail(aw))
\* workchains.Waiting.exit: remove the done-callbacks of the futures still awaited
Unregister(s) == [s EXCEPT !.awt = [i \in DOMAIN @ |-> IF i \in s.awaiting THEN [@[i] EXCEPT !.reg = FALSE] ELSE @[i]]]

\* F7: Waiting.exit resolves a waiting future that is still pending: an execute() blocked on it (the process was
\*     failed from outside the step) is released and finds the process terminated
ReleaseWait(s) == IF "F7" \in Fixes /\ s.wf.st = "pending"
                  THEN Wake([s EXCEPT !.wf = [st |-> "result", val |-> "NULL", cookie |-> 0]], "awaitWF") ELSE s

\* self._state.do_exit(): (Waiting) drop the done-callbacks, release a blocked execute; in_state = False
DoExit(s) == [(IF s.st = "WAITING" THEN ReleaseWait(Unregister(s)) ELSE s) EXCEPT !.inState = FALSE]

ExitCurrent(s, new) ==                    \* _exit_current_state
  IF s.st = "NONE"                          \* being constructed: nothing to exit, only the initial state may be entered
  THEN (IF new.label = "CREATED" THEN Ok(s, None) ELSE Err(s, "RuntimeError"))
  ELSE IF new.label \notin Allowed(s.st) THEN Err(s, "RuntimeError")
  \* close() dropped the event callbacks; F17: of the others - the process keeps its own lifecycle hooks
  ELSE LET a == IF s.closed THEN (IF "F17" \in Fixes THEN OnExiting(s) ELSE Ok(s, None))
                ELSE Then(OnExiting(s), LAMBDA t : Hook(t, "cb_exiting"))
       IN IF a.exc # NoExc THEN a ELSE Ok(DoExit(a.s), None)

EnterNext(s, new) ==                      \* _enter_next_state
  LET last == s.st
      \* known finding D11: close() dropped the event callbacks, a later transition (only reachable when a
      \* termination hook raises) changes the label but neither the future nor the listeners
      \* (during construction only the process's own callbacks exist: nobody else holds a reference yet)
      a == IF s.closed THEN (IF "F17" \in Fixes THEN OnEntering(s, new) ELSE Ok(Dev(s, "D11"), None))
           ELSE IF last = "NONE" THEN OnEntering(s, new)
           ELSE Then(OnEntering(s, new), LAMBDA t : Hook(t, "cb_entering"))
  IN IF a.exc # NoExc THEN a ELSE
     LET s0 == IF new.label = "WAITING"                                          \* next_state.do_enter()
               THEN RegisterAll([a.s EXCEPT !.awaiting = {new.aw[i] : i \in 1..Len(new.aw)},
                                            !.watched = {new.aw[i] : i \in 1..Len(new.aw)}], new.aw) ELSE a.s
         s1 == [s0 EXCEPT !.st = new.label, !.cur = new, !.inState = TRUE,
                           !.wf = IF new.label = "WAITING" THEN [st |-> "pending", val |-> None, cookie |-> 0] ELSE @,
                           !.keep = IF new.label = "WAITING" THEN NoKeep ELSE @,
                           !.mon.resumed = IF new.label = "WAITING" THEN FALSE ELSE @,
                           !.bad = IF last \in Terminal THEN @ \cup {"leftTerminal"} ELSE @]
     IN IF s1.closed THEN (IF "F17" \in Fixes THEN OnEntered(s1, last) ELSE Ok(s1, None))
        ELSE IF last = "NONE" THEN OnEntered(s1, last)
        ELSE Then(OnEntered(s1, last), LAMBDA t : Hook(Note(t, <<"enter", last, new.label>>), "cb_entered"))

Finally(s) == [s EXCEPT !.failing = FALSE, !.transitioning = FALSE]

TransitionBody(s, new) ==                 \* the try block; .label = label being entered on failure
  \* the failed-transition route does not exit (no hooks); F15: a live state the failed transition did not get to leave
  \* (an exit hook raised, or a hook of its own entry) is left now, such that it releases what it holds (as written: D7)
  LET a == IF ~s.failing THEN ExitCurrent(s, new)
           ELSE IF "F15" \in Fixes /\ s.inState /\ s.st \in Live THEN Ok(DoExit(s), None)
           ELSE Ok(s, None) IN
  IF a.exc # NoExc THEN [a EXCEPT !.ret = new.label] ELSE
  LET b == EnterNext(a.s, new) IN
  IF b.exc = "StateEntryFailed"
  THEN LET alt == Finished(new.val, FALSE)
           x   == ExitCurrent(b.s, alt)
       IN IF x.exc # NoExc THEN [x EXCEPT !.ret = "FINISHED"]
          ELSE LET y == EnterNext(x.s, alt) IN
               IF y.exc # NoExc THEN [y EXCEPT !.ret = "FINISHED"]
               ELSE IF y.s.st \in Terminal THEN [OnTerminated(y.s) EXCEPT !.ret = "FINISHED"] ELSE y
  ELSE IF b.exc # NoExc THEN [b EXCEPT !.ret = new.label]
  ELSE IF b.s.st \in Terminal THEN [OnTerminated(b.s) EXCEPT !.ret = new.label]
  ELSE b

TransitionTo(s, new) ==
  IF s.transitioning THEN Err(s, "AssertionError")
  ELSE IF new.label = "NONE" THEN Ok(s, None)
  ELSE LET init == s.st
           r    == TransitionBody([s EXCEPT !.transitioning = TRUE], new)
       IN IF r.exc = NoExc THEN Ok(Finally(r.s), None)
          ELSE LET s1 == [r.s EXCEPT !.transitioning = FALSE] IN
               IF s1.failing THEN Err(Finally(s1), r.exc)
               ELSE IF r.ret = "CREATED" THEN Err(Finally(s1), r.exc)   \* transition_failed: "if we are creating, then reraise"
               ELSE IF "F9" \in Fixes /\ init \in Terminal
               THEN Err(Finally(s1), r.exc)          \* transition_failed: a terminated process stays as it is
               ELSE \* Process.transition_failed: while creating re-raise, otherwise go to EXCEPTED
                    LET s2 == IF init \in Terminal THEN Dev(s1, "D1") ELSE s1
                        f  == TransitionTo([s2 EXCEPT !.failing = TRUE], Excepted(r.exc))
                    IN [f EXCEPT !.s = Finally(f.s)]

(* ----------------------------------------------------------------------------------------------- *)
(* interrupt actions (CancellableAction)                                                           *)
(* ----------------------------------------------------------------------------------------------- *)
NewAct(s, kind, text, cookie) ==
  LET a == Len(s.acts) + 1 IN
  [s EXCEPT !.acts = Append(@, [kind |-> kind, text |-> text, status |-> "pending", void |-> FALSE,
                                cookie |-> IF cookie = 0 THEN a ELSE cookie])]
\* a resolved action future schedules the wake-up of the RPC reply tasks awaiting it (_schedule_rpc: `await result`)
WakeRpcs(s, a) ==
  LET w == {i \in 1..Len(s.rpcs) : s.rpcs[i].st = "await" /\ s.rpcs[i].act = a}
      RECURSIVE Go(_, _)
      Go(t, rest) == IF rest = {} THEN t
                     ELSE LET i == CHOOSE x \in rest : \A y \in rest : x <= y
                          IN Go([t EXCEPT !.rpcs[i].st = "woken", !.sched = Append(@, "rpcW" \o ToString(i))], rest \ {i})
  IN Go(s, w)
CancelAct(s, a) == IF a # 0 /\ s.acts[a].status = "pending" THEN WakeRpcs([s EXCEPT !.acts[a].status = "cancelled"], a) ELSE s
SetIntr(s, a)   ==                                                \* _set_interrupt_action
  LET lost == s.intr # 0 /\ s.acts[s.intr].status = "pending" /\ s.acts[s.intr].kind = "kill"
      s1   == IF lost THEN Dev(s, "D3") ELSE s                    \* known finding: a pending kill is dropped
      \* F5: an interruption whose request is superseded by a newer one is void (flag on the interruption = cookie)
      s2   == IF "F5" \in Fixes /\ s.intr # 0 /\ a # 0 THEN [s1 EXCEPT !.acts[s1.acts[s.intr].cookie].void = TRUE] ELSE s1
  IN [CancelAct(s2, s.intr) EXCEPT !.intr = a]

Interrupt(s, a) ==                        \* self._state.interrupt(exception): only Waiting reacts
  IF s.st # "WAITING" THEN Ok(s, None)
  ELSE IF s.wf.st # "pending"
       THEN (IF "F1" \in Fixes THEN Ok(s, None) ELSE Err(Dev(s, "D2"), "InvalidStateError"))
  ELSE Ok(Wake([s EXCEPT !.wf = [st |-> "exc", val |-> None, cookie |-> a]], "awaitWF"), None)

KillText(t) == t
Kill(s, text) ==
  IF s.st = "KILLED" THEN Ok(s, "True")
  ELSE IF s.st \in Terminal THEN Ok(s, "False")
  ELSE IF s.killing # 0 THEN Ok(s, "act:" \o ToString(s.killing))
  ELSE IF s.stepping THEN
         LET s0 == NewAct(s, "kill", text, 0)
             a  == Len(s0.acts)
             \* F4: the kill replaces (cancels) a pending pause action: the process is not "pausing" any more
             s1 == [SetIntr(s0, a) EXCEPT !.killing = a, !.pausing = IF "F4" \in Fixes THEN 0 ELSE @]
             i  == Interrupt(s1, a)
         IN IF i.exc # NoExc THEN i ELSE Ok(i.s, "act:" \o ToString(a))
  ELSE LET t == TransitionTo(s, Killed(text)) IN IF t.exc # NoExc THEN t ELSE Ok(t.s, "True")

OnPaused(s, text) ==                      \* on_pausing; on_paused
  Then(Hook(s, "on_pausing"), LAMBDA t :
       LET t1 == [t EXCEPT !.pausing = 0, !.pausedF = "pending", !.preStatus = t.status,
                           !.status = IF text # None THEN text ELSE @]
       IN Hook(Listeners(t1, "paused", None), "on_paused"))

\* F13: play() called by a hook or listener during the transition of a pause action withdraws the pause (the action
\*      returns False without pausing; as written the process pauses all the same and the running action, cancelled by
\*      play(), cannot be resolved: deviation D10)
DoPause(s, text, next) ==                 \* _do_pause: try ... finally self._pausing = None
  LET t == IF next.label = "NONE" THEN Ok(s, None) ELSE TransitionTo(s, next)
      withdrawn == "F13" \in Fixes /\ next.label # "NONE" /\ t.exc = NoExc /\ s.pausing # 0 /\ t.s.pausing # s.pausing
      r == IF withdrawn THEN Ok(t.s, "False") ELSE Then(t, LAMBDA u : OnPaused(u, text))
  IN [r EXCEPT !.s.pausing = 0, !.ret = IF r.exc # NoExc THEN None ELSE IF withdrawn THEN "False" ELSE "True"]

Pause(s, text) ==
  IF s.st \in Terminal THEN Ok(s, "False")
  ELSE IF s.pausedF # "none" THEN Ok(s, "True")
  ELSE IF s.pausing # 0 THEN Ok(s, "act:" \o ToString(s.pausing))
  ELSE IF "F4" \in Fixes /\ s.killing # 0 THEN Ok(s, "False")      \* F4: being killed: a pause must not replace the kill
  ELSE IF s.stepping THEN
         LET s0 == NewAct(s, "pause", text, 0)
             a  == Len(s0.acts)
             s1 == [SetIntr(s0, a) EXCEPT !.pausing = a]
             i  == Interrupt(s1, a)
         IN IF i.exc # NoExc THEN i ELSE Ok(i.s, "act:" \o ToString(a))
  ELSE DoPause(s, text, NoState)

OnPlaying(s) ==                           \* on_playing
  LET s0 == IF s.pausedF = "pending" THEN Wake(s, "awaitPaused") ELSE s       \* set_result unless already released (F8)
      s1 == [s0 EXCEPT !.pausedF = "none", !.status = s.preStatus, !.preStatus = None]
  IN Hook(Listeners(s1, "played", None), "on_playing")

Play(s) ==
  IF s.pausedF = "none"
  THEN IF s.pausing # 0
       THEN LET s0 == IF "F5" \in Fixes THEN [s EXCEPT !.acts[s.acts[s.pausing].cookie].void = TRUE] ELSE s   \* withdrawn: void
            IN Ok(SetIntr([CancelAct(s0, s.pausing) EXCEPT !.pausing = 0], 0), "True")
       ELSE Ok(s, "True")
  ELSE LET r == OnPlaying(s) IN IF r.exc # NoExc THEN r ELSE Ok(r.s, "True")

\* Waiting.resume / the completion of the awaited items: resolve the waiting future.
\* F2: if it already holds an undelivered interruption the wake-up is remembered and handed to the re-armed future
\*     (as written it is dropped: known findings D5 / D12)
Interrupted(s) == s.wf.st = "exc" /\ s.wf.cookie # 0
WakeUp(s, new) ==
  IF s.wf.st = "pending" THEN Wake([s EXCEPT !.wf = new], "awaitWF")
  ELSE IF "F2" \in Fixes THEN (IF Interrupted(s) /\ s.keep.st = "none" THEN [s EXCEPT !.keep = new] ELSE s)
  ELSE IF Interrupted(s) THEN Dev(s, "D5") ELSE s
ReArm(s) == IF "F2" \in Fixes /\ s.keep.st # "none" THEN [s EXCEPT !.wf = s.keep, !.keep = NoKeep]
            ELSE [s EXCEPT !.wf = [st |-> "pending", val |-> None, cookie |-> 0]]

Resume(s, v) ==                           \* @event(from_states=Waiting); Waiting.resume
  IF s.st # "WAITING" THEN Err(s, "EventError")
  ELSE Ok(WakeUp(s, [st |-> "result", val |-> v, cookie |-> 0]), None)

Fail(s, e) ==                             \* @event(to_states=Excepted)
  LET t == TransitionTo(s, Excepted(e)) IN
  IF t.exc # NoExc THEN t ELSE IF t.s.st # "EXCEPTED" THEN Err(t.s, "EventError") ELSE t

CallbackExcepted(s, e) ==                 \* Process.callback_excepted
  IF "F9" \in Fixes THEN (IF s.st \in Terminal THEN Ok(s, None) ELSE Fail(s, e))
  ELSE IF s.st = "EXCEPTED" THEN Ok(s, None) ELSE Fail(s, e)

\* CancellableAction.run(next_state): exceptions of the action are captured into the action future
RunAction(s, a, next) ==
  IF s.acts[a].status # "pending" THEN Err(s, "InvalidStateError")
  ELSE LET r == IF s.acts[a].kind = "pause" THEN DoPause(s, s.acts[a].text, next)
                ELSE IF "F11" \in Fixes /\ next.label = "EXCEPTED"        \* F11: the step failed: EXCEPTED, the kill answers False
                     THEN LET t == TransitionTo(s, next) IN [t EXCEPT !.s.killing = 0, !.ret = "False"]
                ELSE LET s0 == IF next.label = "EXCEPTED" THEN Dev(s, "D8") ELSE s
                         t  == TransitionTo(s0, Killed(s.acts[a].text)) IN [t EXCEPT !.s.killing = 0]
       IN \* set_result / set_exception on the action future; if user code reached from the action replaced
          \* (and so cancelled) the very action that is running, both raise InvalidStateError out of step()
          \* (known finding D10)
          \* called off meanwhile: stays cancelled (F13: when the function returns; F13b: also when it then raises)
          IF "F13" \in Fixes /\ r.s.acts[a].status = "cancelled" /\ (r.exc = NoExc \/ "F13b" \in Fixes) THEN Ok(r.s, None)
          ELSE IF r.s.acts[a].status # "pending" THEN Err(Dev(r.s, "D10"), "InvalidStateError")
          ELSE IF r.exc = NoExc THEN Ok(WakeRpcs([r.s EXCEPT !.acts[a].status = IF r.ret = "False" THEN "doneFalse" ELSE "done"], a), None)
          ELSE Ok(WakeRpcs([r.s EXCEPT !.acts[a].status = "failed:" \o r.exc], a), None)

\* F6 helpers: run an action detached from _interrupt_action; honour requests registered meanwhile
RunDetached(s, a, next) ==
  LET r == RunAction([s EXCEPT !.intr = 0], a, next)
  IN [r EXCEPT !.s.acts[r.s.acts[a].cookie].void = TRUE]
RECURSIVE Honour(_, _)
Honour(s, fuel) ==
  IF fuel = 0 \/ s.intr = 0 \/ s.st \in Terminal \/ s.acts[s.intr].status # "pending" THEN Ok(s, None)
  ELSE LET r == RunDetached(s, s.intr, NoState) IN IF r.exc # NoExc THEN r ELSE Honour(r.s, fuel - 1)

(* ----------------------------------------------------------------------------------------------- *)
(* the coroutine  step_until_terminated / step                                                     *)
(* ----------------------------------------------------------------------------------------------- *)
TaskFailed(s, e) == Note([s EXCEPT !.task.pc = "failed", !.task.err = e], <<"taskfailed", e>>)

\* Running._action_command / the mapping of a step's return value to the next state
Commanded(d, resumeArgs) ==
  CASE d.cmd = "stop"     -> Finished(d.val, TRUE)
    [] d.cmd = "unsucc"   -> Finished(d.val, FALSE)
    [] d.cmd = "continue" -> Running(d.next, d.args, IF "F12" \in Fixes THEN d.kw ELSE <<>>)
    [] d.cmd = "wait"     -> Waiting(d.next, d.val)
    [] d.cmd = "await"    -> IF d.aws = <<>> THEN Running(d.next, <<>>, <<>>)      \* WorkChain._do_step
                             ELSE WaitingAw(d.next, "Waiting before next step", d.aws)
    [] d.cmd = "kill"     -> Killed(d.val)
    [] d.cmd = "raise"    -> Excepted(d.val)

RECURSIVE Advance(_)

AfterExec(s, o) ==                        \* the rest of step() once execute returned / raised
  LET s1 == IF o.kind = "interruption"
            \* F5: the request behind this interruption was withdrawn (play) or superseded (kill): it is void
            THEN IF "F5" \in Fixes /\ s.acts[o.cookie].void THEN s
                 ELSE IF s.intr # 0 /\ s.acts[s.intr].cookie = o.cookie THEN s
                 ELSE LET k  == s.acts[o.cookie]      \* (an action cancelled by step()'s finally is resurrected here)
                          s0 == NewAct(IF k.status = "cancelled" /\ "F5" \notin Fixes THEN Dev(s, "D4") ELSE s, k.kind, k.text, o.cookie)
                      IN SetIntr(s0, Len(s0.acts))
            ELSE IF o.kind = "exception" THEN [CancelAct(s, s.intr) EXCEPT !.intr = 0]   \* except Exception: the step failed: EXCEPTED, interrupt action dropped
            ELSE s
      \* F16: the future was cancelled and its done-callback (try_killing) did not get to run yet: the kill is requested now
      \*      (as written the step's own transition may find the cancelled future first: on_finish fails, deviation D9)
      s1k == IF "F16" \in Fixes /\ s1.fut.st = "cancelled" /\ s1.killing = 0 /\ s1.st \notin Terminal
             THEN Kill(s1, "Killed by future being cancelled").s ELSE s1
      gone == "F9" \in Fixes /\ s1k.st \in Terminal      \* terminated (fail, callback) while the step was in flight
      s1b == IF gone THEN SetIntr(s1k, 0) ELSE s1k
      nx == IF gone THEN NoState
            ELSE IF o.kind = "state" THEN o.next
            ELSE IF o.kind = "exception" THEN Excepted(o.exc) ELSE NoState
      \* F6: the action that is carried out is detached first (a request made by a hook or listener during its
      \*     transition must not cancel it), its interruption is void from then on, and a request registered
      \*     during that transition (or during the plain transition) is carried out before the step ends
      r0 == IF s1b.intr # 0
            THEN (IF "F6" \in Fixes THEN RunDetached(s1b, s1b.intr, nx) ELSE RunAction(s1b, s1b.intr, nx))
            ELSE TransitionTo(s1b, nx)
      r  == IF "F6" \in Fixes /\ r0.exc = NoExc THEN Honour(r0.s, 3) ELSE r0
      s2 == SetIntr([r.s EXCEPT !.stepping = FALSE], 0)         \* finally
  IN IF r.exc # NoExc THEN TaskFailed(s2, r.exc) ELSE Advance([s2 EXCEPT !.task.pc = "top"])

\* Process.out(port, value) for values the output spec accepts (validation: module Ports):
\* on_output_emitting; store; on_output_emitted (listeners, then the user's override)
RECURSIVE EmitAll(_, _)
\* outputs[port] = value: a port emitted again (a step run again after a restore) keeps its place and takes the new value
PutOutput(outs, e) ==
  LET at == {j \in 1..Len(outs) : outs[j][1] = e[1]}
  IN IF at = {} THEN Append(outs, e) ELSE [outs EXCEPT ![CHOOSE j \in at : TRUE] = e]
EmitAll(s, emits) ==
  IF emits = <<>> THEN Ok(s, None)
  ELSE LET e == Head(emits) IN
       Then(Hook(s, "on_output_emitting"), LAMBDA t :
       Then(Hook(Listeners([t EXCEPT !.outputs = PutOutput(@, e)], "output", e[1]), "on_output_emitted"), LAMBDA u :
       EmitAll(u, Tail(emits))))

\* the body of a user step function: log, status, outputs, planned re-entrant requests
StepBody(s, fn) ==
  LET d  == Prog(s)[fn]
      got == <<fn, s.cur.args, s.cur.kw>>
      rv  == s.mon.resumeVal
      s0 == [s EXCEPT !.task.fn = fn, !.mon.expect = <<>>, !.mon.resumeVal = None,
                      !.bad = (IF s.mon.expect # <<>> /\ s.mon.expect # (IF Len(s.mon.expect) = 1 THEN <<fn>> ELSE got)
                               THEN @ \cup {"wrongContinuation"} ELSE @)
                              \cup (IF rv # None /\ s.cur.args # (IF rv = "NULL" THEN <<>> ELSE <<rv>>)
                                    THEN {"wrongResumeValue"} ELSE {})
                              \cup (IF s.pausedF # "none" THEN {"stepWhilePaused"} ELSE {})]
      s1 == Note(s0, <<"step", fn, s.cur.args, s.cur.kw, s.pausedF # "none", s.status>>)
      s1b == IF s.awt = <<>> THEN s1                     \* C10: what the step sees: the context, and which awaited items are done
             ELSE Note(s1, <<"ctx", s.ctx, [i \in 1..Len(s.awt) |-> s.awt[i].st # "pending"]>>)
      s1c == [s1b EXCEPT !.awt = [i \in DOMAIN @ |-> IF \E j \in 1..Len(d.makes) : d.makes[j] = i  \* the step creates (launches) awaitables
                                                   THEN [@[i] EXCEPT !.made = TRUE] ELSE @[i]]]
      s2 == IF d.status # None THEN [s1c EXCEPT !.status = d.status] ELSE s1c
  IN Then(EmitAll(s2, d.emits), LAMBDA t : Hook(t, "step"))

StepReturn(s, fn) == [kind |-> "state", next |-> Commanded(Prog(s)[fn], <<>>)]
\* C13 monitor: what the next step must receive according to the command that was returned
Expecting(s, fn) == IF Prog(s)[fn].cmd = "continue"
                    THEN [s EXCEPT !.mon.expect = <<Prog(s)[fn].next, Prog(s)[fn].args, Prog(s)[fn].kw>>]
                    ELSE IF Prog(s)[fn].cmd = "wait" THEN [s EXCEPT !.mon.expect = <<Prog(s)[fn].next>>]
                    ELSE s

Advance(s) ==
  CASE s.task.pc = "top" ->               \* while not self.has_terminated(): await self.step()
         IF s.st \in Terminal THEN Note([s EXCEPT !.task.pc = "done"], <<"taskdone">>)
         ELSE IF s.closed THEN TaskFailed(s, "ClosedError")
         ELSE IF s.pausedF = "pending" THEN [s EXCEPT !.task.pc = "awaitPaused", !.task.woken = FALSE]
         ELSE Advance([s EXCEPT !.stepping = TRUE, !.task.pc = "exec"])      \* ("released" only occurs when terminated)
    [] s.task.pc = "exec" ->              \* await self._run_task(self._state.execute)
         CASE s.st = "CREATED" -> AfterExec(s, [kind |-> "state", next |-> Running(1, <<>>, <<>>)])
           [] s.st = "RUNNING" ->
                LET fn == s.cur.fn
                    b  == StepBody(s, fn)
                IN IF b.exc # NoExc                                    \* user code raised: EXCEPTED *state*
                   THEN AfterExec(b.s, [kind |-> "state", next |-> Excepted(b.exc)])
                   ELSE IF Prog(s)[fn].kind = "sync" THEN AfterExec(Expecting(b.s, fn), StepReturn(b.s, fn))
                   ELSE [b.s EXCEPT !.task.pc = "inUser", !.task.k = Prog(s)[fn].n, !.sched = Append(@, "task")]
           [] s.st = "WAITING" ->
                IF s.wf.st = "pending" THEN [s EXCEPT !.task.pc = "awaitWF", !.task.woken = FALSE, !.task.wfn = s.cur.fn]
                ELSE IF s.wf.st = "result"
                     THEN AfterExec(s, [kind |-> "state",
                                        next |-> Running(s.cur.fn, IF s.wf.val = "NULL" THEN <<>> ELSE <<s.wf.val>>, <<>>)])
                ELSE IF s.wf.cookie = 0 THEN AfterExec(s, [kind |-> "exception", exc |-> s.wf.val])
                ELSE AfterExec(ReArm(s), [kind |-> "interruption", cookie |-> s.wf.cookie])
           [] OTHER -> AfterExec(s, [kind |-> "state", next |-> NoState])   \* terminal state objects: execute() is None
    [] s.task.pc = "inUser" ->
         IF s.task.k > 1 THEN [s EXCEPT !.task.k = @ - 1, !.sched = Append(@, "task")]
         ELSE AfterExec(Expecting(s, s.task.fn), StepReturn(s, s.task.fn))
    [] s.task.pc = "awaitPaused" ->       \* F8: the gate is a loop and a terminated process leaves step(); the closedness
                                          \* test (ensure_not_closed) was made when step() was called, not here
         IF "F8" \in Fixes
         THEN (IF s.st \in Terminal THEN Advance([s EXCEPT !.task.pc = "top"])
               ELSE IF s.pausedF = "pending" THEN [s EXCEPT !.task.woken = FALSE]
               ELSE Advance([s EXCEPT !.stepping = TRUE, !.task.pc = "exec"]))
         ELSE Advance([(IF s.pausedF # "none" THEN Dev(s, "D6") ELSE s) EXCEPT !.stepping = TRUE, !.task.pc = "exec"])
    [] s.task.pc = "cancelling" ->        \* the owner cancelled the task parked at the gate: CancelledError is thrown into
                                          \* `await self._paused` (outside step()'s try) and ends step_until_terminated()
         TaskFailed(s, "CancelledError")
    [] s.task.pc = "awaitWF" ->           \* continues inside the *old* Waiting.execute
         IF s.wf.st = "result"
         THEN AfterExec(s, [kind |-> "state",
                            next |-> Running(s.task.wfn, IF s.wf.val = "NULL" THEN <<>> ELSE <<s.wf.val>>, <<>>)])
         ELSE IF s.wf.cookie = 0 THEN AfterExec(s, [kind |-> "exception", exc |-> s.wf.val])
         ELSE AfterExec(ReArm(s), [kind |-> "interruption", cookie |-> s.wf.cookie])
    [] OTHER -> s

(* ----------------------------------------------------------------------------------------------- *)
(* specification                                                                                   *)
(* ----------------------------------------------------------------------------------------------- *)
\* Process.__init__: the members before the metaclass enters the initial state
FreshS(pi, pl) ==
  [pi |-> pi, pl |-> pl, st |-> "NONE", cur |-> NoState, born |-> FALSE, inState |-> FALSE,
   stepping |-> FALSE, transitioning |-> FALSE, failing |-> FALSE,
   pausedF |-> "none", status |-> None, preStatus |-> None,
   acts |-> <<>>, pausing |-> 0, killing |-> 0, intr |-> 0,
   wf |-> [st |-> "pending", val |-> None, cookie |-> 0], keep |-> NoKeep,
   fut |-> [st |-> "pending", val |-> None],
   closed |-> FALSE, cleaned |-> 0, outputs |-> <<>>,
   awt |-> [i \in 1..Len(Progs[pi].awt) |-> [key |-> Progs[pi].awt[i], st |-> "pending", val |-> None, reg |-> FALSE, made |-> FALSE]],
   awaiting |-> {}, watched |-> {}, ctx |-> <<>>,
   comm |-> WithComm, subs |-> {}, rpcs |-> <<>>,
   task |-> [pc |-> "top", k |-> 0, fn |-> 0, wfn |-> 0, woken |-> FALSE, err |-> None],
   sched |-> <<>>, occ |-> [h \in PlanHooks |-> 0],
   log |-> <<>>,
   bad |-> {}, dev |-> {}, snap |-> [has |-> FALSE], restores |-> 0,
   mon |-> [killAcc |-> FALSE, killTexts |-> {}, cancelled |-> FALSE, lastPlay |-> FALSE,
            resumed |-> FALSE, resumeVal |-> None, expect |-> <<>>]]

\* StateMachineMeta.__call__: __init__, transition_to(create_initial_state()), init().  A failure while the initial state is
\* entered (on_create: input validation, user override; the first state_changed announcement) propagates to the caller
\* of the constructor: no process exists ("ctor-raise", born stays FALSE and nothing is ever enabled).
\* init(): subscribe to the communicator (RPC, broadcast), try_killing done-callback on the future.
Created == NewState("CREATED", 1, <<>>, <<>>, None, FALSE)
\* init(): the two subscriptions are independent: a kiwipy.TimeoutError of one is tolerated (logged) and leaves the other alone
\*         (hooks "sub_rpc" / "sub_bc": what the communicator does when asked to subscribe); anything else propagates
Subscribe(s) ==
  IF ~s.comm THEN Ok(s, None)
  ELSE LET a  == Hook(s, "sub_rpc")
           s1 == IF a.exc = NoExc THEN [a.s EXCEPT !.subs = @ \cup {"rpc"}] ELSE a.s
       IN IF a.exc \notin {NoExc, "TimeoutError"} THEN a
          ELSE LET b  == Hook(s1, "sub_bc")
                   s2 == IF b.exc = NoExc THEN [b.s EXCEPT !.subs = @ \cup {"bcast"}] ELSE b.s
               IN IF b.exc \notin {NoExc, "TimeoutError"} THEN b ELSE Ok(s2, None)
Construct(s) ==
  LET r == Then(TransitionTo(s, Created), Subscribe) IN
  IF r.exc # NoExc THEN Note(r.s, <<"ctor-raise", r.exc>>)
  ELSE [r.s EXCEPT !.born = TRUE]
InitS(pi, pl) == Construct(FreshS(pi, pl))

\* The running instance is abandoned and the bundle loaded in a fresh event loop (recreate_from + init()):
\* persisted members from the bundle, runtime members as after construction, a new stepping task.
\* Events of the abandoned instance after the checkpoint do not count (log cut at the checkpoint).
Restore(s) ==
  LET b == s.snap IN
  [FreshS(s.pi, s.pl) EXCEPT !.born = TRUE, !.subs = IF s.comm THEN {"rpc", "bcast"} ELSE {}, !.st = b.st, !.cur = b.cur, !.inState = b.inState, !.pausedF = b.pausedF, !.status = b.status,
                            !.preStatus = b.preStatus, !.fut = b.fut, !.outputs = b.outputs,
                            !.log = Append(SubSeq(s.log, 1, b.nlog), <<"restored">>),
                            !.occ = s.occ, !.snap = b, !.restores = s.restores + 1, !.mon.expect = b.expect]

Init == /\ \E pi \in 1..Len(Progs), pl \in 1..Len(Plans) : S = InitS(pi, pl)
        /\ ready = (IF S.born THEN <<"task">> ELSE <<>>) /\ budget = K

Flush(s) == [s EXCEPT !.sched = <<>>]

\* workchains.Waiting._awaitable_done(awaitable), the done-callback of an awaited future
AwaitableDone(s, i) ==
  LET a   == s.awt[i]
      s1  == [s EXCEPT !.awaiting = @ \ {i}]
      SetWF(t, new) ==                    \* set_result / set_exception on the (current) waiting future
        IF t.wf.st = "pending" THEN Wake([t EXCEPT !.wf = new], "awaitWF")
        ELSE IF "F2" \in Fixes THEN WakeUp(t, new)                        \* goes through resume(): kept if interrupted, else ignored
        ELSE Note(Dev(t, "D12"), <<"looperr", "InvalidStateError">>)      \* raised inside the callback: reported to the loop
  IN IF a.st = "ok"
     THEN LET at == {j \in 1..Len(s1.ctx) : s1.ctx[j][1] = a.key}            \* self.process.ctx[key] = awaitable.result()
              s2 == IF at = {} THEN [s1 EXCEPT !.ctx = Append(@, <<a.key, a.val>>)]
                    ELSE [s1 EXCEPT !.ctx[CHOOSE j \in at : TRUE] = <<a.key, a.val>>]
          IN IF s2.awaiting = {} THEN SetWF(s2, [st |-> "result", val |-> "NULL", cookie |-> 0]) ELSE s2
     ELSE SetWF(s1, [st |-> "exc", val |-> a.val, cookie |-> 0])

(* ---- remote control: Process.message_receive / broadcast_receive / _schedule_rpc (C16) ------------- *)
LastCall(s) == s.log[Len(s.log)]
ReplyOf(st) == CASE st = "done" -> "done:True" [] st = "doneFalse" -> "done:False" [] OTHER -> st
\* run_callback(): the scheduled control call is THE SAME operator as the direct call
RpcRun(s, i) ==
  LET m  == s.rpcs[i]
      s1 == CASE m.intent = "pause" -> CallPause(s, m.text, "rpc")
              [] m.intent = "play"  -> CallPlay(s, "rpc")
              [] m.intent = "kill"  -> CallKill(s, m.text, "rpc")
      e  == LastCall(s1)          \* <<"call", name, arg, ret, exc, where>>
      isAct == e[5] = NoExc /\ e[4] \notin {"True", "False", None}
      a  == IF isAct THEN CHOOSE x \in 1..Len(s1.acts) : e[4] = "act:" \o ToString(x) ELSE 0
  IN IF e[5] # NoExc THEN [s1 EXCEPT !.rpcs[i].st = "failed:RuntimeError"]           \* wrapped: "Error invoking callback"
     ELSE IF ~isAct THEN [s1 EXCEPT !.rpcs[i].st = "done:" \o e[4]]
     ELSE IF s1.acts[a].status = "pending" THEN [s1 EXCEPT !.rpcs[i].st = "await", !.rpcs[i].act = a]
     ELSE LET st == s1.acts[a].status IN      \* awaiting a future that is already resolved does not yield
          [s1 EXCEPT !.rpcs[i].act = a, !.rpcs[i].st = ReplyOf(st)]
\* the reply task resumes: the awaited action future is done / failed / cancelled
RpcWake(s, i) ==
  [s EXCEPT !.rpcs[i].st = ReplyOf(s.acts[s.rpcs[i].act].status)]

IsH(h, prefix, n) == h = prefix \o ToString(n)
\* one event-loop callback
Handle(s, h) ==
  CASE h = "task" -> Advance(s)
    [] h = "cbok" -> Note(s, <<"cb", "ok">>)
    [] h = "cbraise" -> LET c == CallbackExcepted(Note(s, <<"cb", "raise">>), "CB")
                        IN IF c.exc # NoExc THEN Note(c.s, <<"cbtaskfailed", c.exc>>) ELSE c.s
    [] h = "trykill" -> Kill(s, "Killed by future being cancelled").s      \* try_killing on the cancelled future
    [] \E i \in 1..Len(s.awt) : IsH(h, "aw", i) -> AwaitableDone(s, CHOOSE i \in 1..Len(s.awt) : IsH(h, "aw", i))
    \* asyncio.run_coroutine_threadsafe: a trampoline that creates the reply task, then the task itself
    [] \E i \in 1..Len(s.rpcs) : IsH(h, "rpcT", i) ->
         [s EXCEPT !.sched = Append(@, "rpc" \o ToString(CHOOSE i \in 1..Len(s.rpcs) : IsH(h, "rpcT", i)))]
    [] \E i \in 1..Len(s.rpcs) : IsH(h, "rpc", i) -> RpcRun(s, CHOOSE i \in 1..Len(s.rpcs) : IsH(h, "rpc", i))
    [] \E i \in 1..Len(s.rpcs) : IsH(h, "rpcW", i) -> RpcWake(s, CHOOSE i \in 1..Len(s.rpcs) : IsH(h, "rpcW", i))

\* The steps as pure functions (process state, ready queue) -> [s, rdy]; the actions below, the trace
\* specification and the twin construction of ProcessFaults all apply these.
Out2(s1, rdy) == [s |-> Flush(s1), rdy |-> rdy \o s1.sched]
StepKill(s, rdy, text)  == Out2(CallKill(s, text, "env"), rdy)
StepPause(s, rdy, text) == Out2(CallPause(s, text, "env"), rdy)
StepPlay(s, rdy)        == Out2(CallPlay(s, "env"), rdy)
StepResume(s, rdy, v)   == Out2(CallResume(s, v, "env"), rdy)
StepFail(s, rdy)        == LET r == Fail(s, "F") IN Out2(Note(r.s, <<"call", "fail", "F", r.ret, r.exc, "env">>), rdy)
StepCancel(s, rdy)      ==                   \* process.future().cancel()
  [s |-> Note([s EXCEPT !.fut = [st |-> "cancelled", val |-> None],
                        !.mon.killAcc = @ \/ (s.st \in Live),
                        !.mon.killTexts = @ \cup {"Killed by future being cancelled"},
                        !.mon.cancelled = TRUE], <<"cancel">>),
   rdy |-> Append(rdy, "trykill")]
\* the owner of the stepping task (asyncio.wait_for timing out, a runner shutting down) cancels it while it is parked at
\* the pause gate: asyncio cancels the future the task awaits at once (the pause future is then *done but still attached*:
\* the process stays paused) and schedules the task, which ends with CancelledError.  Nothing drives the process afterwards,
\* but every request is still answered synchronously (kill and fail terminate it, play un-pauses it).
TaskCancellable(s) == s.task.pc = "awaitPaused" /\ ~s.task.woken /\ s.pausedF = "pending"
StepTaskCancel(s, rdy)  ==
  [s |-> Note([s EXCEPT !.pausedF = "cancelled", !.task.pc = "cancelling"], <<"taskcancel">>), rdy |-> Append(rdy, "task")]
StepCallSoon(s, rdy, kind) == [s |-> Note(s, <<"callsoon", kind>>), rdy |-> Append(rdy, "cb" \o kind)]
StepRun(s, rdy)         == LET s1 == Handle(s, Head(rdy)) IN [s |-> Flush(s1), rdy |-> Tail(rdy) \o s1.sched]

Env(r)  == S' = r.s /\ ready' = r.rdy /\ budget' = budget - 1
Offered(kind) == kind \in Alphabet /\ budget > 0 /\ S.born

EnvKill(text)     == Offered("kill") /\ Env(StepKill(S, ready, text))
EnvPause(text)    == Offered("pause") /\ Env(StepPause(S, ready, text))
EnvPlay           == Offered("play") /\ Env(StepPlay(S, ready))
EnvResume(v)      == Offered("resume") /\ Env(StepResume(S, ready, v))
EnvFail           == Offered("fail") /\ Env(StepFail(S, ready))
EnvCancel         == Offered("cancel") /\ S.fut.st = "pending" /\ Env(StepCancel(S, ready))
EnvTaskCancel     == Offered("taskcancel") /\ TaskCancellable(S) /\ Env(StepTaskCancel(S, ready))
EnvCallSoon(kind) == Offered("cb" \o kind) /\ Env(StepCallSoon(S, ready, kind))     \* kind: "ok" | "raise"
\* the environment completes an awaited future (or child process): oc = <<"ok", v>> | <<"fail", e>>
StepComplete(s, rdy, i, oc) ==
  LET s1 == Note([s EXCEPT !.awt[i].st = oc[1], !.awt[i].val = oc[2], !.awt[i].reg = FALSE], <<"complete", i, oc[1], oc[2]>>)
  IN [s |-> s1, rdy |-> IF s.awt[i].reg THEN Append(rdy, "aw" \o ToString(i)) ELSE rdy]
EnvComplete(i, oc) == Offered("complete") /\ i \in 1..Len(S.awt) /\ S.awt[i].made /\ S.awt[i].st = "pending"
                      /\ Env(StepComplete(S, ready, i, oc))
\* an RPC message (intent, text) or a broadcast (subject = intent) delivered by the communicator
Deliver(s, rdy, kind, intent, text) ==
  IF kind \notin s.subs THEN [s |-> Note(s, <<kind, intent, "unroutable">>), rdy |-> rdy]   \* not (or no longer: terminated) subscribed
  ELSE IF intent = "status" /\ kind = "rpc"
       THEN [s |-> Note(s, <<"rpc", "status", s.st, s.pausedF # "none">>), rdy |-> rdy]   \* get_status_info: immediate reply
  ELSE IF intent \notin {"pause", "play", "kill"}
       THEN [s |-> Note(s, <<kind, intent, IF kind = "rpc" THEN "RemoteException" ELSE "ignored">>), rdy |-> rdy]
  ELSE LET i == Len(s.rpcs) + 1
       IN [s |-> Note([s EXCEPT !.rpcs = Append(@, [kind |-> kind, intent |-> intent, text |-> text, st |-> "sched", act |-> 0])],
                      <<kind, intent, "scheduled">>),
           rdy |-> Append(rdy, "rpcT" \o ToString(i))]
EnvRpc(intent, text)   == Offered("rpc") /\ S.comm /\ Env(Deliver(S, ready, "rpc", intent, text))
EnvBcast(intent, text) == Offered("bcast") /\ S.comm /\ Env(Deliver(S, ready, "bcast", intent, text))
\* the user closes a process ("should not be run any more"); stepping a closed live process raises ClosedError, and
\* transitions made afterwards find no event callbacks (deviation D11: label changes, future and listeners do not)
StepClose(s, rdy) == LET r == CloseOp(s) IN Out2(Note(r.s, <<"call", "close", None, r.ret, r.exc, "env">>), rdy)
EnvClose          == Offered("close") /\ Env(StepClose(S, ready))
EnvSave           == Offered("save") /\ ~S.stepping /\ Env([s |-> TakeSnapshot(S), rdy |-> ready])
\* (MaxRestores: a raw, unserialised Bundle object may be loaded once only - the loaded process shares its mutable values)
EnvRestore        == Offered("restore") /\ S.snap.has /\ S.restores < MaxRestores /\ Env([s |-> Restore(S), rdy |-> <<"task">>])
RunHandle         == ready # <<>> /\ LET r == StepRun(S, ready) IN S' = r.s /\ ready' = r.rdy /\ UNCHANGED budget

MaxAwaitables == 3
OutcomeKinds == {"ok", "fail", "killed"}
Outcome(i, kind) == CASE kind = "ok" -> <<"ok", "r" \o ToString(i)>>
                      [] kind = "fail" -> <<"fail", "A" \o ToString(i)>>
                      [] OTHER -> <<"killed", "KilledError">>          \* an awaited child process that was killed
RpcMessages   == {<<"pause", "p1">>, <<"play", None>>, <<"kill", "k1">>, <<"status", None>>, <<"bogus", None>>}
BcastMessages == {<<"pause", "p1">>, <<"play", None>>, <<"kill", "k1">>, <<"other", None>>}
KillTexts   == {"k1"}
PauseTexts  == {"p1"}
ResumeVals  == {"v1"}

Next ==
  \/ \E t \in KillTexts : EnvKill(t)
  \/ \E t \in PauseTexts : EnvPause(t)
  \/ EnvPlay
  \/ \E v \in ResumeVals : EnvResume(v)
  \/ EnvFail
  \/ EnvCancel
  \/ EnvTaskCancel
  \/ EnvCallSoon("ok") \/ EnvCallSoon("raise")
  \/ EnvSave \/ EnvRestore \/ EnvClose
  \/ \E i \in 1..MaxAwaitables, kind \in OutcomeKinds : EnvComplete(i, Outcome(i, kind))
  \/ \E m \in RpcMessages : EnvRpc(m[1], m[2])
  \/ \E m \in BcastMessages : EnvBcast(m[1], m[2])
  \/ RunHandle

Spec == Init /\ [][Next]_vars
=============================================================================
