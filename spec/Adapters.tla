------------------------------ MODULE Adapters ------------------------------
(***************************************************************************************************)
(* The future adapters of plumpy (property C20), clause by clause.                                 *)
(*                                                                                                 *)
(* Anchors: src/plumpy/futures.py (create_task, unwrap_kiwi_future, CancellableAction.run),        *)
(* src/plumpy/communications.py (plum_to_kiwi_future, convert_to_comm),                            *)
(* src/plumpy/processes.py (Process._schedule_rpc and its reply loop                               *)
(* `while asyncio.isfuture(result): result = await result`), kiwipy.capture_exceptions.            *)
(*                                                                                                 *)
(* Two kinds of futures:                                                                           *)
(*   "loop" = asyncio.Future: done-callbacks are handed to the event loop (appended to `ready`),   *)
(*            one RunHandle action runs one of them;                                               *)
(*   "kiwi" = kiwipy.Future = concurrent.futures.Future: done-callbacks run synchronously inside   *)
(*            the resolving call, an exception escaping from one is logged by concurrent.futures   *)
(*            (`klog`), never raised; add_done_callback on a finished future runs it at once.      *)
(* A result may be a reference to another future ([t |-> "fut", n |-> id]).                        *)
(*                                                                                                 *)
(* Conventions (DESIGN.md section 3): python functions are operators over the state record s       *)
(* (fields = the variables); operators that can raise return [s, exc] (exc = 0: returned normally).*)
(* A clause guarded by "F20x" \in Fixes is the repaired behaviour, its ELSE branch the behaviour   *)
(* as written, which records the deviation identifier "D20x" in `dev`.                             *)
(*                                                                                                 *)
(* Scenario families (one scenario per behaviour, chosen in Init; futures 1..d are the chain the   *)
(* environment resolves: future i may resolve to future i+1):                                      *)
(*   CT    F = create_task(coro)                   coro: return v | raise e | return await g1      *)
(*   P2K   k = plum_to_kiwi_future(g1)                                                             *)
(*   UNW   u = unwrap_kiwi_future(h1)              (h: kiwi futures)                               *)
(*   COMP  u = unwrap_kiwi_future(plum_to_kiwi_future(g1))                                         *)
(*   CONV  u = unwrap_kiwi_future(convert_to_comm(coro)(comm)) = unwrap(p2k(create_task(coro)))    *)
(*   RPC   K = process._schedule_rpc(cb)           cb: return v | raise e | return action future g1*)
(*   BCF   k = convert_to_comm(BroadcastFilter(cb))(comm, body, sender, subject, id): a broadcast   *)
(*         the filter rejects (flt) is answered at once with a resolved future and nothing is        *)
(*         scheduled; one it lets through runs cb as a task.  kw: the communicator passes sender and  *)
(*         subject by keyword (kiwipy.LocalCommunicator) or by position (RmqCommunicator) - which     *)
(*         makes no difference                                                                        *)
(*   ACT   A = CancellableAction(fn), histories of run()/cancel() of length <= MaxOps; wd: the      *)
(*         function withdraws the request it is carrying out - it cancels the very action that is   *)
(*         executing it (Process.play() called by a hook of the transition a pause action performs) *)
(*         and then returns / raises                                                                 *)
(*                                                                                                 *)
(* Two event loops: "target" is the loop the adapters are told to schedule on (the process loop,   *)
(* the only one that is ever run: `ready`), "caller" is the current event loop of whoever calls    *)
(* the adapter (the communicator thread has a loop of its own: `foreign`).  cl: the adapter is     *)
(* called while the caller's current loop is NOT the target loop.  Every loop future records the   *)
(* loop it is bound to (lp) - its done-callbacks are handed to THAT loop.                          *)
(***************************************************************************************************)
EXTENDS Naturals, Sequences, FiniteSets, TLC

CONSTANTS
  Scenarios,  \* <<[fam, kind, d, co, flt, kw, cl, wd]>>; co: the consumer may cancel the adapter's output future before it
              \* resolves; cl: the caller's current event loop is not the target loop; wd: the action's function withdraws the action
  Fixes,      \* repair identifiers the implementation under test contains
  Listed,     \* deviation identifiers of listed known findings (a behaviour through one of them is excused)
  MaxOps      \* ACT: length of the run/cancel history

VARIABLES sc, out, futs, ready, foreign, tasks, errs, klog, calls, notes, hist, dev, outc
vars == <<sc, out, futs, ready, foreign, tasks, errs, klog, calls, notes, hist, dev, outc>>

(* ---- values ----------------------------------------------------------------------------------- *)
NoVal == [t |-> "none", n |-> 0]
V(n)  == [t |-> "val", n |-> n]        \* a plain value
X(n)  == [t |-> "exc", n |-> n]        \* an exception
R(i)  == [t |-> "fut", n |-> i]        \* the future number i
ISE     == 90      \* asyncio.InvalidStateError / concurrent.futures.InvalidStateError (second resolution)
ISEP    == 91      \* plumpy.futures.InvalidStateError (CancellableAction.run refused)
RetVal  == 7       \* what a "ret" coroutine / callback / action function returns
RaiseEx == 8       \* what a "raise" coroutine / callback / action function raises

\* lp: the event loop an asyncio future is bound to ("target" | "caller"); kiwi futures belong to no loop ("-")
NewFutOn(kind, role, lp) == [kind |-> kind, role |-> role, lp |-> lp, st |-> "pending", val |-> NoVal, cbs |-> <<>>]
NewFut(kind, role) == NewFutOn(kind, role, IF kind = "loop" THEN "target" ELSE "-")
\* asyncio.Future() / CancellableAction(fn) without a loop argument: events.get_event_loop() = the CALLER's current loop
CurrentLoop(cl) == IF cl THEN "caller" ELSE "target"
Cb(op, a, b)  == [op |-> op, a |-> a, b |-> b]
Hnd(cb, src)  == [op |-> cb.op, a |-> cb.a, b |-> cb.b, src |-> src]
Ok(s)         == [s |-> s, exc |-> 0]
Raise(s, e)   == [s |-> s, exc |-> e]
Dev(s, d)     == [s EXCEPT !.dev = @ \cup {d}]
Pending(s, i) == s.f[i].st = "pending"
\* loop.call_soon(...) on the loop `lp`: the target loop's queue is `ready`, the caller's own loop's queue is `foreign`
Sched(s, lp, hs) == IF lp = "caller" THEN [s EXCEPT !.foreign = @ \o hs] ELSE [s EXCEPT !.ready = @ \o hs]

RECURSIVE Resolve(_, _, _, _), FireKiwi(_, _, _), RunCb(_, _, _), AddCb(_, _, _), SetResult(_, _, _),
          SetException(_, _, _), Cancel(_, _), Unwrap(_, _, _), P2kOnDone(_, _, _), PlumToKiwi(_, _),
          TaskResume(_, _, _), Deliver(_, _, _, _), RpcLoop(_, _, _), MapHnd(_, _)

(* ---- futures ---------------------------------------------------------------------------------- *)
MapHnd(cbs, src) == IF cbs = <<>> THEN <<>> ELSE <<Hnd(Head(cbs), src)>> \o MapHnd(Tail(cbs), src)

\* a pending future gets its outcome; its done-callbacks are dispatched
Resolve(s, i, st, val) ==
  LET fu == s.f[i]
      s1 == [s EXCEPT !.f[i].st = st, !.f[i].val = val, !.f[i].cbs = <<>>]
  IN IF fu.kind = "loop"
     THEN Sched(s1, fu.lp, MapHnd(fu.cbs, i))               \* asyncio: self._loop.call_soon(cb, fut) for each
     ELSE FireKiwi(s1, fu.cbs, i)                            \* concurrent.futures: _invoke_callbacks, here and now

\* concurrent.futures.Future._invoke_callbacks: `except Exception: LOGGER.exception(...)`
FireKiwi(s, cbs, i) ==
  IF cbs = <<>> THEN s
  ELSE LET r  == RunCb(s, Head(cbs), i)
           s1 == IF r.exc # 0 THEN [r.s EXCEPT !.klog = Append(@, r.exc)] ELSE r.s
       IN FireKiwi(s1, Tail(cbs), i)

SetResult(s, i, val)  == IF Pending(s, i) THEN Ok(Resolve(s, i, "result", val)) ELSE Raise(s, ISE)
SetException(s, i, e) == IF Pending(s, i) THEN Ok(Resolve(s, i, "exception", X(e))) ELSE Raise(s, ISE)
Cancel(s, i)          == IF Pending(s, i) THEN Resolve(s, i, "cancelled", NoVal) ELSE s      \* never raises

\* `with kiwipy.capture_exceptions(fut): <body raised e>`  ==  fut.set_exception(e), which may itself raise
Capture(s, i, e) == SetException(s, i, e)
\* `with capture_exceptions(fut): fut.set_result(val)`
CapturedSetResult(s, i, val) == LET r == SetResult(s, i, val) IN IF r.exc = 0 THEN r ELSE Capture(r.s, i, r.exc)

\* fut.add_done_callback(cb)
AddCb(s, i, cb) ==
  IF Pending(s, i) THEN [s EXCEPT !.f[i].cbs = Append(@, cb)]
  ELSE IF s.f[i].kind = "loop" THEN Sched(s, s.f[i].lp, <<Hnd(cb, i)>>)
  ELSE LET r == RunCb(s, cb, i) IN IF r.exc # 0 THEN [r.s EXCEPT !.klog = Append(@, r.exc)] ELSE r.s

RunCb(s, cb, src) ==
  CASE cb.op = "unwrap" -> Unwrap(s, cb.a, src)
    [] cb.op = "p2k"    -> P2kOnDone(s, cb.a, cb.b)
    [] cb.op = "wakeup" -> Ok(TaskResume(s, cb.a, src))
    [] cb.op = "obs"    -> Ok([s EXCEPT !.notes = @ + 1])

(* ---- futures.py: unwrap_kiwi_future ------------------------------------------------------------ *)
\* def unwrap(fut):                                   (u: the `unwrapping` future of the closure)
Unwrap(s, u, fut) ==
  IF "F20d" \in Fixes /\ ~Pending(s, u) THEN Ok(s)                    \* repaired: the consumer gave up, nothing to deliver
  ELSE IF s.f[fut].st = "cancelled" THEN Ok(Cancel(s, u))             \* if fut.cancelled(): unwrapping.cancel()
  ELSE IF s.f[fut].st = "exception"                                   \* result = fut.result() raises inside capture_exceptions
       THEN LET r == Capture(s, u, s.f[fut].val.n) IN IF r.exc # 0 THEN Raise(Dev(r.s, "D20d"), r.exc) ELSE r
  ELSE LET v == s.f[fut].val IN
       IF v.t = "fut" /\ s.f[v.n].kind = "kiwi"
       THEN Ok(AddCb(s, v.n, Cb("unwrap", u, 0)))                     \* result.add_done_callback(unwrap)
       ELSE LET r == CapturedSetResult(s, u, v)                       \* unwrapping.set_result(result)
            IN IF r.exc # 0 THEN Raise(Dev(r.s, "D20d"), r.exc) ELSE r

\* unwrapping = kiwipy.Future(); future.add_done_callback(unwrap); return unwrapping
UnwrapKiwi(s, h) ==
  LET u  == Len(s.f) + 1
      s1 == [s EXCEPT !.f = Append(@, NewFut("kiwi", "unwrapping"))]
  IN [s |-> AddCb(s1, h, Cb("unwrap", u, 0)), id |-> u]

(* ---- communications.py: plum_to_kiwi_future ---------------------------------------------------- *)
\* def on_done(_plum_future):                         (p, k: plum_future, kiwi_future of the closure)
P2kOnDone(s, p, k) ==
  IF "F20c" \in Fixes /\ ~Pending(s, k) THEN Ok(s)                    \* repaired: the consumer cancelled the mirror
  ELSE IF s.f[p].st = "cancelled" THEN Ok(Cancel(s, k))               \* kiwi_future.cancel()
  ELSE IF s.f[p].st = "exception"                                     \* plum_future.result() raises inside capture_exceptions
       THEN LET r == Capture(s, k, s.f[p].val.n) IN IF r.exc # 0 THEN Raise(Dev(r.s, "D20c"), r.exc) ELSE r
  ELSE LET v == s.f[p].val IN
       IF v.t = "fut" /\ s.f[v.n].kind = "loop"                       \* isinstance(result, futures.Future): convert it too
       THEN LET m == PlumToKiwi(s, v.n)
                r == CapturedSetResult(m.s, k, R(m.id))
            IN IF r.exc # 0 THEN Raise(Dev(r.s, "D20c"), r.exc) ELSE r
       ELSE LET r == CapturedSetResult(s, k, v)
            IN IF r.exc # 0 THEN Raise(Dev(r.s, "D20c"), r.exc) ELSE r

\* kiwi_future = kiwipy.Future(); plum_future.add_done_callback(on_done); return kiwi_future
PlumToKiwi(s, p) ==
  LET k  == Len(s.f) + 1
      s1 == [s EXCEPT !.f = Append(@, NewFut("kiwi", "mirror"))]
  IN [s |-> AddCb(s1, p, Cb("p2k", p, k)), id |-> k]

(* ---- coroutines scheduled with asyncio.run_coroutine_threadsafe -------------------------------- *)
\* handles: "thunk"   run_coroutine_threadsafe's callback (creates the task, chains it to a concurrent future nobody keeps)
\*          "step"    the first step of the task
\*          "wakeup"  the task resumed by the future it awaits (a done-callback of that future)
\*          "chain"   _chain_future._call_set_state (the task's done-callback); cancels the concurrent future if the task was cancelled
\*          "tcancel" ... whose done-callback then schedules task.cancel(): a no-op
NewTask(fam, kind, src, o) == [fam |-> fam, kind |-> kind, src |-> src, out |-> o, pc |-> "unborn", on |-> 0, st |-> "pending", exc |-> 0]
H0(op, t) == [op |-> op, a |-> t, b |-> 0, src |-> 0]

TaskEnd(s, t, st, exc) ==
  [s EXCEPT !.tasks[t].pc = "done", !.tasks[t].st = st, !.tasks[t].exc = exc, !.tasks[t].on = 0,
            !.ready = Append(@, H0("chain", t))]

\* the tail shared by create_task.run_task and _schedule_rpc.run_callback:
\*     with kiwipy.capture_exceptions(future):
\*         res = <await ...>              <- ends with (st, val): a value, an exception, or asyncio.CancelledError
\*         future.set_result(res)
\* capture_exceptions catches Exception; asyncio.CancelledError is a BaseException and passes through it.
Deliver(s, t, st, val) ==
  LET o  == s.tasks[t].out
      fx == IF s.tasks[t].fam = "ct" THEN "F20b" ELSE "F20a"
      dv == IF s.tasks[t].fam = "ct" THEN "D20b" ELSE "D20a"
  IN CASE st = "result" ->
            LET r == CapturedSetResult(s, o, val)
            IN IF r.exc = 0 THEN TaskEnd(r.s, t, "result", 0) ELSE TaskEnd(r.s, t, "exception", r.exc)
       [] st = "exception" ->
            LET r == Capture(s, o, val.n)
            IN IF r.exc = 0 THEN TaskEnd(r.s, t, "result", 0) ELSE TaskEnd(r.s, t, "exception", r.exc)
       [] st = "cancelled" ->
            IF fx \in Fixes THEN TaskEnd(Cancel(s, o), t, "cancelled", 0)      \* repaired: except CancelledError: future.cancel(); raise
            ELSE TaskEnd(Dev(s, dv), t, "cancelled", 0)                        \* as written: the task dies, `future` is never resolved

\* processes.py _schedule_rpc:  while asyncio.isfuture(result): result = await result
\* (awaiting a finished future does not suspend)
RpcLoop(s, t, cur) ==
  IF Pending(s, cur)
  THEN AddCb([s EXCEPT !.tasks[t].pc = "await", !.tasks[t].on = cur], cur, Cb("wakeup", t, 0))
  ELSE LET fu == s.f[cur] IN
       IF fu.st = "result" /\ fu.val.t = "fut" /\ s.f[fu.val.n].kind = "loop" THEN RpcLoop(s, t, fu.val.n)
       ELSE Deliver(s, t, fu.st, fu.val)

\* create_task:  res = await coro()   with  coro = `return await g`
CtAwait(s, t, g) ==
  IF Pending(s, g)
  THEN AddCb([s EXCEPT !.tasks[t].pc = "await", !.tasks[t].on = g], g, Cb("wakeup", t, 0))
  ELSE Deliver(s, t, s.f[g].st, s.f[g].val)

TaskStart(s, t) ==
  LET tk == s.tasks[t]
      s1 == [s EXCEPT !.calls = @ + 1]                    \* coro() / callback(*args, **kwargs) is called
  IN CASE tk.kind = "ret"   -> Deliver(s1, t, "result", V(RetVal))
       [] tk.kind = "raise" -> Deliver(s1, t, "exception", X(RaiseEx))      \* rpc: wrapped in RuntimeError(...) from exc
       [] tk.kind = "await" -> IF tk.fam = "ct" THEN CtAwait(s1, t, tk.src) ELSE RpcLoop(s1, t, tk.src)

TaskResume(s, t, src) ==
  IF s.tasks[t].fam = "ct" THEN Deliver(s, t, s.f[src].st, s.f[src].val) ELSE RpcLoop(s, t, src)

\* futures.py create_task: future = loop.create_future(); run_coroutine_threadsafe(run_task(), loop); return future
\* (loop.create_future(): bound to the loop the coroutine is scheduled on, whatever the caller's current loop is;
\*  run_coroutine_threadsafe: loop.call_soon_threadsafe(callback) on that same loop)
CreateTask(s, kind, src) ==
  LET F == Len(s.f) + 1
      t == Len(s.tasks) + 1
  IN [s |-> [s EXCEPT !.f = Append(@, NewFutOn("loop", "task_future", "target")), !.tasks = Append(@, NewTask("ct", kind, src, F)),
                      !.ready = Append(@, H0("thunk", t))], id |-> F]
\* processes.py _schedule_rpc: kiwi_future = kiwipy.Future(); run_coroutine_threadsafe(run_callback(), self.loop)
ScheduleRpc(s, kind, src) ==
  LET K == Len(s.f) + 1
      t == Len(s.tasks) + 1
  IN [s |-> [s EXCEPT !.f = Append(@, NewFut("kiwi", "reply")), !.tasks = Append(@, NewTask("rpc", kind, src, K)),
                      !.ready = Append(@, H0("thunk", t))], id |-> K]

\* one event-loop callback; an exception escaping from it goes to loop.call_exception_handler
Handle(s0, h) ==
  CASE h.op \in {"unwrap", "p2k", "wakeup", "obs"} ->
         LET r == RunCb(s0, Cb(h.op, h.a, h.b), h.src)
         IN IF r.exc # 0 THEN [r.s EXCEPT !.errs = Append(@, r.exc)] ELSE r.s
    [] h.op = "thunk"   -> [s0 EXCEPT !.tasks[h.a].pc = "new", !.ready = Append(@, H0("step", h.a))]
    [] h.op = "step"    -> TaskStart(s0, h.a)
    [] h.op = "chain"   -> IF s0.tasks[h.a].st = "cancelled" THEN [s0 EXCEPT !.ready = Append(@, H0("tcancel", h.a))] ELSE s0
    [] h.op = "tcancel" -> s0

(* ---- futures.py: CancellableAction ------------------------------------------------------------- *)
\* wd: user code the function calls withdraws the request (self.cancel()) before the function returns / raises
ActRun(s, a, kind, wd) ==
  IF ~Pending(s, a) THEN [s |-> s, ret |-> "ISEP"]                     \* if self.done(): raise InvalidStateError
  ELSE LET s1 == [s EXCEPT !.calls = @ + 1]                            \* with capture_exceptions(self): result = self._action(*args, **kwargs)
           s2 == IF wd THEN Cancel(s1, a) ELSE s1                      \*    ... in which the action is cancelled
           r  == IF kind = "ret"
                 THEN IF s2.f[a].st = "cancelled" THEN Ok(s2)          \* if not self.cancelled():
                      ELSE CapturedSetResult(s2, a, V(RetVal))         \*     self.set_result(result)
                 ELSE IF "F20e" \in Fixes /\ ~Pending(s2, a) THEN Ok(s2)   \* repaired: the outcome (the cancellation) stands
                 ELSE LET c == Capture(s2, a, RaiseEx)                 \* as written: capture_exceptions: self.set_exception(e), which
                      IN IF c.exc # 0 THEN Raise(Dev(c.s, "D20e"), c.exc) ELSE c     \* raises on a cancelled action, out of run()
       IN [s |-> r.s, ret |-> IF r.exc = 0 THEN "ok" ELSE "ISE"]
ActCancel(s, a) == [s |-> Cancel(s, a), ret |-> IF Pending(s, a) THEN "True" ELSE "False"]

(* ---- scenarios -------------------------------------------------------------------------------- *)
E0 == [f |-> <<>>, ready |-> <<>>, foreign |-> <<>>, tasks |-> <<>>, errs |-> <<>>, klog |-> <<>>, calls |-> 0, notes |-> 0, dev |-> {}]
Chain(kind, d) == [E0 EXCEPT !.f = [i \in 1..d |-> NewFut(kind, "source")]]
Head1(scn) == IF scn.d > 0 THEN 1 ELSE 0

Build(scn) ==
  CASE scn.fam = "CT"   -> CreateTask(Chain("loop", scn.d), scn.kind, Head1(scn))
    [] scn.fam = "P2K"  -> PlumToKiwi(Chain("loop", scn.d), 1)
    [] scn.fam = "UNW"  -> UnwrapKiwi(Chain("kiwi", scn.d), 1)
    [] scn.fam = "COMP" -> LET k == PlumToKiwi(Chain("loop", scn.d), 1) IN UnwrapKiwi(k.s, k.id)
    [] scn.fam = "CONV" -> LET c == CreateTask(Chain("loop", scn.d), scn.kind, Head1(scn))
                               k == PlumToKiwi(c.s, c.id)
                           IN UnwrapKiwi(k.s, k.id)
    [] scn.fam = "RPC"  -> ScheduleRpc(Chain("loop", scn.d), scn.kind, Head1(scn))
    [] scn.fam = "BCF"  -> IF scn.flt
                           THEN [s |-> [E0 EXCEPT !.f = <<[NewFut("kiwi", "out") EXCEPT !.st = "result", !.val = NoVal]>>], id |-> 1]
                           ELSE LET c == CreateTask(E0, scn.kind, 0) IN PlumToKiwi(c.s, c.id)
    \* CancellableAction.__init__: super().__init__() - no loop argument: the current loop of whoever creates the action
    [] scn.fam = "ACT"  -> [s |-> [E0 EXCEPT !.f = <<[NewFutOn("loop", "action", CurrentLoop(scn.cl)) EXCEPT !.cbs = <<Cb("obs", 0, 0)>>]>>], id |-> 1]

St == [f |-> futs, ready |-> ready, foreign |-> foreign, tasks |-> tasks, errs |-> errs, klog |-> klog, calls |-> calls, notes |-> notes, dev |-> dev]
Commit(s) == /\ futs' = s.f /\ ready' = s.ready /\ foreign' = s.foreign /\ tasks' = s.tasks /\ errs' = s.errs /\ klog' = s.klog
             /\ calls' = s.calls /\ notes' = s.notes /\ dev' = s.dev

Init == \E j \in 1..Len(Scenarios) :
          LET b == Build(Scenarios[j]) IN
            /\ sc = Scenarios[j] /\ out = b.id
            /\ futs = b.s.f /\ ready = b.s.ready /\ foreign = b.s.foreign /\ tasks = b.s.tasks /\ errs = <<>> /\ klog = <<>>
            /\ calls = 0 /\ notes = 0 /\ hist = <<>> /\ dev = {} /\ outc = FALSE

(* ---- environment ------------------------------------------------------------------------------ *)
\* the environment resolves any pending future of the chain, at any level, in any order (inner before outer included);
\* a future that can no longer become part of the chain (its predecessor ended otherwise) is left alone
Relevant(i) == IF i = 1 THEN TRUE ELSE (futs[i - 1].st = "pending" \/ futs[i - 1].val = R(i))
Src(i)      == sc.fam # "ACT" /\ i \in 1..sc.d /\ futs[i].st = "pending" /\ Relevant(i)
Env(s)      == Commit(s) /\ UNCHANGED <<sc, out, hist, outc>>

EnvValue(i)  == Src(i) /\ Env(Resolve(St, i, "result", V(i)))
EnvNest(i)   == Src(i) /\ i < sc.d /\ Env(Resolve(St, i, "result", R(i + 1)))
EnvFail(i)   == Src(i) /\ Env(Resolve(St, i, "exception", X(i)))
EnvCancel(i) == Src(i) /\ Env(Resolve(St, i, "cancelled", NoVal))
\* the consumer of the adapter cancels the future it was given
EnvCancelOut == /\ sc.co /\ ~outc /\ futs[out].st = "pending"
                /\ Commit(Cancel(St, out)) /\ outc' = TRUE /\ UNCHANGED <<sc, out, hist>>
EnvRun       == /\ sc.fam = "ACT" /\ Len(hist) < MaxOps
                /\ LET r == ActRun(St, out, sc.kind, sc.wd) IN Commit(r.s) /\ hist' = Append(hist, [op |-> "run", ret |-> r.ret])
                /\ UNCHANGED <<sc, out, outc>>
EnvCancelAct == /\ sc.fam = "ACT" /\ Len(hist) < MaxOps
                /\ LET r == ActCancel(St, out) IN Commit(r.s) /\ hist' = Append(hist, [op |-> "cancel", ret |-> r.ret])
                /\ UNCHANGED <<sc, out, outc>>
RunHandle    == /\ ready # <<>>
                /\ Commit(Handle([St EXCEPT !.ready = Tail(ready)], Head(ready)))
                /\ UNCHANGED <<sc, out, hist, outc>>

\* (a constant range keeps the sub-actions apart in TLC's action labels; Src(i) bounds i by the scenario's depth)
Levels == 1..4
Next == \/ \E i \in Levels : EnvValue(i) \/ EnvNest(i) \/ EnvFail(i) \/ EnvCancel(i)
        \/ EnvCancelOut \/ EnvRun \/ EnvCancelAct \/ RunHandle

Spec == Init /\ [][Next]_vars

(* ---- properties -------------------------------------------------------------------------------- *)
Quiescent == ready = <<>>
Excused   == dev \cap Listed # {}

RECURSIVE Deep(_, _)
Shallow(F, i) == [st |-> F[i].st, val |-> F[i].val]
Deep(F, i)    == IF F[i].st = "result" /\ F[i].val.t = "fut" THEN Deep(F, F[i].val.n) ELSE Shallow(F, i)

\* the outcome of the innermost computation
Expected ==
  CASE sc.fam = "BCF" /\ sc.flt -> [st |-> "result", val |-> NoVal]      \* filtered: answered with None, whoever asks and however
    [] sc.kind = "ret"   -> [st |-> "result", val |-> V(RetVal)]
    [] sc.kind = "raise" -> [st |-> "exception", val |-> X(RaiseEx)]
    [] sc.fam = "CT"     -> Shallow(futs, 1)        \* create_task alone: the coroutine's own outcome (a future stays a future)
    [] OTHER             -> Deep(futs, 1)
Got == IF sc.fam = "CT" THEN Shallow(futs, out) ELSE Deep(futs, out)

\* at quiescence the adapter's outcome is the outcome of the innermost computation: value, exception or cancellation
\* (pending as long as that computation is), and nothing else; a consumer who cancelled keeps the cancellation
Faithful == (sc.fam # "ACT" /\ Quiescent /\ ~Excused) => IF outc THEN futs[out].st = "cancelled" ELSE Got = Expected

\* no second resolution is attempted anywhere: nothing reaches the loop's exception handler, nothing is swallowed by
\* concurrent.futures' callback runner, no scheduled coroutine dies of an exception, observers are told at most once
ExactlyOnce == ~Excused => /\ errs = <<>> /\ klog = <<>>
                           /\ \A t \in 1..Len(tasks) : tasks[t].st # "exception"
                           /\ notes <= 1
                           /\ calls <= 1
\* whatever the caller's current event loop is, everything happens on the loop the adapter was told to use: every loop future
\* the adapters hand out or create is bound to it and nothing is ever scheduled on the caller's own loop
\* (ACT has no loop argument: an action belongs to the current loop of whoever creates it)
OnTargetLoop == sc.fam # "ACT" => /\ foreign = <<>>
                                  /\ \A i \in 1..Len(futs) : futs[i].kind = "loop" => futs[i].lp = "target"
\* a filtered broadcast never reaches the callback and schedules nothing
FilteredIsSilent == (sc.fam = "BCF" /\ sc.flt) => (calls = 0 /\ tasks = <<>> /\ ready = <<>>)
\* an outcome, once there, never changes
Stable == [][\A i \in 1..Len(futs) : futs[i].st # "pending" => (futs'[i].st = futs[i].st /\ futs'[i].val = futs[i].val)]_vars

\* a cancellable action runs its function at most once, reports the outcome through itself, refuses to run again or after cancel
\* (a function that withdrew the request: the outcome of the run is the cancellation, whatever the function then returns or raises)
FnOutcome == IF sc.wd THEN [st |-> "cancelled", val |-> NoVal]
             ELSE IF sc.kind = "ret" THEN [st |-> "result", val |-> V(RetVal)] ELSE [st |-> "exception", val |-> X(RaiseEx)]
ActionOnce ==
  (sc.fam = "ACT" /\ ~Excused) =>
    /\ calls <= 1
    /\ hist = <<>> => (calls = 0 /\ futs[out].st = "pending")
    /\ hist # <<>> =>
         /\ hist[1].op = "run" =>
              /\ hist[1].ret = "ok" /\ calls = 1 /\ Shallow(futs, out) = FnOutcome
              /\ \A i \in 2..Len(hist) : hist[i].ret = (IF hist[i].op = "run" THEN "ISEP" ELSE "False")
         /\ hist[1].op = "cancel" =>
              /\ hist[1].ret = "True" /\ calls = 0 /\ futs[out].st = "cancelled"
              /\ \A i \in 2..Len(hist) : hist[i].ret = (IF hist[i].op = "run" THEN "ISEP" ELSE "False")
         /\ Quiescent => notes = 1
=============================================================================
