------------------------------ MODULE Launcher ------------------------------
(***************************************************************************************************)
(* C17 - launcher tasks do what they say or are rejected.                                          *)
(*                                                                                                 *)
(* Anchors: src/plumpy/process_comms.py: ProcessLauncher.__call__ (dispatch, TaskRejected),         *)
(* _launch, _continue, _create; create_launch_body / create_continue_body / create_create_body;     *)
(* src/plumpy/persistence.py: Persister.save_checkpoint / load_checkpoint, Bundle.unbundle,         *)
(* _ensure_object_loader; src/plumpy/loaders.py: ObjectLoader.load_object / identify_object.        *)
(*                                                                                                 *)
(* One behaviour = one configuration of the launcher (persister or none, its kind, object loader,   *)
(* style of the constructor arguments) and a history of at most MaxTasks tasks sent to it,          *)
(* interleaved with the environment: RunLoop (the event loop runs: processes started with nowait    *)
(* get their turn), EnvResume (a waiting process is resumed and the loop runs), EnvSave (a          *)
(* checkpoint of a process living in the launcher's interpreter is saved under a tag).              *)
(*                                                                                                 *)
(* OPERATIONAL part: Call / Launch / Continue / Create mirror the python functions clause by        *)
(* clause, in code order, as transformers of the state record.  DECLARATIVE part: CreateOK,         *)
(* LaunchOK, ContinueOK, NowaitReply, WaitingReply, RejectOK, LoaderUsed, ... (the property).       *)
(* TLC checks operational |= declarative; every behaviour TLC enumerates is an implementation      *)
(* test whose expected observations are the values of this module.                                 *)
(*                                                                                                 *)
(* A process is more than a state label and outputs: it owns a CONTEXT (the working data a WorkChain  *)
(* keeps in self.ctx, a saved member that the running process goes on changing) and a sequence of     *)
(* FUTURE objects (proc.future() is the current one: on_except replaces a future that was already     *)
(* resolved).  Checkpoints are values: SaveCheckpoint copies, so nothing a process does after it was   *)
(* persisted shows in the store; the reply of a waited-for task is read from the CURRENT future of   *)
(* the terminated process.  Classes Chain and Late exist to make both visible.                       *)
(*                                                                                                 *)
(* A process also owns its PARSED INPUTS (Process.inputs: what the constructor was given, completed   *)
(* by the defaults of the ports), a saved member like the outputs and the context: the user code     *)
(* reads its arguments there, on a fresh instance and on one recreated from a checkpoint alike.  The   *)
(* mapping is a VALUE in its own right, whatever it contains: a class whose only port is optional     *)
(* and has no default (class Opt), constructed without arguments, has the EMPTY mapping as its        *)
(* parsed inputs - not "no inputs" - and a checkpoint of it carries exactly that.                      *)
(*                                                                                                 *)
(* Outside this module: the no_reply flag of the controllers, malformed task bodies (no task key),   *)
(* pause / kill of launched processes (C04, C05), the exception class of a missing checkpoint and    *)
(* shared bundles of the in-memory persister (C14), the loader named inside a bundle (C19).          *)
(*                                                                                                 *)
(* A clause guarded by "Fx" \in Fixes is the repaired behaviour, its ELSE branch the code as        *)
(* written; as-written clauses that go wrong add a deviation identifier to S.dev.  A behaviour is    *)
(* excused from the declarative properties only if it exercised such a clause and every deviation   *)
(* it exercised is a listed known finding (Known); an unlisted deviation is a violation.            *)
(* At present no clause of ProcessLauncher needed a repair: Fixes guards nothing and S.dev stays    *)
(* empty; the constants are the place where a defect found later is recorded.                       *)
(***************************************************************************************************)
EXTENDS Naturals, Sequences, FiniteSets, TLC

CONSTANTS
  MaxTasks,   \* tasks per history
  MaxSaves,   \* environment checkpoints per history
  Configs,    \* configurations: [hasP : BOOLEAN, kind : {"mem","pickle","none"}, loader : {"default","custom"},
              \*                  ctx : BOOLEAN (the launcher is constructed with a caller-supplied load_context),
              \*                  arg : {"none","pos","kw","bad"}]
  Classes,    \* process classes: subset of {"Fin", "Exc", "Wait", "Late", "Chain", "Opt"}
  Fixes,      \* repairs contained in the implementation under test
  Known       \* deviation identifiers of listed known findings (excused)

VARIABLE S
vars == <<S>>

Tags == {"None", "t"}                       \* "None" is the absent tag

(* ----------------------------------------------------------------------------------------------- *)
(* user code of the process classes.  DECLARATIVE: the trajectory of a fresh instance, as points     *)
(* (state label, outputs, context, error) and the names of the step functions leading from one point *)
(* to the next.  (The OPERATIONAL user code, written as transformers of the instance, is further down.) *)
(* ----------------------------------------------------------------------------------------------- *)
\* Fin  : run() emits v and s=1 and returns            -> FINISHED, the reply is the outputs
\* Exc  : run() emits v and raises Boom                -> EXCEPTED, the reply is the error
\* Wait : run() emits v and returns Wait(after); after() emits s=2 -> FINISHED; needs resume() from the environment
\* Late : run() emits v and s=1 and returns -> FINISHED (the process future is resolved with the outputs), then on_finished()
\*        raises StoreFail -> transition_failed -> EXCEPTED: the outcome of the process is the error, not the outputs
\* Chain: a WorkChain with the outline (gather, report) that keeps its working data in self.ctx: gather() appends an item to
\*        the list ctx.items (creating the list only if the checkpoint it started from left none), report() emits v and
\*        n = len(ctx.items)                              -> FINISHED
\* Opt  : the port v is optional and has NO default (the other classes declare it with the default 0): run() emits
\*        v = self.inputs.get('v', 1) and g = ('v' in self.inputs), and returns      -> FINISHED, the reply is the outputs
\* the constructor argument: inputs = {'v': 7} given positionally / by keyword, absent or invalid.  The PARSED inputs of the
\* instance (Process.inputs; a mapping, here the sequence of its items): what was given, completed by the port defaults
\*   Process.__init__ / on_create: self._parsed_inputs = self.spec().inputs.pre_process(raw inputs or {})   (never None)
\* every class but Opt declares  spec.input('v', valid_type=int, default=0), Opt  spec.input('v', valid_type=int, required=False):
\* an Opt constructed without arguments has the empty mapping
ParsedInputs(c, arg) == IF arg \in {"pos", "kw"} THEN << <<"v", "7">> >>
                        ELSE IF c = "Opt" THEN <<>> ELSE << <<"v", "0">> >>
\* what the user code reads there:  'v' in self.inputs;  self.inputs.v  (classes with the default: always present) resp.
\* self.inputs.get('v', 1)  (Opt)
Has(ins, key) == \E j \in 1..Len(ins) : ins[j][1] = key
Given(ins)    == IF Has(ins, "v") THEN "True" ELSE "False"
InVal(ins)    == IF Has(ins, "v") THEN ins[CHOOSE j \in 1..Len(ins) : ins[j][1] = "v"][2] ELSE "1"
Pt(st, outs, ctx, err) == [st |-> st, outs |-> outs, ctx |-> ctx, err |-> err]
Traj(c, ins) == LET v == InVal(ins) IN
  CASE c = "Fin"   -> << Pt("CREATED", <<>>, <<>>, "-"), Pt("FINISHED", << <<"v", v>>, <<"s", "1">> >>, <<>>, "-") >>
    [] c = "Exc"   -> << Pt("CREATED", <<>>, <<>>, "-"), Pt("EXCEPTED", << <<"v", v>> >>, <<>>, "Boom") >>
    [] c = "Wait"  -> << Pt("CREATED", <<>>, <<>>, "-"), Pt("WAITING", << <<"v", v>> >>, <<>>, "-"),
                         Pt("FINISHED", << <<"v", v>>, <<"s", "2">> >>, <<>>, "-") >>
    [] c = "Late"  -> << Pt("CREATED", <<>>, <<>>, "-"), Pt("EXCEPTED", << <<"v", v>>, <<"s", "1">> >>, <<>>, "StoreFail") >>
    [] c = "Chain" -> << Pt("CREATED", <<>>, <<>>, "-"), Pt("FINISHED", << <<"v", v>>, <<"n", "1">> >>, <<"item">>, "-") >>
    [] c = "Opt"   -> << Pt("CREATED", <<>>, <<>>, "-"), Pt("FINISHED", << <<"v", v>>, <<"g", Given(ins)>> >>, <<>>, "-") >>
\* the step functions executed along each edge of the trajectory
EdgeSteps(c) == CASE c = "Wait"  -> << <<"run">>, <<"after">> >>
                  [] c = "Chain" -> << <<"gather", "report">> >>
                  [] OTHER       -> << <<"run">> >>
Terminal(st) == st \in {"FINISHED", "EXCEPTED"}
\* the error a class ends with, if it ends with one
ErrOf(c) == IF c = "Late" THEN "StoreFail" ELSE "Boom"
ProcessErrors == {"Boom", "StoreFail"}

(* ----------------------------------------------------------------------------------------------- *)
(* replies, snapshots, instances                                                                    *)
(* ----------------------------------------------------------------------------------------------- *)
NoReply        == [kind |-> "pending", pid |-> 0, outs |-> <<>>, err |-> "-"]
PidReply(p)    == [NoReply EXCEPT !.kind = "pid", !.pid = p]
OutReply(o)    == [NoReply EXCEPT !.kind = "outputs", !.outs = o]
ErrReply(e)    == [NoReply EXCEPT !.kind = "error", !.err = e]
RejectedReply  == [NoReply EXCEPT !.kind = "rejected", !.err = "TaskRejected"]

NoSnap == [cls |-> "-", name |-> "-", st |-> "-", ins |-> <<>>, outs |-> <<>>, ctx |-> <<>>, err |-> "-"]
\* what save_checkpoint stores for a process: class (under the name the persister's save context gives it), state, members
\* (the parsed inputs - empty or not -, outputs, the context of a ContextMixin, the exception of the EXCEPTED state).  A checkpoint
\* is a VALUE:
\*   InMemoryPersister.save_checkpoint: Bundle(process, self._save_context, dereference=True)   (members are copied)
\*   PicklePersister.save_checkpoint  : pickle.dump(Bundle(process), file)                       (serialised at once)
\* whatever the process does afterwards, the stored snapshot is what the process was when it was saved
SnapOf(p, scheme) == [cls |-> p.cls, name |-> scheme, st |-> p.st, ins |-> p.ins, outs |-> p.outs, ctx |-> p.ctx, err |-> p.err]

\* proc.future(): the CURRENT future object of the process (the last one it created)
Future(p) == p.futs[Len(p.futs)]
\* decimal numerals of the small naturals that occur (all values are strings)
Str(n) == IF n = 0 THEN "0" ELSE <<"1", "2", "3", "4">>[n]

(* ----------------------------------------------------------------------------------------------- *)
(* object loaders.  A class name is <<scheme, class>>: scheme "d" = module:name as DefaultObjectLoader   *)
(* writes it, "c" = an alias of the custom loader, kept in a table of the configured loader instance *)
(* (only that instance resolves it).  The custom loader extends the default one.                    *)
(* ----------------------------------------------------------------------------------------------- *)
Resolves(loader, scheme) == loader = "custom" \/ scheme = "d"
\* identify_object of a loader
Identify(loader) == IF loader = "custom" THEN "c" ELSE "d"
\* ProcessLauncher.__init__: self._loader = loader if given, else loaders.get_object_loader()
LauncherLoader(cfg) == cfg.loader
\* ProcessLauncher.__init__, the load context handed to unbundle():
\*   self._load_context = load_context if load_context is not None else persistence.LoadSaveContext()
\* a caller-supplied context carries runtime data and no loader, a fresh one carries nothing: either way no loader yet
BaseContextLoader(cfg) == IF cfg.ctx THEN "none" ELSE "none"
\*   if loader is not None: self._load_context = self._load_context.copyextend(loader=loader)
\* (the configured loader INSTANCE: the custom loader's identifiers live in a table of that instance, no other loader object
\* resolves them).  Without a configured loader unbundle() falls back to the loader named by the bundle, else the global
\* default (_ensure_object_loader; the bundle part belongs to C19)
ContextLoader(cfg) == IF cfg.loader = "custom" THEN "custom"
                      ELSE IF BaseContextLoader(cfg) = "none" THEN "default" ELSE BaseContextLoader(cfg)
\* create_*_body(process_class, loader=...): the sender identifies the class with the loader of the configuration
SenderScheme(cfg) == Identify(cfg.loader)
\* the name a persister writes: InMemoryPersister(loader=...) uses its save context, PicklePersister always the default
PersisterScheme(cfg) == IF cfg.kind = "mem" THEN Identify(cfg.loader) ELSE "d"

(* ----------------------------------------------------------------------------------------------- *)
(* state transformers                                                                               *)
(* ----------------------------------------------------------------------------------------------- *)
SetReply(s, k, r) == [s EXCEPT !.replies[k] = r]

\* loader.load_object(name) on behalf of task k: logged
LoadObject(s, k, loader, scheme, c) == [s EXCEPT !.log = Append(@, [task |-> k, loader |-> loader, name |-> scheme, cls |-> c])]

\* proc_class(*init_args, **init_kwargs): a fresh pid, state CREATED, nothing has run
Construct(s, k, c) ==
  [s EXCEPT !.npid = @ + 1,
            !.procs = Append(@, [pid |-> s.npid + 1, cls |-> c, ins |-> ParsedInputs(c, s.cfg.arg), st |-> "CREATED", outs |-> <<>>,
                                 ctx |-> <<>>, err |-> "-", futs |-> <<NoReply>>,
                                 steps |-> <<>>, origin |-> "new", from |-> NoSnap, by |-> k, mode |-> "none", started |-> FALSE])]

\* saved_state.unbundle(load_context): an instance with the members of the snapshot (Process.load_instance_state: the parsed
\* inputs are those of the snapshot, the empty mapping included); the process future is a saved member
\* too (SavableFuture): the instance recreated from a terminated snapshot carries its outcome
Recreate(s, k, pid, snap) ==
  [s EXCEPT !.procs = Append(@, [pid |-> pid, cls |-> snap.cls, ins |-> snap.ins, st |-> snap.st, outs |-> snap.outs,
                                 ctx |-> snap.ctx, err |-> snap.err,
                                 futs |-> << IF snap.st = "FINISHED" THEN OutReply(snap.outs)
                                             ELSE IF snap.st = "EXCEPTED" THEN ErrReply(snap.err) ELSE NoReply >>,
                                 steps |-> <<>>, origin |-> "loaded", from |-> snap, by |-> k, mode |-> "none", started |-> FALSE])]

\* self._persister.save_checkpoint(proc [, tag])
SaveCheckpoint(s, i, tag) == LET p == s.procs[i] key == <<p.pid, tag>> snap == SnapOf(p, PersisterScheme(s.cfg)) IN
  [s EXCEPT !.store = [x \in DOMAIN s.store \cup {key} |-> IF x = key THEN snap ELSE s.store[x]]]

\* ---- the user code and the hooks around it, as transformers of one instance (OPERATIONAL) ----
Mark(p, name)     == [p EXCEPT !.steps = Append(@, name)]                  \* a step function starts
Emit(p, key, val) == [p EXCEPT !.outs = Append(@, <<key, val>>)]           \* self.out(key, val)
\* Process.on_finish (entering FINISHED): self.future().set_result(self.outputs)
EnterFinished(p) == [p EXCEPT !.st = "FINISHED", !.futs[Len(p.futs)] = OutReply(p.outs)]
\* Process.on_except (entering EXCEPTED): if future.done(): self._future = SavableFuture()     <- a NEW future object
\*                                        self.future().set_exception(exception)
EnterExcepted(p, e) == LET q == IF Future(p).kind # "pending" THEN [p EXCEPT !.futs = Append(@, NoReply)] ELSE p IN
                       [q EXCEPT !.st = "EXCEPTED", !.err = e, !.futs[Len(q.futs)] = ErrReply(e)]
EnterWaiting(p)  == [p EXCEPT !.st = "WAITING"]
\* the stretch that starts in CREATED
Run(p) ==
  CASE p.cls = "Fin"   -> EnterFinished(Emit(Emit(Mark(p, "run"), "v", InVal(p.ins)), "s", "1"))
    [] p.cls = "Exc"   -> EnterExcepted(Emit(Mark(p, "run"), "v", InVal(p.ins)), "Boom")
    [] p.cls = "Wait"  -> EnterWaiting(Emit(Mark(p, "run"), "v", InVal(p.ins)))
    \* Late: FINISHED is entered (on_finish resolves the future), on_finished raises: transition_failed -> EXCEPTED
    [] p.cls = "Late"  -> EnterExcepted(EnterFinished(Emit(Emit(Mark(p, "run"), "v", InVal(p.ins)), "s", "1")), "StoreFail")
    \* Chain: self.ctx.setdefault('items', []).append('item'); then self.out('n', len(self.ctx.items))
    \* Opt: self.out('v', self.inputs.get('v', 1)); self.out('g', 'v' in self.inputs)
    [] p.cls = "Opt"   -> EnterFinished(Emit(Emit(Mark(p, "run"), "v", InVal(p.ins)), "g", Given(p.ins)))
    [] p.cls = "Chain" -> LET g == [Mark(p, "gather") EXCEPT !.ctx = Append(@, "item")] IN
                          EnterFinished(Emit(Emit(Mark(g, "report"), "v", InVal(p.ins)), "n", Str(Len(g.ctx))))
\* the continuation of the Wait command (class Wait)
After(p) == EnterFinished(Emit(Mark(p, "after"), "s", "2"))

\* one synchronous stretch of proc.step_until_terminated(): user steps run until the process blocks or terminates
RunInst(s, i) == IF s.procs[i].st = "CREATED" THEN [s EXCEPT !.procs[i] = Run(@)] ELSE s   \* WAITING: blocked; terminated: nothing to do

\* `return proc.future().result()` once step_until_terminated() has returned inside the task's coroutine
Settle(s, i) == LET p == s.procs[i] IN
  IF p.mode = "inline" /\ Terminal(p.st) /\ s.replies[p.by].kind = "pending" THEN SetReply(s, p.by, Future(p)) ELSE s

\* nowait: asyncio.ensure_future(proc.step_until_terminated()); return proc.pid
Schedule(s, i) == [s EXCEPT !.procs[i].mode = "task"]
\* else: await proc.step_until_terminated(); return proc.future().result()
Await(s, i) == Settle(RunInst([s EXCEPT !.procs[i].mode = "inline", !.procs[i].started = TRUE], i), i)

\* raise communications.TaskRejected
Rejected(s, k) == SetReply(s, k, RejectedReply)
\* any other exception leaving the coroutine
Failed(s, k, e) == SetReply(s, k, ErrReply(e))

(* ----------------------------------------------------------------------------------------------- *)
(* ProcessLauncher, clause by clause                                                                *)
(* ----------------------------------------------------------------------------------------------- *)
\* _launch(self, _communicator, process_class, persist, nowait, init_args=None, init_kwargs=None)
Launch(s, k, t) ==
  \* if persist and not self._persister: raise TaskRejected('Cannot persist process, no persister')
  IF t.persist /\ ~s.cfg.hasP THEN Rejected(s, k)
  ELSE
    \* proc_class = self._loader.load_object(process_class)
    LET s1 == LoadObject(s, k, LauncherLoader(s.cfg), SenderScheme(s.cfg), t.cls) IN
    IF ~Resolves(LauncherLoader(s.cfg), SenderScheme(s.cfg)) THEN Failed(s1, k, "ValueError")
    \* proc = proc_class(*init_args, **init_kwargs)      (invalid inputs: the constructor raises)
    ELSE IF s.cfg.arg = "bad" THEN Failed(s1, k, "ValueError")
    ELSE
      LET s2 == Construct(s1, k, t.cls)
          i  == Len(s2.procs)
          \* if persist and self._persister is not None: self._persister.save_checkpoint(proc)
          s3 == IF t.persist /\ s.cfg.hasP THEN SaveCheckpoint(s2, i, "None") ELSE s2
      IN
      \* if nowait: asyncio.ensure_future(proc.step_until_terminated()); return proc.pid
      IF t.nowait THEN SetReply(Schedule(s3, i), k, PidReply(s3.procs[i].pid))
      \* await proc.step_until_terminated(); return proc.future().result()
      ELSE Await(s3, i)

\* _continue(self, _communicator, pid, nowait, tag=None)
Continue(s, k, t) ==
  \* if not self._persister: raise TaskRejected('Cannot continue process, no persister')
  IF ~s.cfg.hasP THEN Rejected(s, k)
  \* saved_state = self._persister.load_checkpoint(pid, tag)       (a missing checkpoint: the persister's exception bubbles up)
  ELSE IF <<t.pid, t.tag>> \notin DOMAIN s.store THEN Failed(s, k, "NoCheckpoint")
  ELSE
    LET snap == s.store[<<t.pid, t.tag>>]
        \* proc = saved_state.unbundle(self._load_context): the class name of the bundle goes through the context's loader
        s1 == LoadObject(s, k, ContextLoader(s.cfg), snap.name, snap.cls)
    IN
    IF ~Resolves(ContextLoader(s.cfg), snap.name) THEN Failed(s1, k, "ValueError")
    ELSE
      LET s2 == Recreate(s1, k, t.pid, snap)
          i  == Len(s2.procs)
      IN
      \* if nowait: asyncio.ensure_future(proc.step_until_terminated()); return proc.pid
      IF t.nowait THEN SetReply(Schedule(s2, i), k, PidReply(t.pid))
      \* await proc.step_until_terminated(); return proc.future().result()
      ELSE Await(s2, i)

\* _create(self, _communicator, process_class, persist, init_args=None, init_kwargs=None)
Create(s, k, t) ==
  \* if persist and not self._persister: raise TaskRejected('Cannot persist process, no persister')
  IF t.persist /\ ~s.cfg.hasP THEN Rejected(s, k)
  ELSE
    \* proc_class = self._loader.load_object(process_class)
    LET s1 == LoadObject(s, k, LauncherLoader(s.cfg), SenderScheme(s.cfg), t.cls) IN
    IF ~Resolves(LauncherLoader(s.cfg), SenderScheme(s.cfg)) THEN Failed(s1, k, "ValueError")
    \* proc = proc_class(*init_args, **init_kwargs)
    ELSE IF s.cfg.arg = "bad" THEN Failed(s1, k, "ValueError")
    ELSE
      LET s2 == Construct(s1, k, t.cls)
          i  == Len(s2.procs)
          \* if persist and self._persister is not None: self._persister.save_checkpoint(proc)
          s3 == IF t.persist /\ s.cfg.hasP THEN SaveCheckpoint(s2, i, "None") ELSE s2
      IN
      \* return proc.pid
      SetReply(s3, k, PidReply(s3.procs[i].pid))

\* __call__(self, communicator, task)
Call(s, k, t) ==
  \* task_type = task[TASK_KEY]
  IF t.type = "launch" THEN Launch(s, k, t)                     \* if task_type == LAUNCH_TASK: return await self._launch(...)
  ELSE IF t.type = "continue" THEN Continue(s, k, t)            \* if task_type == CONTINUE_TASK: return await self._continue(...)
  ELSE IF t.type = "create" THEN Create(s, k, t)                \* if task_type == CREATE_TASK: return await self._create(...)
  ELSE Rejected(s, k)                                           \* raise communications.TaskRejected

(* ----------------------------------------------------------------------------------------------- *)
(* the event loop and the environment                                                               *)
(* ----------------------------------------------------------------------------------------------- *)
Unstarted(s) == {i \in 1..Len(s.procs) : s.procs[i].mode = "task" /\ ~s.procs[i].started}
\* the loop runs until it is idle: every stepping task created by ensure_future starts, in creation order
RECURSIVE RunAll(_, _)
RunAll(s, todo) ==
  IF todo = {} THEN s
  ELSE LET i == CHOOSE j \in todo : \A m \in todo : j <= m IN
       RunAll(RunInst([s EXCEPT !.procs[i].started = TRUE], i), todo \ {i})
Drain(s) == RunAll(s, Unstarted(s))

\* proc.resume(): the continuation of the Wait command runs (here: to the end of the process)
Resumable(s) == {i \in 1..Len(s.procs) : s.procs[i].st = "WAITING" /\ s.procs[i].mode # "none"}
Resume(s, i) == Settle([s EXCEPT !.procs[i] = After(@)], i)

(* ----------------------------------------------------------------------------------------------- *)
(* actions                                                                                          *)
(* ----------------------------------------------------------------------------------------------- *)
NoTask == [type |-> "-", cls |-> "-", persist |-> FALSE, nowait |-> FALSE, pid |-> 0, tag |-> "-"]
Last(op, i, g) == [op |-> op, i |-> i, g |-> g]

Init == \E cfg \in Configs :
  S = [cfg |-> cfg, store |-> <<>>, procs |-> <<>>, npid |-> 0, tasks |-> <<>>, replies |-> <<>>, log |-> <<>>,
       nsaves |-> 0, last |-> Last("init", 0, "-"), dev |-> {}]

Send(t) ==
  /\ Len(S.tasks) < MaxTasks
  /\ LET k == Len(S.tasks) + 1 IN
     S' = Call([S EXCEPT !.tasks = Append(@, t), !.replies = Append(@, NoReply), !.last = Last("task", k, "-")], k, t)

SendCreate(c, persist)         == Send([NoTask EXCEPT !.type = "create", !.cls = c, !.persist = persist])
SendLaunch(c, persist, nowait) == Send([NoTask EXCEPT !.type = "launch", !.cls = c, !.persist = persist, !.nowait = nowait])
\* pid 0 stands for a pid no process ever had
SendContinue(p, tag, nowait)   == Send([NoTask EXCEPT !.type = "continue", !.pid = p, !.tag = tag, !.nowait = nowait])
SendUnknown                    == Send([NoTask EXCEPT !.type = "unknown"])

RunLoop ==
  /\ Unstarted(S) # {}
  /\ S' = [Drain(S) EXCEPT !.last = Last("runloop", 0, "-")]

EnvResume(i) ==
  /\ i \in Resumable(S)
  /\ S' = [Drain(Resume(S, i)) EXCEPT !.last = Last("resume", i, "-")]

EnvSave(i, g) ==
  /\ S.cfg.hasP
  /\ S.nsaves < MaxSaves
  /\ i \in 1..Len(S.procs)
  /\ S' = [SaveCheckpoint(S, i, g) EXCEPT !.nsaves = @ + 1, !.last = Last("save", i, g)]

Next ==
  \/ \E c \in Classes, persist \in BOOLEAN : SendCreate(c, persist)
  \/ \E c \in Classes, persist \in BOOLEAN, nowait \in BOOLEAN : SendLaunch(c, persist, nowait)
  \/ \E p \in 0..S.npid, tag \in Tags, nowait \in BOOLEAN : SendContinue(p, tag, nowait)
  \/ SendUnknown
  \/ RunLoop
  \/ \E i \in 1..Len(S.procs) : EnvResume(i)
  \/ \E i \in 1..Len(S.procs), g \in Tags : EnvSave(i, g)

Spec == Init /\ [][Next]_vars

(* ----------------------------------------------------------------------------------------------- *)
(* DECLARATIVE: the property                                                                        *)
(* ----------------------------------------------------------------------------------------------- *)
\* asserted unless the behaviour exercised as-written defective clauses that are ALL listed known findings
Asserted(s) == ~(s.dev # {} /\ s.dev \subseteq Known)
NoUnlistedDeviation == S.dev \subseteq Known

\* a step that sends task k (the only steps that lengthen S.tasks)
Sent     == Len(S'.tasks) = Len(S.tasks) + 1
NewK     == Len(S'.tasks)
NewT     == S'.tasks[NewK]
NewReply == S'.replies[NewK]
\* exactly one instance appeared, the others are as they were
OneNew   == Len(S'.procs) = Len(S.procs) + 1 /\ SubSeq(S'.procs, 1, Len(S.procs)) = S.procs
NewP     == S'.procs[Len(S'.procs)]
Pids(s)  == {s.procs[i].pid : i \in 1..Len(s.procs)}
OthersReplies == SubSeq(S'.replies, 1, Len(S.replies)) = S.replies

\* what cannot be honoured
MustReject(t, cfg) == \/ t.type \notin {"create", "launch", "continue"}
                      \/ t.type \in {"create", "launch"} /\ t.persist /\ ~cfg.hasP
                      \/ t.type = "continue" /\ ~cfg.hasP
Constructible(cfg) == cfg.arg # "bad"
With(st, key, snap) == [x \in DOMAIN st \cup {key} |-> IF x = key THEN snap ELSE st[x]]
CreatedSnap(c, cfg) == [NoSnap EXCEPT !.cls = c, !.name = PersisterScheme(cfg), !.st = "CREATED", !.ins = ParsedInputs(c, cfg.arg)]

\* RejectOK: rejected exactly when the task cannot be honoured, and then nothing is constructed, persisted, resolved or run
RejectOK == [][Sent /\ Asserted(S') =>
    /\ (MustReject(NewT, S.cfg) <=> NewReply.kind = "rejected")
    /\ NewReply.kind = "rejected" => /\ S'.procs = S.procs /\ S'.store = S.store /\ S'.log = S.log /\ S'.npid = S.npid
                                     /\ NewReply = RejectedReply /\ OthersReplies]_vars

\* CreateOK: constructed, persisted iff asked (state CREATED in the store), pid returned, not run - now ...
CreateOK == [][Sent /\ Asserted(S') /\ NewT.type = "create" /\ ~MustReject(NewT, S.cfg) =>
    IF Constructible(S.cfg)
    THEN /\ OneNew /\ OthersReplies
         /\ NewP.cls = NewT.cls /\ NewP.origin = "new" /\ NewP.pid \notin Pids(S) /\ NewP.pid # 0
         /\ NewP.st = "CREATED" /\ NewP.steps = <<>> /\ NewP.outs = <<>> /\ NewP.ctx = <<>> /\ NewP.mode = "none"
         /\ NewReply = PidReply(NewP.pid)
         /\ S'.store = IF NewT.persist THEN With(S.store, <<NewP.pid, "None">>, CreatedSnap(NewT.cls, S.cfg)) ELSE S.store
    ELSE /\ S'.procs = S.procs /\ S'.store = S.store /\ NewReply = ErrReply("ValueError") /\ OthersReplies]_vars
\* ... nor later: nothing the loop or the environment does makes a created process run
CreatedNeverRuns == Asserted(S) =>
    \A i \in 1..Len(S.procs) : S.tasks[S.procs[i].by].type = "create" => S.procs[i].steps = <<>> /\ S.procs[i].st = "CREATED"

\* LaunchOK: a fresh instance, persisted first (as CREATED) when asked, started
LaunchOK == [][Sent /\ Asserted(S') /\ NewT.type = "launch" /\ ~MustReject(NewT, S.cfg) =>
    IF Constructible(S.cfg)
    THEN /\ OneNew /\ OthersReplies
         /\ NewP.cls = NewT.cls /\ NewP.origin = "new" /\ NewP.pid \notin Pids(S) /\ NewP.pid # 0
         /\ S'.store = IF NewT.persist THEN With(S.store, <<NewP.pid, "None">>, CreatedSnap(NewT.cls, S.cfg)) ELSE S.store
         /\ NewP.mode # "none"
    ELSE /\ S'.procs = S.procs /\ S'.store = S.store /\ NewReply = ErrReply("ValueError") /\ OthersReplies]_vars

\* ContinueOK: the instance that runs is exactly store[pid, tag] as it was when the task arrived
ContinueOK == [][Sent /\ Asserted(S') /\ NewT.type = "continue" /\ ~MustReject(NewT, S.cfg) =>
    /\ S'.store = S.store /\ OthersReplies
    /\ IF <<NewT.pid, NewT.tag>> \in DOMAIN S.store
       THEN LET snap == S.store[<<NewT.pid, NewT.tag>>] IN
            /\ OneNew
            /\ NewP.origin = "loaded" /\ NewP.from = snap /\ NewP.pid = NewT.pid /\ NewP.cls = snap.cls /\ NewP.ins = snap.ins
            /\ NewP.mode # "none"
       ELSE S'.procs = S.procs /\ NewReply = ErrReply("NoCheckpoint")]_vars

\* every instance, fresh or loaded, is somewhere on the trajectory of its class, having executed exactly the steps between
\* its starting point (CREATED, or the snapshot it was loaded from) and where it is
RECURSIVE Cat(_, _, _)
Cat(ss, a, b) == IF a > b THEN <<>> ELSE ss[a] \o Cat(ss, a + 1, b)
OnTrajectory(p) ==
  LET tr == Traj(p.cls, p.ins)
      start == IF p.origin = "new" THEN tr[1] ELSE Pt(p.from.st, p.from.outs, p.from.ctx, p.from.err)
  IN \E a \in 1..Len(tr), b \in 1..Len(tr) :
        /\ a <= b /\ tr[a] = start /\ tr[b] = Pt(p.st, p.outs, p.ctx, p.err)
        /\ p.steps = Cat(EdgeSteps(p.cls), a, b - 1)
StartedFromSnapshot == Asserted(S) => \A i \in 1..Len(S.procs) : OnTrajectory(S.procs[i])

\* InputsKept: every instance - constructed by a create / launch task or recreated by a continue task from whatever checkpoint -
\* and every checkpoint carries the parsed inputs of the construction (all constructions of a history use the same arguments):
\* what the user code reads in self.inputs is the same mapping before and after persisting, the empty one included
InputsKept == Asserted(S) =>
    /\ \A i \in 1..Len(S.procs) : S.procs[i].ins = ParsedInputs(S.procs[i].cls, S.cfg.arg)
    /\ \A key \in DOMAIN S.store : S.store[key].ins = ParsedInputs(S.store[key].cls, S.cfg.arg)

\* launched and continued processes reach termination: none is left behind unstarted without a pending turn of the loop, and
\* the only thing a live one can be waiting for is the environment's resume
ReachTermination == Asserted(S) =>
    \A i \in 1..Len(S.procs) : LET p == S.procs[i] IN S.tasks[p.by].type \in {"launch", "continue"} =>
        \/ Terminal(p.st)
        \/ p.st = "WAITING" /\ i \in Resumable(S) /\ (p.started \/ i \in Unstarted(S))
        \/ p.st = "CREATED" /\ i \in Unstarted(S)

\* NowaitReply: with nowait the reply is the pid, at once, and nothing of the process has run yet
NowaitReply == [][Sent /\ Asserted(S') /\ NewT.type \in {"launch", "continue"} /\ NewT.nowait /\ Len(S'.procs) > Len(S.procs) =>
    /\ NewReply = PidReply(NewP.pid)
    /\ NewP.steps = <<>> /\ ~NewP.started
    /\ NewP.origin = "loaded" => NewP.st = NewP.from.st /\ NewP.outs = NewP.from.outs]_vars

\* the outcome of a terminated process: its outputs if it ended FINISHED, else the error it ended with
Outcome(p) == IF p.st = "FINISHED" THEN OutReply(p.outs) ELSE ErrReply(ErrOf(p.cls))
\* whatever futures the process went through, the current one carries the outcome (and is pending while it lives)
FutureIsOutcome == Asserted(S) => \A i \in 1..Len(S.procs) : LET p == S.procs[i] IN
    Future(p) = IF Terminal(p.st) THEN Outcome(p) ELSE NoReply
\* WaitingReply: without nowait the reply is the outputs or the error of the terminated process, and is pending exactly while
\* that process is waiting for the environment
WaitingReply == Asserted(S) =>
    \A k \in 1..Len(S.tasks) : LET t == S.tasks[k] r == S.replies[k] IN
      t.type \in {"launch", "continue"} /\ ~t.nowait /\ r.kind \notin {"rejected"} /\ ~(r.kind = "error" /\ r.err \notin ProcessErrors) =>
        \E i \in 1..Len(S.procs) : LET p == S.procs[i] IN
          /\ p.by = k
          /\ IF Terminal(p.st) THEN r = Outcome(p) ELSE r = NoReply /\ p.st = "WAITING"
\* a reply, once given, never changes
RepliesStable == [][\A k \in 1..Len(S.replies) : S.replies[k].kind # "pending" => S'.replies[k] = S.replies[k]]_vars

\* LoaderUsed: the configured loader, and no other, resolved every class name: the sender's name for create/launch, the
\* name in the checkpoint for continue; one resolution per honoured task
LoaderUsed ==
  /\ Asserted(S) => \A j \in 1..Len(S.log) : S.log[j].loader = S.cfg.loader
  /\ Asserted(S) => \A k \in 1..Len(S.tasks) : LET t == S.tasks[k] es == {j \in 1..Len(S.log) : S.log[j].task = k} IN
       IF S.replies[k].kind = "rejected" \/ (S.replies[k].kind = "error" /\ S.replies[k].err = "NoCheckpoint") THEN es = {}
       ELSE /\ Cardinality(es) = 1
            /\ \A j \in es : t.type \in {"create", "launch"} => S.log[j].cls = t.cls /\ S.log[j].name = SenderScheme(S.cfg)
\* in the configurations explored every name can be resolved by the configured loader
NoLoaderFailure == Asserted(S) => \A k \in 1..Len(S.replies) : ~(S.replies[k].kind = "error" /\ S.replies[k].err = "ValueError"
                                                                 /\ Constructible(S.cfg))

\* the store only changes by what was asked for: persist flags and the environment's saves (checked stepwise above for
\* tasks); the loop and resume never write - in particular a process that runs on after it was persisted (its context
\* grows, it terminates) leaves its checkpoints as they were
LoopNeverPersists == [][~Sent /\ S'.last.op # "save" => S'.store = S.store]_vars

TypeOK ==
  /\ S.cfg \in Configs
  /\ \A key \in DOMAIN S.store : key[1] \in 1..S.npid /\ key[2] \in Tags
  /\ Len(S.replies) = Len(S.tasks) /\ Len(S.tasks) <= MaxTasks
  /\ \A i \in 1..Len(S.procs) : S.procs[i].by \in 1..Len(S.tasks)
=============================================================================
