-------------------------------- MODULE Scope --------------------------------
(***************************************************************************************************)
(* C18 - "Process.current() is the process whose code is running".                                 *)
(*                                                                                                 *)
(* Anchors: src/plumpy/processes.py  PROCESS_STACK (ContextVar, default = one shared list []),     *)
(* Process.current, Process._process_scope (copy / append / set ... copy / pop / set),             *)
(* Process._run_task, Process.call_soon + events.ProcessCallback.run, Process.step (only           *)
(* self._state.execute runs inside _run_task; the transition / interrupt action at the end of the  *)
(* step run after the scope was left), Process.launch, Process.execute (re-entrant                 *)
(* run_until_complete, nest_asyncio), Process.kill / pause / _do_pause / play,                     *)
(* base/state_machine.py transition_to (exit hooks, entering hook, entered hook + listeners, and   *)
(* for a terminal state the direct call of on_terminated), Process.on_terminated -> close() ->     *)
(* on_close -> the callbacks registered with add_cleanup.                                          *)
(*                                                                                                 *)
(* contextvars + asyncio: a Task runs every one of its steps in ONE context, a copy of the context *)
(* that was current when the task was created; ContextVar.set is visible in the current context    *)
(* only (and in copies made later); a context in which the variable was never set reads the        *)
(* default OBJECT, which all such contexts share.                                                  *)
(*                                                                                                 *)
(* One TLA+ action = one event-loop callback (RunHandle) or one call made by the environment.      *)
(* Python methods are operators over the state record returning the new record.  A clause guarded  *)
(* by "F18" \in Fixes is the repaired behaviour, its ELSE branch the code as written; samples      *)
(* taken where the as-written clause was exercised carry the deviation identifier "D18".           *)
(* "F18c" / "D18c": the same pair for the user's own close() (UserClose).                          *)
(*                                                                                                 *)
(* Two loop disciplines (scenario field mode):                                                     *)
(*   "any"  - the harness owns the loop (harness/vloop.py) and acts between any two callbacks,     *)
(*            from the main context; no re-entrant loop runs;                                      *)
(*   "idle" - the real (nest_asyncio-patched) loop: callbacks run in batches (_run_once),          *)
(*            execute() inside a step opens an inner run whose batches run the other ready         *)
(*            handles, and the environment is a driver task that acts whenever it finds the ready  *)
(*            queue otherwise empty (and the innermost run not about to return).                   *)
(***************************************************************************************************)
EXTENDS Naturals, Sequences, FiniteSets, TLC

CONSTANTS
  Scens,       \* <<[name, mode, early, procs, nfut, soon]>>; one scenario per behaviour (chosen in Init)
               \*   procs[i] = [role: "top" | "sub", steps: <<[ops: <<[op, arg]>>, end: "stop" | "cont" | "wait"]>>, ctl: SUBSET {"kill","pause","close"},
               \*               cl: number of cleanup callbacks the process registers (add_cleanup) when it is constructed]
               \*   op (record [op, arg, x]): "aw" f (await external future f) | "launch" c | "nest" q (Q().execute())
               \*     | "soon" k (self.call_soon(cb); k=1: cb raises; x # 0: cb is a coroutine that awaits future x)
               \*     | "osoon" X (X.call_soon(cb) on ANOTHER process X, typically the one that launched / executes this one; x as above)
               \*     | "addcl" (self.add_cleanup(cb): one more cleanup callback, registered from the step)
               \*     | "ofail" X (X.fail(exc, None)) | "okill" X (X.kill()) | "opause" X (X.pause()): control of another process from this step
               \*   soon: processes on which the environment calls call_soon once; early: futures may be completed before they are awaited
  Fixes,       \* repairs the implementation under test contains
  Deviations   \* deviation identifiers of the listed known findings (the as-written clauses that are tolerated)

VARIABLE S
vars == <<S>>

Terminal == {"FINISHED", "EXCEPTED", "KILLED"}
Live     == {"CREATED", "RUNNING", "WAITING"}
None     == 0          \* Process.current() is None / a noise handle / no process

Sc(s)       == Scens[s.sc]
Mode(s)     == Sc(s).mode
Prog(s, p)  == Sc(s).procs[p].steps
Front(q)    == SubSeq(q, 1, Len(q) - 1)
Bad(s, b)   == [s EXCEPT !.bad = @ \cup {b}]

(* ----------------------------------------------------------------------------------------------- *)
(* contexts and the process stack variable                                                         *)
(* ----------------------------------------------------------------------------------------------- *)
CurCtx(s) == s.cur[Len(s.cur)]                                      \* the context the running code is in
Val(s, c) == IF s.ctx[c].set THEN s.ctx[c].val ELSE s.deflt          \* PROCESS_STACK.get() in context c
Get(s)    == Val(s, CurCtx(s))
Top(s)    == IF Get(s) = <<>> THEN None ELSE Get(s)[Len(Get(s))]     \* Process.current()
SetVar(s, v) == [s EXCEPT !.ctx[CurCtx(s)] = [set |-> TRUE, val |-> v]]   \* PROCESS_STACK.set(v)

\* _process_scope, entry: stack_copy = get().copy(); stack_copy.append(self); set(stack_copy)
Push(s, p) == SetVar(s, Append(Get(s), p))
\* _process_scope, exit (finally): assert current() is self; stack_copy = get().copy(); stack_copy.pop(); set(stack_copy)
Pop(s, p) ==
  LET s1 == IF Top(s) # p THEN Bad(s, "assert") ELSE s
  IN IF Get(s) = <<>> THEN Bad(s1, "pop-empty") ELSE SetVar(s1, Front(Get(s)))

\* user code of process p runs here and looks at Process.current()
Sample(s, pt, p, dev) == [s EXCEPT !.log = Append(@, [pt |-> pt, p |-> p, obs |-> Top(s), dev |-> dev])]

\* D18 / F18: hooks and listener callbacks of transitions, _do_pause and play run outside any scope of their process
InScope == "F18" \in Fixes
Hook(s, p, pt) == Sample(s, pt, p, IF InScope THEN "-" ELSE "D18")
Scoped(s, p, Op(_)) == IF InScope THEN Pop(Op(Push(s, p)), p) ELSE Op(s)

(* ----------------------------------------------------------------------------------------------- *)
(* tasks                                                                                           *)
(* ----------------------------------------------------------------------------------------------- *)
\* loop.create_task(coro): the task's context is a copy of the current one; its first step is scheduled
NewTaskF(s, kind, p, arg, f) ==
  LET c == Len(s.ctx) + 1
      t == Len(s.tasks) + 1
  IN [s EXCEPT !.ctx   = Append(@, s.ctx[CurCtx(s)]),
               !.tasks = Append(@, [kind |-> kind, p |-> p, arg |-> arg, c |-> c, start |-> Get(s), done |-> FALSE,
                                    f |-> f, at |-> "new", exc |-> "-"]),   \* exc: the exception the task ends with; f, at: the future a coroutine callback awaits / where it is
               !.ready = Append(@, t),
               !.procs = IF kind = "proc" THEN [@ EXCEPT ![p].task = t] ELSE @]

NewTask(s, kind, p, arg) == NewTaskF(s, kind, p, arg, 0)

Wake(s, p) == [s EXCEPT !.ready = Append(@, s.procs[p].task)]        \* future done-callback: task.__wakeup is scheduled

(* ----------------------------------------------------------------------------------------------- *)
(* transitions (state_machine.transition_to + Process.on_entering / on_entered / on_exiting)       *)
(* ----------------------------------------------------------------------------------------------- *)
ExitHooks(s, p) ==
  LET st == s.procs[p].st
  IN IF st = "RUNNING" THEN Hook(s, p, "on_exit_running")
     ELSE IF st = "WAITING" THEN Hook(s, p, "on_exit_waiting") ELSE s

Entering(s, p, new) ==
  CASE new = "CREATED"  -> Hook(s, p, "on_create")
    [] new = "RUNNING"  -> Hook(s, p, "on_run")
    [] new = "WAITING"  -> Hook(s, p, "on_wait")
    [] new = "FINISHED" -> Hook(s, p, "on_finish")
    [] new = "KILLED"   -> Hook(s, p, "on_kill")
    [] new = "EXCEPTED" -> Hook(s, p, "on_except")

Entered(s, p, new) ==
  CASE new = "CREATED"  -> s
    [] new = "RUNNING"  -> Hook(Hook(s, p, "on_running"), p, "L_running")
    [] new = "WAITING"  -> Hook(Hook(s, p, "on_waiting"), p, "L_waiting")
    [] new = "FINISHED" -> Hook(Hook(s, p, "on_finished"), p, "L_finished")
    [] new = "KILLED"   -> Hook(Hook(s, p, "on_killed"), p, "L_killed")
    [] new = "EXCEPTED" -> Hook(Hook(s, p, "on_excepted"), p, "L_excepted")

\* Process.close(): nothing on a closed process; else on_close, which runs the callbacks registered with add_cleanup in
\* the order of their registration (each is code of the process like a hook: it samples) and marks the process closed
RECURSIVE Cleanups(_, _, _, _)
Cleanups(s, p, k, dev) ==
  IF k > s.procs[p].ncl THEN s ELSE Cleanups(Sample(s, "cleanup" \o ToString(k), p, dev), p, k + 1, dev)

CloseW(s, p, dev) ==
  IF s.procs[p].closed THEN s
  ELSE [Cleanups(Sample(s, "on_close", p, dev), p, 1, dev) EXCEPT !.procs[p].closed = TRUE, !.procs[p].ncl = 0]

\* close() reached from on_terminated: inside whatever scope the transition runs in
CloseProc(s, p) == CloseW(s, p, IF InScope THEN "-" ELSE "D18")

\* close() called by the user on a live process (from outside, or from another process's step).  As written it is a plain
\* call: on_close and the cleanup callbacks run in the CALLER's scope (deviation "D18c"); "F18c" \in Fixes: inside the
\* scope of the process, like the hooks of kill() / pause() / play().  The process keeps its own lifecycle hooks and its
\* listeners, a step in flight goes on (with the transition at its end); the next step() raises ClosedError.
UserClose(s, p) ==
  LET s1 == [s EXCEPT !.kctl[p] = @ \ {"close"}]
  IN IF "F18c" \in Fixes THEN Pop(CloseW(Push(s1, p), p, "-"), p) ELSE CloseW(s1, p, "D18c")

\* the last hook of a transition into a terminal state: StateMachine.transition_to calls on_terminated directly (it is
\* not a state event); Process.on_terminated closes the process.  An override samples on entry and after super() returned
OnTerminated(s, p) == Hook(CloseProc(Hook(s, p, "on_terminated"), p), p, "on_terminated.1")

Trans(s, p, new) ==
  LET s1 == Entering(ExitHooks(s, p), p, new)
      \* on_finish / on_kill / on_except resolve the process future: its try_killing done-callback is scheduled (a handle
      \* without user code, "noise", written 0 in the ready queue)
      s2 == IF new \in Terminal THEN [s1 EXCEPT !.ready = Append(@, None)] ELSE s1
      s3 == [s2 EXCEPT !.procs[p].st = new, !.procs[p].wf = IF new = "WAITING" THEN "pending" ELSE "none"]
      s4 == Entered(s3, p, new)
  IN IF new \in Terminal THEN OnTerminated(s4, p) ELSE s4

\* as written: StateMachine.transition_to, called after _run_task left the scope or from a control call.
\* F18: Process.transition_to = with self._process_scope(): super().transition_to(...)  - the whole transition, with
\* on_terminated / close() / on_close / the cleanup callbacks of a terminal one
TransitionTo(s, p, new) == Scoped(s, p, LAMBDA x : Trans(x, p, new))

\* Process._do_pause(state_msg, next_state)
DoPause(s, p, next) ==
  LET s1 == IF next = "NONE" THEN s ELSE TransitionTo(s, p, next)
      s2 == Scoped(s1, p, LAMBDA x : Hook(Hook(Hook(x, p, "on_pausing"), p, "on_paused"), p, "L_paused"))
  IN [s2 EXCEPT !.procs[p].paused = TRUE]

\* Process.play() on a paused process: on_playing resolves the paused future (the task blocked on it is woken)
Play(s, p) ==
  LET s1 == Scoped(s, p, LAMBDA x : Hook(Hook(x, p, "on_playing"), p, "L_played"))
      s2 == [s1 EXCEPT !.procs[p].paused = FALSE]
  IN IF s2.procs[p].at = "pz" THEN Wake(s2, p) ELSE s2

\* the metaclass: inst.transition_to(inst.create_initial_state()) in the constructor's caller's context
Construct(s, q) == TransitionTo(s, q, "CREATED")

(* ----------------------------------------------------------------------------------------------- *)
(* the coroutine step_until_terminated / step of one process                                       *)
(* ----------------------------------------------------------------------------------------------- *)
Pt(si, k) == "b" \o ToString(si) \o "." \o ToString(k)       \* body of step function si after k operations
NextLabel(end) == CASE end = "stop" -> "FINISHED" [] end = "cont" -> "RUNNING" [] end = "wait" -> "WAITING"

\* the rest of step() once self._state.execute has returned `next` (or raised an Interruption: next = "NONE")
EndStep(s, p, next) ==
  LET s1  == Pop(s, p)                                            \* leaving `with self._process_scope()` of _run_task
      P   == s1.procs[p]
      adv == P.st = "RUNNING" /\ next \in {"RUNNING", "WAITING"}  \* Continue(f) / Wait(f): f is the next step function
      s2  == IF adv THEN [s1 EXCEPT !.procs[p].si = @ + 1] ELSE s1
      s3  == IF P.st \in Terminal THEN s2                         \* failed by a raising callback while the step was in flight
             ELSE IF P.intr = "kill" THEN TransitionTo(s2, p, "KILLED")         \* self._interrupt_action.run(next_state)
             ELSE IF P.intr = "pause" THEN DoPause(s2, p, next)
             ELSE IF next = "NONE" THEN s2
             ELSE TransitionTo(s2, p, next)
  IN [s3 EXCEPT !.procs[p].stepping = FALSE, !.procs[p].intr = "none", !.procs[p].at = "top", !.procs[p].oi = 1]

AfterOp(s, p) ==
  LET P == s.procs[p]
  IN Sample([s EXCEPT !.procs[p].at = "body", !.procs[p].oi = P.oi + 1], Pt(P.si, P.oi), p, "-")

\* self.launch(C): constructor (CREATED entered in the caller's context), then loop.create_task(child.step_until_terminated())
Launch(s, c) == NewTask(Construct(s, c), "proc", c, 0)

\* Q().execute(): loop.run_until_complete(q.step_until_terminated()) - ensure_future in the current context, then an inner
\* run: batches of len(ready) handles until the task is done
OpenNest(s, p, q) ==
  LET s1 == NewTask(Construct(s, q), "proc", q, 0)
  IN [s1 EXCEPT !.procs[p].at = "nest",
                !.lv = Append(@, [rem |-> Len(s1.ready), wait |-> q, caller |-> p, saved |-> Get(s)])]

Awaiting(s, p, f) ==
  LET P == s.procs[p] IN P.at = "aw" /\ Prog(s, p)[P.si].ops[P.oi].op = "aw" /\ Prog(s, p)[P.si].ops[P.oi].arg = f

CbAwaiting(s, t, f) == s.tasks[t].kind = "cb" /\ s.tasks[t].at = "aw" /\ s.tasks[t].f = f

\* (each future of a scenario has one awaiter)
Complete(s, f) ==
  LET s1 == [s EXCEPT !.futs[f] = "done"]
      ws == {p \in 1..Len(s.procs) : Awaiting(s, p, f)}
      cs == {t \in 1..Len(s.tasks) : CbAwaiting(s, t, f)}
  IN IF ws # {} THEN Wake(s1, CHOOSE p \in ws : TRUE)
     ELSE IF cs # {} THEN [s1 EXCEPT !.ready = Append(@, CHOOSE t \in cs : TRUE)]
     ELSE s1

\* state.interrupt(exc): Running.interrupt does nothing, Waiting.interrupt fails the waiting future
Interrupt(s, p) ==
  IF s.procs[p].at = "wf" /\ s.procs[p].wf = "pending" THEN Wake([s EXCEPT !.procs[p].wf = "exc"], p) ELSE s

Kill(s, p) ==
  LET s1 == [s EXCEPT !.kctl[p] = @ \ {"kill"}]
  IN IF s.procs[p].stepping THEN Interrupt([s1 EXCEPT !.procs[p].intr = "kill"], p)
     ELSE TransitionTo(s1, p, "KILLED")

Pause(s, p) ==
  LET s1 == [s EXCEPT !.kctl[p] = @ \ {"pause"}]
  IN IF s.procs[p].stepping THEN Interrupt([s1 EXCEPT !.procs[p].intr = "pause"], p)
     ELSE DoPause(s1, p, "NONE")

\* Process.fail(exc, None): a transition to EXCEPTED in the caller's context (not offered on a terminated process)
Fail(s, p) == IF s.procs[p].st \in Terminal THEN Bad(s, "fail-on-terminated") ELSE TransitionTo(s, p, "EXCEPTED")

\* kill() / pause() of process p called from another process's step: refused on a terminated process (returns False);
\* histories that would enter the control protocol's own findings are scenario design errors (WellFormed)
OtherCtl(s, p, kind) ==
  LET P == s.procs[p] IN
  IF P.st \in Terminal THEN s
  ELSE IF P.st \in Live /\ P.intr = "none" /\ ~P.paused /\ ~(P.at = "wf" /\ P.wf # "pending") /\ P.at \in {"new", "aw", "wf", "nest"}
       THEN (IF kind = "kill" THEN Kill(s, p) ELSE Pause(s, p))
       ELSE Bad(s, "unsupported-ctl")

RECURSIVE Go(_, _)
\* run p's coroutine from where it is until it blocks, opens an inner loop run, or returns
Go(s, p) ==
  LET P == s.procs[p] IN
  CASE P.at \in {"new", "top"} ->                                  \* while not self.has_terminated(): await self.step()
         IF P.st \in Terminal THEN [s EXCEPT !.procs[p].at = "end"]
         ELSE IF P.closed THEN [s EXCEPT !.procs[p].at = "end", !.tasks[P.task].exc = "ClosedError"]   \* @ensure_not_closed step()
         ELSE IF P.paused THEN [s EXCEPT !.procs[p].at = "pz"]      \* await self._paused
         ELSE LET s1 == Push([s EXCEPT !.procs[p].stepping = TRUE], p)          \* _run_task(self._state.execute)
              IN IF P.st = "CREATED" THEN Go(EndStep(s1, p, "RUNNING"), p)       \* Created.execute: no user code
                 ELSE IF P.st = "RUNNING"
                      THEN Go(Sample([s1 EXCEPT !.procs[p].at = "body", !.procs[p].oi = 1], Pt(P.si, 0), p, "-"), p)
                      ELSE Go([s1 EXCEPT !.procs[p].at = "wf"], p)               \* Waiting.execute
    [] P.at = "pz" -> IF P.paused THEN s ELSE Go([s EXCEPT !.procs[p].at = "top"], p)
    [] P.at = "wf" ->
         IF P.wf = "pending" THEN s
         ELSE IF P.wf = "result" THEN Go(EndStep(s, p, "RUNNING"), p)
         \* an Interruption raised through _run_task: the scope is left on the exception path; a fresh waiting future
         ELSE Go(EndStep([s EXCEPT !.procs[p].wf = "pending"], p, "NONE"), p)
    [] P.at = "body" ->
         LET step == Prog(s, p)[P.si] IN
         IF P.oi > Len(step.ops) THEN Go(EndStep(s, p, NextLabel(step.end)), p)
         ELSE LET o == step.ops[P.oi] IN
              IF P.closed /\ o.op \in {"launch", "addcl"}          \* @ensure_not_closed methods: not offered on a closed process
              THEN Bad([s EXCEPT !.procs[p].at = "end"], "closed-op") ELSE
              (CASE o.op = "aw"     -> IF s.futs[o.arg] = "done" THEN Go(AfterOp(s, p), p)    \* no suspension on a done future
                                       ELSE [s EXCEPT !.procs[p].at = "aw"]
                 [] o.op = "launch" -> Go(AfterOp(Launch(s, o.arg), p), p)
                 [] o.op = "soon"   -> Go(AfterOp(NewTaskF(s, "cb", p, o.arg, o.x), p), p)   \* self.call_soon(cb)
                 [] o.op = "osoon"  -> Go(AfterOp(NewTaskF(s, "cb", o.arg, 0, o.x), p), p)   \* other.call_soon(cb), from p's step
                 [] o.op = "addcl"  -> Go(AfterOp([s EXCEPT !.procs[p].ncl = @ + 1], p), p)       \* self.add_cleanup(cb)
                 [] o.op = "ofail"  -> Go(AfterOp(Fail(s, o.arg), p), p)                     \* other.fail(exc, None)
                 [] o.op = "okill"  -> Go(AfterOp(OtherCtl(s, o.arg, "kill"), p), p)         \* other.kill()
                 [] o.op = "opause" -> Go(AfterOp(OtherCtl(s, o.arg, "pause"), p), p)        \* other.pause()
                 [] o.op = "nest"   -> OpenNest(s, p, o.arg))
    [] P.at \in {"aw", "nest"} -> Go(AfterOp(s, p), p)              \* woken / the inner run returned
    [] P.at = "end" -> s

\* events.ProcessCallback.run -> Process._run_task(callback); a raising callback: callback_excepted -> fail()
CbEnd(s, t) ==
  LET T  == s.tasks[t]
      s1 == [Pop(s, T.p) EXCEPT !.tasks[t].at = "end"]
  IN IF T.arg = 1 /\ s1.procs[T.p].st \notin Terminal THEN TransitionTo(s1, T.p, "EXCEPTED") ELSE s1
\* the callback samples on entry and, when it is a coroutine awaiting future f, after that await (still inside _run_task)
RunCb(s, t) ==
  LET T == s.tasks[t] IN
  IF T.at = "new"
  THEN LET s1 == Sample(Push(s, T.p), "cb", T.p, "-") IN
       IF T.f = 0 THEN CbEnd(s1, t)
       ELSE IF s1.futs[T.f] = "pending" THEN [s1 EXCEPT !.tasks[t].at = "aw"]
       ELSE CbEnd(Sample(s1, "cb.1", T.p, "-"), t)
  ELSE CbEnd(Sample(s, "cb.1", T.p, "-"), t)

\* the handle returns, unless it sits inside an inner loop run
Close(s, t) ==
  LET T    == s.tasks[t]
      open == T.kind = "proc" /\ s.procs[T.p].at = "nest"
      fin  == IF T.kind = "cb" THEN T.at = "end" ELSE s.procs[T.p].at = "end"
  IN IF open THEN s
     ELSE LET s1 == [s EXCEPT !.cur = Front(@)]
          IN IF fin THEN [s1 EXCEPT !.tasks[t].done = TRUE,
                                    !.bad = IF Val(s, T.c) # T.start THEN @ \cup {"unbalanced"} ELSE @]
             ELSE s1

\* Handle._run: self._context.run(callback)
RunTask(s, t) ==
  IF t = None THEN s
  ELSE LET T  == s.tasks[t]
           s0 == [s EXCEPT !.cur = Append(@, T.c)]
       IN IF T.kind = "proc" THEN Close(Go(s0, T.p), t) ELSE Close(RunCb(s0, t), t)

(* ----------------------------------------------------------------------------------------------- *)
(* the re-entrant loop (mode "idle"): nest_asyncio run_until_complete / _run_once                  *)
(* ----------------------------------------------------------------------------------------------- *)
RECURSIVE Normalise(_)
\* batch bookkeeping after a handle: `for _ in range(len(ready))`, then `while not f.done()`
Normalise(s) ==
  IF Mode(s) = "any" THEN s
  ELSE LET n == Len(s.lv)
           L == s.lv[n]
       IN IF L.rem > 0 /\ s.ready # <<>> THEN s
          ELSE IF n > 1 /\ s.procs[L.wait].at = "end"              \* the inner run_until_complete returns to the step
               THEN LET s1 == [s EXCEPT !.lv = Front(@)]
                        s2 == IF Get(s1) # L.saved THEN Bad(s1, "restore") ELSE s1
                    IN Normalise(Close(Go(s2, L.caller), s.procs[L.caller].task))
               ELSE [s EXCEPT !.lv[n].rem = Len(s.ready)]

\* the driver is the only ready handle and the innermost run is not about to return: nothing moves unless the environment acts
Idle(s) == /\ Mode(s) = "idle" /\ s.ready = <<s.drv>>
           /\ (Len(s.lv) > 1 => s.procs[s.lv[Len(s.lv)].wait].st \notin Terminal)

(* ----------------------------------------------------------------------------------------------- *)
(* environment requests (public calls)                                                             *)
(* ----------------------------------------------------------------------------------------------- *)
Resume(s, p) == Wake([s EXCEPT !.procs[p].wf = "result"], p)

CallSoon(s, p) == NewTask([s EXCEPT !.ksoon = @ \ {p}], "cb", p, 0)

\* the requests the bounded environment offers (the control protocol itself is ProcessCore's subject: requests that
\* would enter its known findings - a second interruption, kill while paused, resume during an interruption - are not offered)
Ctl(s, p, kind) ==
  LET P == s.procs[p]
  IN /\ kind \in s.kctl[p] /\ P.st \in Live /\ P.intr = "none" /\ ~P.paused
     /\ (kind = "pause" => ~P.closed)
     /\ ~(P.at = "wf" /\ P.wf # "pending")
     /\ P.at \in {"new", "aw", "wf", "nest"}
CanComplete(s, f) == /\ s.futs[f] = "pending"
                     /\ (Sc(s).early \/ (\E p \in 1..Len(s.procs) : Awaiting(s, p, f)) \/ (\E t \in 1..Len(s.tasks) : CbAwaiting(s, t, f)))
\* the user's own close(): on a live, not paused process between its steps or while it waits for something
CanClose(s, p)    == LET P == s.procs[p] IN /\ "close" \in s.kctl[p] /\ P.st \in Live /\ ~P.closed /\ P.intr = "none" /\ ~P.paused
                                            /\ P.at \in {"new", "aw", "wf"} /\ Mode(s) = "any"
CanPlay(s, p)     == s.procs[p].paused
CanResume(s, p)   == LET P == s.procs[p] IN P.st = "WAITING" /\ P.at = "wf" /\ P.wf = "pending" /\ P.intr = "none" /\ ~P.paused
CanSoon(s, p)     == p \in s.ksoon /\ s.procs[p].st # "NONE"

(* ----------------------------------------------------------------------------------------------- *)
(* initial state                                                                                   *)
(* ----------------------------------------------------------------------------------------------- *)
RECURSIVE StartTop(_, _)
\* the harness constructs each top-level process and creates its task, from the main context
StartTop(s, i) ==
  IF i > Len(s.procs) THEN s
  ELSE IF Sc(s).procs[i].role = "top" THEN StartTop(NewTask(Construct(s, i), "proc", i, 0), i + 1)
  ELSE StartTop(s, i + 1)

Proc0 == [st |-> "NONE", at |-> "new", si |-> 1, oi |-> 1, stepping |-> FALSE, intr |-> "none", paused |-> FALSE,
          wf |-> "none", task |-> 0, closed |-> FALSE, ncl |-> 0]

Init0(k) ==
  LET sc == Scens[k]
      n  == Len(sc.procs)
      s0 == [sc |-> k,
             deflt |-> <<>>,                                          \* the list object given as default=[]
             ctx |-> <<[set |-> FALSE, val |-> <<>>],                \* 1: the main context
                       [set |-> FALSE, val |-> <<>>]>>,              \* 2: the observer's / driver's task context (a copy of 1)
             cur |-> <<1>>,
             tasks |-> <<>>, ready |-> <<>>,
             procs |-> [i \in 1..n |-> [Proc0 EXCEPT !.ncl = sc.procs[i].cl]],
             futs |-> [f \in 1..sc.nfut |-> "pending"],
             lv |-> <<>>, drv |-> 0,
             kctl |-> [i \in 1..n |-> sc.procs[i].ctl], ksoon |-> sc.soon,
             log |-> <<>>, bad |-> {},
             act |-> <<"init", 0>>]                                 \* the action that led here (read by the replay)
      s1 == StartTop(s0, 1)
  IN IF sc.mode = "any" THEN s1
     ELSE \* the driver task is created last; the outermost run_until_complete starts its first batch
          LET t == Len(s1.tasks) + 1
              s2 == [s1 EXCEPT !.tasks = Append(@, [kind |-> "drv", p |-> 0, arg |-> 0, c |-> 2, start |-> <<>>, done |-> FALSE,
                                                      f |-> 0, at |-> "new", exc |-> "-"]),
                               !.ready = Append(@, t), !.drv = t]
          IN [s2 EXCEPT !.lv = <<[rem |-> Len(s2.ready), wait |-> 0, caller |-> 0, saved |-> <<>>]>>]

Init == \E k \in 1..Len(Scens) : S = Init0(k)

(* ----------------------------------------------------------------------------------------------- *)
(* actions                                                                                         *)
(* ----------------------------------------------------------------------------------------------- *)
\* one callback of the loop
RunHandle ==
  /\ S.ready # <<>>
  /\ ~Idle(S)
  /\ LET t  == Head(S.ready)
         s0 == [S EXCEPT !.ready = Tail(@), !.act = <<"run", t>>]
     IN IF Mode(S) = "any" THEN S' = RunTask(s0, t)
        ELSE LET s1 == [s0 EXCEPT !.lv[Len(S.lv)].rem = @ - 1]
             IN IF t = S.drv THEN S' = Normalise([s1 EXCEPT !.ready = Append(@, t)])     \* not idle: await asyncio.sleep(0)
                ELSE S' = Normalise(RunTask(s1, t))

\* a request of the environment: from the main context between two callbacks ("any"), or from the driver task when
\* it finds the loop idle ("idle")
Env(Op(_), name, arg) ==
  IF Mode(S) = "any" THEN S' = Op([S EXCEPT !.act = <<name, arg>>])
  ELSE /\ Idle(S)
       /\ LET s0 == [S EXCEPT !.ready = <<>>, !.lv[Len(S.lv)].rem = @ - 1, !.cur = Append(@, 2), !.act = <<name, arg>>]
              s1 == Op(s0)
          IN S' = Normalise([s1 EXCEPT !.cur = Front(@), !.ready = Append(@, S.drv)])

Procs == 1..Len(S.procs)
EnvComplete(f) == CanComplete(S, f) /\ Env(LAMBDA s : Complete(s, f), "complete", f)
EnvKill(p)     == Ctl(S, p, "kill") /\ Env(LAMBDA s : Kill(s, p), "kill", p)
EnvPause(p)    == Ctl(S, p, "pause") /\ Env(LAMBDA s : Pause(s, p), "pause", p)
EnvClose(p)    == CanClose(S, p) /\ Env(LAMBDA s : UserClose(s, p), "close", p)
EnvPlay(p)     == CanPlay(S, p) /\ Env(LAMBDA s : Play(s, p), "play", p)
EnvResume(p)   == CanResume(S, p) /\ Env(LAMBDA s : Resume(s, p), "resume", p)
EnvCallSoon(p) == CanSoon(S, p) /\ Env(LAMBDA s : CallSoon(s, p), "callsoon", p)

Next ==
  \/ RunHandle
  \/ \E f \in 1..Len(S.futs) : EnvComplete(f)
  \/ \E p \in Procs : EnvKill(p) \/ EnvPause(p) \/ EnvClose(p) \/ EnvPlay(p) \/ EnvResume(p) \/ EnvCallSoon(p)

Spec == Init /\ [][Next]_vars

(* ----------------------------------------------------------------------------------------------- *)
(* the property                                                                                    *)
(* ----------------------------------------------------------------------------------------------- *)
\* at every point where code of process p runs, Process.current() is p
CurrentIsRunning ==
  \A i \in 1..Len(S.log) : S.log[i].obs = S.log[i].p \/ S.log[i].dev \in Deviations

\* code outside sees the previous value: the main context and the observer's context between callbacks, and the
\* enclosing step when a re-entrant execute() returns
Restored ==
  /\ Val(S, 1) = <<>>
  /\ Val(S, 2) = <<>>
  /\ "restore" \notin S.bad
  /\ (Mode(S) = "any" => S.cur = <<1>>)

\* every task ends with the stack it started with; the assertion of _process_scope never fires
Balanced == S.bad \cap {"unbalanced", "assert", "pop-empty"} = {}

\* the shared default list is never written
DefaultIntact == S.deflt = <<>>

\* sanity of the model itself
WellFormed ==
  /\ \A i \in 1..Len(S.ready) : S.ready[i] \in 0..Len(S.tasks)
  /\ \A t \in 1..Len(S.tasks) : S.tasks[t].c \in 1..Len(S.ctx)
  /\ (Mode(S) = "idle" => Len(S.lv) >= 1 /\ Len(S.cur) = Len(S.lv))
  /\ S.bad \cap {"fail-on-terminated", "unsupported-ctl", "closed-op"} = {}
=============================================================================
