------------------------------ MODULE Persister ------------------------------
(***************************************************************************************************)
(* C14 - persisters are a snapshot store keyed by (pid, tag), equivalent to each other.            *)
(*                                                                                                 *)
(* Anchors: src/plumpy/persistence.py: InMemoryPersister (_checkpoints: pid -> tag -> Bundle,       *)
(* save_checkpoint with Bundle(dereference=True), load_checkpoint, get_checkpoints,                 *)
(* get_process_checkpoints, delete_checkpoint, delete_process_checkpoints), PicklePersister         *)
(* (pickle_filename, save_checkpoint, load_checkpoint, get_checkpoints, ...), Bundle.unbundle.      *)
(*                                                                                                 *)
(* `store` is the abstract snapshot store; `mem` and `files` are the two implementations, run in    *)
(* lockstep with it.  A snapshot is a pair <<imm, mut>>: what the bundle says about the immutable   *)
(* members of the process (status, outputs, pid) and about its mutable members (context values,    *)
(* arguments of the next step); a process that has made k steps is snapshot <<k, k>>.  Bundles of   *)
(* the in-memory persister are OBJECTS (entries of `heap`): what is returned by load_checkpoint     *)
(* may be the stored object itself, and a process recreated from it may share its mutable part.     *)
(* Files hold values.                                                                              *)
(*                                                                                                 *)
(* A clause guarded by "Fx" \in Fixes is the repaired behaviour, its ELSE branch the code as        *)
(* written; as-written clauses that go wrong record a deviation identifier.                        *)
(***************************************************************************************************)
EXTENDS Naturals, Sequences, FiniteSets, TLC

CONSTANTS
  Procs,     \* the live processes (their pids)
  Tags,      \* checkpoint tags; "None" is the absent tag
  L,         \* length of a history
  Kinds,     \* id kinds on offer (one per history)
  Str,       \* Str[kind][id] = str(id) as a sequence of symbols (ids are separator-free: no symbol is "."); the EMPTY
             \* sequence is the string form of the empty string.  Some kinds consist of ids python treats as false (the
             \* integer 0, the empty string) used as pid and as tag: the tag is ABSENT iff it is "None" (python: `is None`);
             \* a falsy tag is a tag, a falsy pid a pid, and (p, falsy tag) is a key different from (p, None)
  Fixes,     \* repairs contained in the implementation under test
  Known      \* deviation identifiers of listed known findings (excused)

VARIABLES kind, live, store, mem, heap, files, n, last, dev
vars == <<kind, live, store, mem, heap, files, n, last, dev>>

Keys   == Procs \X Tags
Absent == <<0, 0>>
Snap(k) == <<k, k>>
Range(s) == {s[i] : i \in 1..Len(s)}
ASSUME \A kd \in Kinds : \A x \in Procs \cup (Tags \ {"None"}) : "." \notin Range(Str[kd][x])

\* results of operations, one shape for all: exception class, returned snapshot, returned listing
NoRes       == [err |-> "-", snap |-> Absent, keys |-> {}]
Ret(s)      == [NoRes EXCEPT !.snap = s]
Raise(e)    == [NoRes EXCEPT !.err = e]
Listing(ks) == [NoRes EXCEPT !.keys = ks]

(* ----------------------------------------------------------------------------------------------- *)
(* the abstract store and the contracts of its operations                                          *)
(* ----------------------------------------------------------------------------------------------- *)
Stored(st)          == {k \in Keys : st[k] # Absent}
AbsSave(st, k, v)   == [st EXCEPT ![k] = Snap(v)]
AbsLoad(st, k)      == IF st[k] = Absent THEN Raise("absent") ELSE Ret(st[k])
AbsList(st)         == Listing(Stored(st))
AbsListP(st, p)     == Listing({k \in Stored(st) : k[1] = p})
AbsDelete(st, k)    == [st EXCEPT ![k] = Absent]
AbsDeleteP(st, p)   == [k \in Keys |-> IF k[1] = p THEN Absent ELSE st[k]]
\* a process recreated from the loaded snapshot and run for one step
AbsResume(st, k)    == IF st[k] = Absent THEN Raise("absent") ELSE Ret(<<st[k][1] + 1, st[k][2] + 1>>)

(* ----------------------------------------------------------------------------------------------- *)
(* InMemoryPersister                                                                               *)
(* ----------------------------------------------------------------------------------------------- *)
\* mem.pids = keys of self._checkpoints; mem.tab[p][t] = heap index of the bundle object, 0 = no entry
EmptyMem == [pids |-> {}, tab |-> [p \in Procs |-> [t \in Tags |-> 0]]]
MissingErrMem   == IF "FP2" \in Fixes THEN "PersistenceError" ELSE "KeyError"
MissingErrFiles == IF "FP2" \in Fixes THEN "PersistenceError" ELSE "FileNotFoundError"

\* self._checkpoints.setdefault(process.pid, {})[tag] = Bundle(process, ctx, dereference=True): a deep copy, a NEW object
MemSave(m, h, k, v) == [m |-> [pids |-> m.pids \cup {k[1]}, tab |-> [m.tab EXCEPT ![k[1]][k[2]] = Len(h) + 1]],
                        h |-> Append(h, [imm |-> v, mut |-> v])]
MemHas(m, k)        == k[1] \in m.pids /\ m.tab[k[1]][k[2]] # 0
\* return self._checkpoints[pid][tag]
MemLoad(m, h, k)    == IF MemHas(m, k) THEN Ret(<<h[m.tab[k[1]][k[2]]].imm, h[m.tab[k[1]][k[2]]].mut>>) ELSE Raise(MissingErrMem)
\* for tag in self._checkpoints[pid]  (KeyError -> nothing)
MemListP(m, p)      == IF p \in m.pids THEN {<<p, t>> : t \in {u \in Tags : m.tab[p][u] # 0}} ELSE {}
MemList(m)          == UNION {MemListP(m, p) : p \in m.pids}
\* try: del self._checkpoints[pid][tag]  except KeyError: pass
MemDelete(m, k)     == IF k[1] \in m.pids THEN [m EXCEPT !.tab[k[1]][k[2]] = 0] ELSE m
\* if pid in self._checkpoints: del self._checkpoints[pid]
MemDeleteP(m, p)    == [pids |-> m.pids \ {p}, tab |-> [m.tab EXCEPT ![p] = [t \in Tags |-> 0]]]
\* bundle = load_checkpoint(pid, tag); process = bundle.unbundle(); one step of that process.
\* As written load_checkpoint returns the STORED object and load_members/ContextMixin hand its mutable members to the
\* process: the step appends to them inside the stored bundle.
MemResume(m, h, k)  ==
  IF ~MemHas(m, k) THEN [res |-> Raise(MissingErrMem), h |-> h, dev |-> {}]
  ELSE LET b == m.tab[k[1]][k[2]] IN
       [res |-> Ret(<<h[b].imm + 1, h[b].mut + 1>>),
        h   |-> IF "FP1" \in Fixes THEN h ELSE [h EXCEPT ![b].mut = @ + 1],
        dev |-> IF "FP1" \in Fixes THEN {} ELSE {"D14a"}]
AbsMem(m, h) == [k \in Keys |-> IF MemHas(m, k) THEN <<h[m.tab[k[1]][k[2]]].imm, h[m.tab[k[1]][k[2]]].mut>> ELSE Absent]

(* ----------------------------------------------------------------------------------------------- *)
(* PicklePersister                                                                                 *)
(* ----------------------------------------------------------------------------------------------- *)
\* pickle_filename: f'{pid}.{tag}.pickle' if tag is not None else f'{pid}.pickle', as a sequence of symbols
FileName(kd, k) == Str[kd][k[1]] \o (IF k[2] = "None" THEN <<>> ELSE <<".">> \o Str[kd][k[2]]) \o <<".", "pickle">>
FileNameTable   == [kd \in Kinds |-> [p \in Procs |-> [t \in Tags |-> FileName(kd, <<p, t>>)]]]      \* the whole name function (conformance)
IsPickle(name)  == Len(name) >= 2 /\ name[Len(name)] = "pickle" /\ name[Len(name) - 1] = "."      \* fnmatch '*.pickle'
\* a file: its name and the pickled PersistedPickle(checkpoint = (pid, tag), bundle)
FSave(kd, fs, k, v) == {f \in fs : f.name # FileName(kd, k)} \cup {[name |-> FileName(kd, k), key |-> k, snap |-> Snap(v)]}     \* open(..., 'w+b')
FHas(kd, fs, k)     == \E f \in fs : f.name = FileName(kd, k)
FLoad(kd, fs, k)    == IF FHas(kd, fs, k) THEN Ret((CHOOSE f \in fs : f.name = FileName(kd, k)).snap) ELSE Raise(MissingErrFiles)
\* every '*.pickle' of the directory is loaded and the checkpoint stored INSIDE it is reported
FList(fs)           == {f.key : f \in {g \in fs : IsPickle(g.name)}}
FListP(fs, p)       == {c \in FList(fs) : c[1] = p}                                    \* c.pid == pid
FDelete(kd, fs, k)  == {f \in fs : f.name # FileName(kd, k)}                          \* os.remove; OSError ignored
\* for checkpoint in self.get_process_checkpoints(pid): self.delete_checkpoint(checkpoint.pid, checkpoint.tag)
FDeleteP(kd, fs, p) == {f \in fs : f.name \notin {FileName(kd, c) : c \in FListP(fs, p)}}
\* every load unpickles: the caller gets a fresh object
FResume(kd, fs, k)  == IF FHas(kd, fs, k) THEN LET s == (CHOOSE f \in fs : f.name = FileName(kd, k)).snap IN Ret(<<s[1] + 1, s[2] + 1>>)
                       ELSE Raise(MissingErrFiles)
AbsFiles(kd, fs) == [k \in Keys |-> IF FHas(kd, fs, k) THEN (CHOOSE f \in fs : f.name = FileName(kd, k)).snap ELSE Absent]

(* ----------------------------------------------------------------------------------------------- *)
(* histories: the three run in lockstep                                                            *)
(* ----------------------------------------------------------------------------------------------- *)
Op(name, k)   == <<name, k[1], k[2]>>
NoLast        == [op |-> <<"init", "-", "-">>, abs |-> NoRes, mem |-> NoRes, files |-> NoRes, dev |-> {}]
\* the exception classes of a failing load differ between the implementations (as written)
ErrDev(m, f)  == IF m.err # "-" /\ f.err # "-" /\ m.err # f.err THEN {"D14b"} ELSE {}
\* what the last operation was and returned; dev = deviation clauses that concern this one call
Did(op, a, m, f) == [op |-> op, abs |-> a, mem |-> m, files |-> f, dev |-> ErrDev(m, f)]

Init == /\ kind \in Kinds
        /\ live = [p \in Procs |-> 1]
        /\ store = [k \in Keys |-> Absent]
        /\ mem = EmptyMem /\ heap = <<>> /\ files = {}
        /\ n = 0 /\ last = NoLast /\ dev = {}

Save(k) ==      \* persister.save_checkpoint(process, tag)
  LET ms == MemSave(mem, heap, k, live[k[1]]) IN
  /\ store' = AbsSave(store, k, live[k[1]])
  /\ mem' = ms.m /\ heap' = ms.h
  /\ files' = FSave(kind, files, k, live[k[1]])
  /\ last' = Did(Op("save", k), NoRes, NoRes, NoRes)
  /\ UNCHANGED <<live, dev>>

SaveFail(k) ==  \* save_checkpoint of a live process that cannot be bundled right now (Bundle(process) raises TypeError):
                \* both persisters refuse with the same error; nothing is stored and, above all, nothing is lost
  /\ last' = Did(Op("savefail", k), Raise("TypeError"), Raise("TypeError"), Raise("TypeError"))
  /\ UNCHANGED <<live, store, mem, heap, files, dev>>

Load(k) ==      \* persister.load_checkpoint(pid, tag)
  LET m == MemLoad(mem, heap, k)  f == FLoad(kind, files, k) IN
  /\ last' = Did(Op("load", k), AbsLoad(store, k), m, f)
  /\ UNCHANGED <<live, store, mem, heap, files, dev>>

List ==         \* persister.get_checkpoints()
  /\ last' = Did(<<"list", "-", "-">>, AbsList(store), Listing(MemList(mem)), Listing(FList(files)))
  /\ UNCHANGED <<live, store, mem, heap, files, dev>>

ListP(p) ==     \* persister.get_process_checkpoints(pid)
  /\ last' = Did(<<"listp", p, "-">>, AbsListP(store, p), Listing(MemListP(mem, p)), Listing(FListP(files, p)))
  /\ UNCHANGED <<live, store, mem, heap, files, dev>>

Delete(k) ==    \* persister.delete_checkpoint(pid, tag)
  /\ store' = AbsDelete(store, k)
  /\ mem' = MemDelete(mem, k)
  /\ files' = FDelete(kind, files, k)
  /\ last' = Did(Op("delete", k), NoRes, NoRes, NoRes)
  /\ UNCHANGED <<live, heap, dev>>

DeleteP(p) ==   \* persister.delete_process_checkpoints(pid)
  /\ store' = AbsDeleteP(store, p)
  /\ mem' = MemDeleteP(mem, p)
  /\ files' = FDeleteP(kind, files, p)
  /\ last' = Did(<<"deletep", p, "-">>, NoRes, NoRes, NoRes)
  /\ UNCHANGED <<live, heap, dev>>

Progress(p) ==  \* the live process makes a step
  /\ live' = [live EXCEPT ![p] = @ + 1]
  /\ last' = Did(<<"progress", p, "-">>, NoRes, NoRes, NoRes)
  /\ UNCHANGED <<store, mem, heap, files, dev>>

Resume(k) ==    \* a process is recreated from the loaded bundle (of each persister) and makes a step
  LET m == MemResume(mem, heap, k)  f == FResume(kind, files, k) IN
  /\ heap' = m.h
  /\ last' = Did(Op("resume", k), AbsResume(store, k), m.res, f)
  /\ dev' = dev \cup m.dev                      \* the stored bundle stays changed: sticky
  /\ UNCHANGED <<live, store, mem, files>>

Next == /\ n < L
        /\ n' = n + 1
        /\ UNCHANGED kind
        /\ \/ \E k \in Keys : Save(k) \/ SaveFail(k) \/ Load(k) \/ Delete(k) \/ Resume(k)
           \/ \E p \in Procs : ListP(p) \/ DeleteP(p) \/ Progress(p)
           \/ List
Spec == Init /\ [][Next]_vars

(* ----------------------------------------------------------------------------------------------- *)
(* the property                                                                                    *)
(* ----------------------------------------------------------------------------------------------- *)
\* D14a corrupts the stored snapshot (everything afterwards is excused if it is listed); D14b only concerns the
\* exception class of the one failing call
Corrupt   == "D14a" \in dev /\ "D14a" \in Known
SameClass(a, b) == a = b \/ ("D14b" \in Known /\ a.err # "-" /\ b.err # "-" /\ [a EXCEPT !.err = "-"] = [b EXCEPT !.err = "-"])

\* refinement
C14_AbsMem   == ~Corrupt => AbsMem(mem, heap) = store
C14_AbsFiles == AbsFiles(kind, files) = store
\* every result honours the contract on `store` (load = snapshot taken by the last save of that key, whatever the live
\* process or a recreated one did since; listing = exactly the stored keys; a failing load fails)
Honours(r, a) == (r.err # "-") = (a.err # "-") /\ (a.err = "-" => r = a)
C14_Contract == ~Corrupt => (Honours(last.mem, last.abs) /\ Honours(last.files, last.abs))
\* contracts of the abstract operations themselves
C14_StoreContracts ==
  /\ \A k \in Keys : /\ AbsDelete(AbsDelete(store, k), k) = AbsDelete(store, k)                               \* idempotent
                     /\ \A j \in Keys \ {k} : AbsDelete(store, k)[j] = store[j]                              \* local
                     /\ AbsLoad(AbsDelete(store, k), k).err # "-"
                     /\ \A v \in 1..(L + 1) : AbsLoad(AbsSave(store, k, v), k) = Ret(Snap(v))                \* load = last save
  /\ \A p \in Procs : /\ Stored(AbsDeleteP(store, p)) = {k \in Stored(store) : k[1] # p}                      \* all and only that pid
                      /\ \A k \in Keys : k[1] # p => AbsDeleteP(store, p)[k] = store[k]
\* ... and of the implementations (commuting diagrams from every reachable state, whether or not the history goes on)
C14_ImplContracts == ~Corrupt =>
  /\ \A k \in Keys : /\ AbsMem(MemDelete(mem, k), heap) = AbsDelete(store, k)
                     /\ AbsFiles(kind, FDelete(kind, files, k)) = AbsDelete(store, k)
                     /\ AbsMem(MemDelete(MemDelete(mem, k), k), heap) = AbsDelete(store, k)
                     /\ AbsFiles(kind, FDelete(kind, FDelete(kind, files, k), k)) = AbsDelete(store, k)
  /\ \A p \in Procs : /\ AbsMem(MemDeleteP(mem, p), heap) = AbsDeleteP(store, p)
                      /\ AbsFiles(kind, FDeleteP(kind, files, p)) = AbsDeleteP(store, p)
                      /\ MemListP(mem, p) = AbsListP(store, p).keys /\ FListP(files, p) = AbsListP(store, p).keys
  /\ MemList(mem) = Stored(store) /\ FList(files) = Stored(store)
\* the two implementations are observationally equivalent
C14_Equivalent == ~Corrupt => SameClass(last.mem, last.files)
\* the file-name function separates the keys
C14_FileNames == \A j, k \in Keys : j # k => FileName(kind, j) # FileName(kind, k)
\* ... in particular a tag that is given - whatever its string form, the empty one included - never names the untagged file
C14_TagPresent == \A p \in Procs : \A t \in Tags \ {"None"} : FileName(kind, <<p, t>>) # FileName(kind, <<p, "None">>)
\* nothing goes wrong without a deviation clause saying so
C14_Explained == (AbsMem(mem, heap) = store /\ AbsFiles(kind, files) = store /\ last.mem = last.files) \/ dev # {} \/ last.dev # {}
=============================================================================
