------------------------------ MODULE ProcessProps ------------------------------
(***************************************************************************************************)
(* The listed properties C01-C06 and C13 (and the outcome clauses of C02) as formulas over the     *)
(* state of ProcessCore.  Every invariant is evaluated by TLC in every reachable state of a        *)
(* bounded instance, and - because conformance checking reconstructs the specification state of    *)
(* every step of a real execution - in every state of every validated trace of the implementation. *)
(*                                                                                                 *)
(* `S.dev` holds the identifiers of listed known findings whose deviation clause the behaviour     *)
(* went through; invariants are stated for behaviours that did not (Clean).                        *)
(***************************************************************************************************)
EXTENDS ProcessCore

Quiescent == ready = <<>>
\* Listed known findings (known_findings.json) that can make a property fail; a behaviour that went through
\* one of these deviation clauses is excused for THAT property only.
DevOf(p) == CASE p = "C01" -> {}
              [] p = "C02" -> {}
              [] p = "C03" -> {}
              [] p = "C04" -> {}
              [] p = "C05" -> {}
              [] p = "C06" -> {}
              [] p = "C10" -> {}
              [] p = "C13" -> {}
CleanFor(p) == S.dev \cap DevOf(p) = {}
Terminated(s) == s.st \in Terminal

LogOf(s, kind) == SelectSeq(s.log, LAMBDA e : e[1] = kind)
Steps(s) == LogOf(s, "step")

(* ---- C01: lifecycle graph, terminal states are final ----------------------------------------- *)
Legal == {<<"CREATED", t>> : t \in {"RUNNING", "KILLED", "EXCEPTED"}}
         \cup {<<f, t>> : f \in {"RUNNING", "WAITING"}, t \in {"RUNNING", "WAITING", "FINISHED", "KILLED", "EXCEPTED"}}
C01_Lifecycle == /\ \A i \in 1..Len(S.log) : S.log[i][1] = "enter" => <<S.log[i][2], S.log[i][3]>> \in Legal
                 /\ "leftTerminal" \notin S.bad
\* action property: once terminal, the label and the outcome never change again
C01_TerminalFinal == [][S.st \in Terminal => (S'.st = S.st /\ S'.cur = S.cur)]_vars

(* ---- C02: all reports of the outcome agree; waiters are released ------------------------------ *)
C02_FutureNotEarly == CleanFor("C02") => (S.st \in Live => S.fut.st \in {"pending", "cancelled"})
C02_Agree ==
  CleanFor("C02") =>
     /\ S.st = "FINISHED" => S.fut = [st |-> "result", val |-> S.outputs]
     /\ S.st = "EXCEPTED" => S.fut = [st |-> "exc", val |-> S.cur.val]
     /\ S.st = "KILLED"   => S.fut = [st |-> "killed", val |-> Txt(S.cur.val)]
TerminalNotes(s) == SelectSeq(s.log, LAMBDA e : e[1] = "notify" /\ e[2] \in {"finished", "excepted", "killed"})
C02_OneNotification ==
  CleanFor("C02") =>
     /\ Len(TerminalNotes(S)) = (IF Terminated(S) THEN 1 ELSE 0)
     /\ Terminated(S) => TerminalNotes(S)[1][2] = (CASE S.st = "FINISHED" -> "finished" [] S.st = "EXCEPTED" -> "excepted" [] OTHER -> "killed")
C02_ClosedOnce == CleanFor("C02") => (S.closed = Terminated(S) /\ S.cleaned = (IF Terminated(S) THEN 1 ELSE 0))
\* (a task cancelled by its owner while parked at the pause gate - EnvTaskCancel - cannot return: the rest of C02 still binds)
OwnerCancelled == S.task.pc = "failed" /\ S.task.err = "CancelledError"
C02_TaskReturns == (CleanFor("C02") /\ Quiescent /\ Terminated(S)) => (S.task.pc = "done" \/ OwnerCancelled)

\* a process that could not be constructed does not exist: the failure reached the caller of the constructor, and only
\* a failure raised while the initial state was being entered does that
C03_Construction ==
  /\ ~S.born <=> (S.log # <<>> /\ S.log[Len(S.log)][1] = "ctor-raise")
  /\ ~S.born => (ready = <<>> /\ S.st \in {"NONE", "CREATED"} /\ S.fut.st = "pending" /\ ~S.closed
                  /\ \E i \in 1..Len(S.log) : S.log[i][1] = "fault" /\ S.log[i][4] = S.log[Len(S.log)][2])
  /\ S.born => S.st # "NONE"

(* ---- C03 (part): nothing escapes into the event loop, no half transition --------------------- *)
C03_TaskNeverFails == CleanFor("C03") => S.task.pc # "failed"
C03_NoCallbackEscapes == CleanFor("C03") => \A i \in 1..Len(S.log) : S.log[i][1] # "cbtaskfailed"
C03_NoHalfTransition == ~S.transitioning /\ ~S.failing /\ (Quiescent => ~S.stepping \/ S.task.pc \in {"awaitWF"})

(* ---- C04: a kill is never lost, never raises, no live process is unkillable ------------------- *)
C04_KillNoRaise == CleanFor("C04") => "killRaised" \notin S.bad
\* the step that was in flight may have failed: then EXCEPTED with that step's exception
\* ... or the environment failed the process itself (fail(), a raising call_soon callback) before the kill took effect
StepFailed(s) == s.st = "EXCEPTED" /\ (s.cur.val \in {"F", "CB"} \/ (\E i \in 1..Len(s.awt) : s.awt[i].st \in {"fail", "killed"} /\ s.awt[i].val = s.cur.val) \/ \E i \in 1..Len(Prog(s)) : Prog(s)[i].cmd = "raise" /\ Prog(s)[i].val = s.cur.val)
C04_KillNotLost == (CleanFor("C04") /\ Quiescent /\ S.mon.killAcc) => (S.st = "KILLED" \/ StepFailed(S))
KillCalls(s) == SelectSeq(s.log, LAMBDA e : e[1] = "call" /\ e[2] = "kill")
ActOf(ret) == CHOOSE a \in 1..Len(S.acts) : ret = "act:" \o ToString(a)
ResolvedTrue(e) == e[4] = "True" \/ (e[4] \notin {"True", "False", None} /\ S.acts[ActOf(e[4])].status = "done")
C04_KillReply == (CleanFor("C04") /\ Quiescent /\ Terminated(S)) =>
                   \A i \in 1..Len(KillCalls(S)) : LET e == KillCalls(S)[i] IN
                      (e[5] = NoExc) => (ResolvedTrue(e) <=> S.st = "KILLED")
C04_KillText == (CleanFor("C04") /\ S.st = "KILLED" /\ S.mon.killAcc) =>
                   S.cur.val \in S.mon.killTexts \cup {Prog(S)[i].val : i \in {j \in 1..Len(Prog(S)) : Prog(S)[j].cmd = "kill"}}

RECURSIVE Drain(_, _)
Drain(s, rdy) == IF rdy = <<>> THEN s
                 ELSE LET s1 == Handle(s, Head(rdy)) IN Drain(Flush(s1), Tail(rdy) \o s1.sched)
\* from every reachable live configuration a further kill() still terminates the process
C04_KillFromAnywhere ==
  (CleanFor("C04") /\ S.st \in Live) =>
     LET r == Kill(S, "probe") IN
       /\ (r.exc = NoExc \/ r.s.dev \cap DevOf("C04") # {})
       /\ LET e == Drain(Flush(r.s), ready \o r.s.sched) IN e.st = "KILLED" \/ StepFailed(e) \/ e.dev \cap DevOf("C04") # {}

LastStep(s) == LET st == Steps(s) IN IF st = <<>> THEN 0 ELSE st[Len(st)][2]

(* ---- C05: pause/play is transparent ------------------------------------------------------------ *)
C05_NoStepWhilePaused == CleanFor("C05") => "stepWhilePaused" \notin S.bad
C05_NoRaise == CleanFor("C05") => S.bad \cap {"pauseRaised", "playRaised"} = {}
C05_PlayUnpauses == CleanFor("C05") => "playLeftPaused" \notin S.bad
\* a play that is the last pause/play request leaves the process playing for good
C05_PlayWins == (CleanFor("C05") /\ S.mon.lastPlay) => S.pausedF = "none"

\* the uninterrupted reference run: every wait is resumed (with the only value on offer) when the loop is idle
RECURSIVE RefRun(_, _, _)
RefRun(s, rdy, fuel) ==
  IF fuel = 0 THEN s
  ELSE IF rdy = <<>> THEN (IF s.st = "WAITING" /\ s.wf.st = "pending"
                           THEN LET r == Resume(s, CHOOSE v \in ResumeVals : TRUE) IN RefRun(Flush(r.s), r.s.sched, fuel - 1)
                           ELSE s)
  ELSE LET s1 == Handle(s, Head(rdy)) IN RefRun(Flush(s1), Tail(rdy) \o s1.sched, fuel - 1)
\* (TLC walks the expanded definition of every operator once per syntactic occurrence when it starts: Ref is mentioned sparingly)
Ref == IF S.born THEN RefRun(InitS(S.pi, S.pl), <<"task">>, 100) ELSE S

IsPrefixOf(a, b) == Len(a) <= Len(b) /\ SubSeq(b, 1, Len(a)) = a
OnlyPausePlayResume == Alphabet \subseteq {"pause", "play", "resume"}
StepsArePrefix(a, b) == IsPrefixOf(Steps(a), Steps(b))
SameOutcome(a, b) == Steps(a) = Steps(b) /\ a.outputs = b.outputs /\ a.cur = b.cur /\ a.fut = b.fut
C05_StepsPrefix == (CleanFor("C05") /\ OnlyPausePlayResume) => StepsArePrefix(S, Ref)
C05_Transparent == (CleanFor("C05") /\ OnlyPausePlayResume /\ Terminated(S)) => SameOutcome(S, Ref)

(* ---- C06: a wake-up is never lost ----------------------------------------------------------- *)
C06_NoLostWakeup == (CleanFor("C06") /\ Quiescent /\ S.st = "WAITING" /\ S.mon.resumed) => S.pausedF # "none"
C06_ResumeValue == CleanFor("C06") => "wrongResumeValue" \notin S.bad

\* ... and when every future / child the waiting step awaits has completed (WorkChain)
AllAwaitedDone(s) == s.cur.aw # <<>> /\ \A j \in 1..Len(s.cur.aw) : s.awt[s.cur.aw[j]].st = "ok"
C06_NoLostCompletion == (CleanFor("C06") /\ Quiescent /\ S.st = "WAITING" /\ AllAwaitedDone(S)) => S.pausedF # "none"

(* ---- C10: ToContext is a barrier ---------------------------------------------------------------- *)
CtxVal(ctx, key) == LET at == {j \in 1..Len(ctx) : ctx[j][1] = key} IN IF at = {} THEN None ELSE ctx[CHOOSE j \in at : TRUE][2]
\* the step that handed awaitables to the context is the one whose command continues with step f
AwaitersOf(s, f) == {p \in 1..Len(Prog(s)) : Prog(s)[p].cmd = "await" /\ Prog(s)[p].next = f}
\* at the entry of the step after the barrier: every awaited item is done and found under its key
\* (an assignment made later to the same key replaces the earlier value)
LastWithKey(s, aws, j) == \A k \in (j + 1)..Len(aws) : s.awt[aws[k]].key # s.awt[aws[j]].key
C10_Barrier ==
  CleanFor("C10") =>
    \A i \in 1..(Len(S.log) - 1) :
      (S.log[i][1] = "step" /\ S.log[i + 1][1] = "ctx") =>
         \A p \in AwaitersOf(S, S.log[i][2]) :
            LET aws == Prog(S)[p].aws IN
            \A j \in 1..Len(aws) :
               /\ S.log[i + 1][3][aws[j]]
               /\ LastWithKey(S, aws, j) => CtxVal(S.log[i + 1][2], S.awt[aws[j]].key) = "r" \o ToString(aws[j])
\* a failed or killed item ends the workchain EXCEPTED with that error; the step after the barrier never runs
Failed(s) == {i \in 1..Len(s.awt) : s.awt[i].st \in {"fail", "killed"}}
C10_FailureStops ==
  (CleanFor("C10") /\ Quiescent /\ S.pausedF = "none" /\ Alphabet \subseteq {"complete", "pause", "play"}
     /\ S.cur.label \in {"WAITING", "EXCEPTED"} /\ Failed(S) \cap S.watched # {}) =>
        /\ S.st = "EXCEPTED" /\ S.cur.val \in {S.awt[i].val : i \in Failed(S) \cap S.watched}
        /\ Prog(S)[LastStep(S)].cmd = "await"

(* ---- C16: remote control, announcements ----------------------------------------------------------- *)
Announced(s) == SelectSeq(s.log, LAMBDA e : e[1] = "bcast" /\ e[2] = "state_changed")
Entered(s)   == SelectSeq(s.log, LAMBDA e : e[1] = "enter")
BcastFaults(s) == SelectSeq(s.log, LAMBDA e : e[1] = "fault" /\ e[2] = "bcast")
\* each completed transition is announced exactly once and in order (state_changed.<from>.<to>, sent by the pid);
\* checked on behaviours without an injected broadcast failure
C16_AnnouncedOnceInOrder ==
  (S.comm /\ S.born /\ BcastFaults(S) = <<>> /\ "D11" \notin S.dev) =>
     LET a == Announced(S) e == Entered(S) IN
       /\ Len(a) = Len(e) + 1 /\ a[1][3] = None /\ a[1][4] = "CREATED"
       /\ \A i \in 1..Len(e) : a[i + 1][3] = e[i][2] /\ a[i + 1][4] = e[i][3]
\* a terminated process no longer receives messages
C16_Unsubscribed == S.comm => (S.closed => S.subs = {})
\* ... and a process that could be constructed listens to whatever the communicator let it subscribe to: a subscription that
\* timed out does not take the other one with it
SubFaults(s, h) == \E i \in 1..Len(s.log) : s.log[i][1] = "fault" /\ s.log[i][2] = h
C16_Subscribed == (S.comm /\ S.born /\ ~S.closed /\ S.restores = 0) =>
                     S.subs = {k \in {"rpc", "bcast"} : ~SubFaults(S, IF k = "rpc" THEN "sub_rpc" ELSE "sub_bc")}
\* the reply of a control message is the outcome of the call its handler made
RpcCalls(s) == SelectSeq(s.log, LAMBDA e : e[1] = "call" /\ e[6] = "rpc")
C16_Reply ==
  S.comm => \A i \in 1..Len(S.rpcs) :
     LET m == S.rpcs[i] IN
       (m.st \notin {"sched", "await", "woken"}) =>
          \/ m.st = "failed:RuntimeError"
          \/ (m.act = 0 /\ \E j \in 1..Len(RpcCalls(S)) : RpcCalls(S)[j][2] = m.intent /\ m.st = "done:" \o RpcCalls(S)[j][4])
          \/ (m.act # 0 /\ m.st = ReplyOf(S.acts[m.act].status))

(* ---- C13: the returned command alone decides the next step and its arguments ---------------- *)
C13_Continuation == CleanFor("C13") => "wrongContinuation" \notin S.bad

\* with no interference but resume: the command returned by the last executed step decides the outcome

C13_Outcome ==
  (CleanFor("C13") /\ Alphabet \subseteq {"resume"} /\ Quiescent /\ LastStep(S) # 0) =>
     LET d == Prog(S)[LastStep(S)] IN
       CASE d.cmd = "stop"   -> S.st = "FINISHED" /\ S.cur.val = d.val /\ S.cur.succ = ~Progs[S.pi].outMissing
         [] d.cmd = "unsucc" -> S.st = "FINISHED" /\ S.cur.val = d.val /\ ~S.cur.succ
         [] d.cmd = "kill"   -> S.st = "KILLED" /\ S.cur.val = d.val
         [] d.cmd = "raise"  -> S.st = "EXCEPTED" /\ S.cur.val = d.val
         [] d.cmd = "wait"   -> S.st = "WAITING" /\ S.cur.fn = d.next /\ ~S.mon.resumed
         [] OTHER -> FALSE          \* a step that returned Continue is never the last one at quiescence

(* ---- C07 / C08: checkpoints -------------------------------------------------------------------- *)
\* saving what was loaded gives the same bundle (the law Persist/Restore must satisfy; nlog is harness bookkeeping)
Bundle(b) == [b EXCEPT !.nlog = 0]
C07_SaveLoadSave == S.snap.has => Bundle(Persist(Restore(S))) = Bundle(S.snap)
\* with no interference but checkpoints, restores and the resume values: the resumed execution is the uninterrupted one
OnlyCheckpoints == Alphabet \subseteq {"save", "restore", "resume"}
C08_StepsPrefix == OnlyCheckpoints => StepsArePrefix(S, Ref)
C08_Equivalent  == (OnlyCheckpoints /\ Terminated(S)) => SameOutcome(S, Ref)

\* hide the histories when only the monitors matter (larger K)
View == <<[S EXCEPT !.log = <<>>], ready, budget>>
=============================================================================
