------------------------------ MODULE ObservableTrace ------------------------------
(***************************************************************************************************)
(* Direction V (code -> specification): traces recorded from EVERY process the repository's own    *)
(* test-suite creates (harness/trace_plugin.py) are validated against the observable protocol of a *)
(* process - the projection of ProcessCore onto what a bystander can see:                          *)
(*   transitions follow the lifecycle graph, a terminal state is final across top-level calls      *)
(*   (C01); at every stable point the outcome views agree and the future is resolved iff           *)
(*   terminated (C02); kill() on a live process never raises, answers True only for KILLED, and    *)
(*   control calls on a terminated process change nothing (C04, C01).                              *)
(* The trace is consumed event by event; a trace that cannot be consumed to its end is rejected    *)
(* and reported with the index of the first event no action explains.                              *)
(***************************************************************************************************)
EXTENDS Naturals, Sequences, FiniteSets, TLC, Json, IOUtils

Traces == JsonDeserialize(IOEnv.TRACE_FILE)
NT == Len(Traces)

VARIABLES tid, l, o
tvars == <<tid, l, o>>

Terminal == {"FINISHED", "EXCEPTED", "KILLED"}
Live     == {"CREATED", "RUNNING", "WAITING"}
Legal == {<<"CREATED", t>> : t \in {"RUNNING", "KILLED", "EXCEPTED"}}
         \cup {<<f, t>> : f \in {"RUNNING", "WAITING"}, t \in {"RUNNING", "WAITING", "FINISHED", "KILLED", "EXCEPTED"}}

\* td: depth of nested transition_to calls; nf: a transition failed and was re-routed since the current top-level call began
\* played: the last completed top-level call was a play() that returned normally (C05: the process is then un-paused)
Start(i) == [st |-> Traces[i].init, depth |-> 0, td |-> 0, nf |-> FALSE, inBr |-> FALSE, calls |-> <<>>, termHere |-> FALSE, played |-> FALSE]
Events(i) == Traces[i].events
Ev == Events(tid)[l]
Has == tid <= NT /\ l <= Len(Events(tid))
Consume == l' = l + 1 /\ UNCHANGED tid

TInit == tid = 1 /\ l = 1 /\ o = (IF NT >= 1 THEN Start(1) ELSE [st |-> "-", depth |-> 0, td |-> 0, nf |-> FALSE, inBr |-> FALSE, calls |-> <<>>, termHere |-> FALSE, played |-> FALSE])

\* a top-level transition_to call (or a nested one: the failed-transition route) starts / ends
TS == Has /\ Ev[1] = "ts" /\ Consume
      /\ o' = [o EXCEPT !.depth = @ + 1, !.td = @ + 1, !.inBr = IF o.depth = 0 THEN FALSE ELSE @, !.played = FALSE,
                        !.nf = IF o.depth = 0 THEN FALSE ELSE (@ \/ o.td > 0)]
TE == Has /\ Ev[1] = "te" /\ o.depth > 0 /\ o.td > 0 /\ Consume /\ o' = [o EXCEPT !.depth = @ - 1, !.td = @ - 1]

\* ENTERED_STATE: along the lifecycle graph; out of a terminal state only into EXCEPTED and only inside the very
\* top-level call that entered it (a hook of the terminal entry raised: C03's failed-transition route)
Enter == Has /\ Ev[1] = "enter" /\ Consume
         /\ \/ (Ev[2] = o.st /\ <<Ev[2], Ev[3]>> \in Legal)
            \/ (Ev[2] = o.st /\ Ev[2] \in Terminal /\ Ev[3] = "EXCEPTED" /\ o.inBr /\ o.depth > 0)
            \* the entry into Ev[2] itself went unobserved: a callback registered earlier (the process's own
            \* on_entered) raised, and the failed transition is routed on to EXCEPTED from there
            \/ (Ev[2] # o.st /\ o.td >= 2 /\ <<o.st, Ev[2]>> \in Legal /\ Ev[3] = "EXCEPTED")
         /\ o' = [o EXCEPT !.st = Ev[3], !.inBr = @ \/ (Ev[3] \in Terminal), !.termHere = @ \/ (Ev[3] \in Terminal)]

\* a control call starts: remember the state it found
CS == Has /\ Ev[1] = "cs" /\ Consume
      /\ o' = [o EXCEPT !.calls = Append(@, [name |-> Ev[2], before |-> o.st, stable |-> o.td = 0]), !.depth = @ + 1, !.played = FALSE,
                        !.inBr = IF o.depth = 0 THEN FALSE ELSE @, !.nf = IF o.depth = 0 THEN FALSE ELSE @]
\* ... and ends: ["ce", name, ret, exc]
CE == Has /\ Ev[1] = "ce" /\ o.calls # <<>> /\ o.depth > 0 /\ Consume
      /\ LET c == o.calls[Len(o.calls)] IN
           /\ c.name = Ev[2]
           \* (inside a transition the label the specification knows may lag behind: callbacks registered earlier
           \*  run first; the clauses about the state a call found apply to calls made at stable points)
           /\ ((c.stable /\ c.before \in Terminal) => o.st = c.before)                     \* C01: terminal states are final
           /\ ((Ev[2] = "kill" /\ c.stable /\ c.before \in Live) => Ev[4] = "-")           \* C04: kill() never raises on a live process
           /\ ((Ev[2] = "kill" /\ Ev[3] = "True" /\ ~o.nf) => o.st = "KILLED")             \* ... answers True only when KILLED (no user hook failed)
           /\ ((Ev[2] = "kill" /\ c.stable /\ c.before \in Terminal) => Ev[3] = (IF c.before = "KILLED" THEN "True" ELSE "False"))
           /\ ((Ev[2] = "pause" /\ c.stable /\ c.before \in Terminal) => Ev[3] = "False")
           /\ ((Ev[2] = "resume" /\ c.stable /\ c.before # "WAITING") => Ev[4] = "EventError")
           \* C05: pause()/play() never raise by themselves (a user's pause/play hook that raises is reported to the caller: C03),
           \*      play() answers True and a pause on a live process answers True or hands back the pending action
           /\ ((Ev[2] = "play" /\ Ev[4] = "-") => Ev[3] = "True")
           /\ ((Ev[2] = "pause" /\ c.stable /\ c.before \in Live /\ Ev[4] = "-") => Ev[3] \in {"True", "fut", "False"})
      /\ o' = [o EXCEPT !.calls = SubSeq(@, 1, Len(@) - 1), !.depth = @ - 1,
                        !.played = (Ev[2] = "play" /\ Ev[4] = "-" /\ Len(o.calls) = 1 /\ o.depth = 1)]

\* the public projection at a stable point: ["obs", state, paused, future, closed, consistent]
Obs == Has /\ Ev[1] = "obs" /\ o.depth = 0 /\ Consume
       /\ Ev[2] = o.st
       /\ Ev[6] = TRUE                                                                   \* C02: the accessor family agrees
       /\ (Ev[2] \in Live => Ev[4] \in {"pending", "cancelled"})                           \* C02: never resolved while live
       /\ (Ev[2] = "FINISHED" => Ev[4] = "result")
       /\ (Ev[2] = "EXCEPTED" => Ev[4] = "exc")
       /\ (Ev[2] = "KILLED"   => Ev[4] = "killed")
       /\ (Ev[5] = "T" => Ev[2] \in Terminal)                                              \* closed only when terminated
       /\ (o.termHere => Ev[5] \in {"T", "?"})                                            \* terminated in this life => closed
       /\ (o.played => Ev[3] = FALSE)                                                    \* C05: play() leaves the process un-paused
       /\ UNCHANGED o

\* leave the current trace (accepted iff fully consumed) and start the next one: every trace gets a verdict
Leave == tid <= NT /\ tid' = tid + 1 /\ l' = 1 /\ o' = (IF tid + 1 <= NT THEN Start(tid + 1) ELSE o)

TNext == TS \/ TE \/ Enter \/ CS \/ CE \/ Obs \/ Leave
TSpec == TInit /\ [][TNext]_tvars

\* bookkeeping through TLC registers: 1 = accepted trace ids, 2 = longest matched prefix per trace   (-workers 1)
Book == /\ ((tid <= NT /\ l = Len(Events(tid)) + 1) => TLCSet(1, TLCGet(1) \cup {tid}))
        /\ ((tid <= NT) => TLCSet(2, [TLCGet(2) EXCEPT ![tid] = IF @ < l - 1 THEN l - 1 ELSE @]))
ASSUME TLCSet(1, {}) /\ TLCSet(2, [i \in 1..NT |-> 0])
Constraint == Book
Post == /\ PrintT(ToJson(<<"ACCEPTED", Cardinality(TLCGet(1)), NT>>))
        /\ \A i \in 1..NT : i \in TLCGet(1) \/ PrintT(ToJson(<<"REJECTED", i, TLCGet(2)[i], Len(Events(i))>>))
=============================================================================
