------------------------------ MODULE ProcessFaults ------------------------------
(***************************************************************************************************)
(* C03 - a failure in user code ends the process EXCEPTED, never half-transitioned.               *)
(*                                                                                                 *)
(* Plans here contain exactly one "fault" entry (hook, occurrence).  The behaviour with the fault  *)
(* runs in lockstep with a twin T of the same program without any plan that receives the same      *)
(* environment actions, so that "a listener's exception changes nothing" is a state invariant.     *)
(***************************************************************************************************)
EXTENDS ProcessProps

VARIABLES T, tready
fvars == <<S, ready, budget, T, tready>>

SilentHooks == {"L_running", "L_waiting", "L_paused", "L_played", "L_output", "L_finished", "L_excepted", "L_killed", "cleanup"}
PPHooks     == {"on_pausing", "on_paused", "on_playing"}

Faults(s)  == SelectSeq(s.log, LAMBDA e : e[1] = "fault")
Fired(s)   == Faults(s) # <<>>
FHook(s)   == Faults(s)[1][2]
FExc(s)    == Faults(s)[1][4]
\* a tolerated broadcast failure (closed connection, invalid channel, timeout) is as silent as a listener's exception
SilentEntry(p) == p.hook \in SilentHooks \/ (p.hook = "bcast" /\ p.arg \in Tolerated)
PlanIsSilent(s) == Plan(s) # <<>> /\ \A i \in 1..Len(Plan(s)) : SilentEntry(Plan(s)[i])

NoPlan == CHOOSE j \in 1..Len(Plans) : Plans[j] = <<>>

FInit == Init /\ T = InitS(S.pi, NoPlan) /\ tready = <<"task">>
\* the fault was injected while the process was being constructed (on_create, or the first announcement)
CtorFault(s) == Fired(s) /\ (FHook(s) = "on_create" \/ (FHook(s) = "bcast" /\ Faults(s)[1][3] = 1))

Twin(r) == IF PlanIsSilent(S) THEN T' = r.s /\ tready' = r.rdy ELSE UNCHANGED <<T, tready>>

FKill(t)    == EnvKill(t)  /\ Twin(StepKill(T, tready, t))
FPause(t)   == EnvPause(t) /\ Twin(StepPause(T, tready, t))
FPlay       == EnvPlay /\ Twin(StepPlay(T, tready))
FResume(v)  == EnvResume(v) /\ Twin(StepResume(T, tready, v))
FFail       == EnvFail /\ Twin(StepFail(T, tready))
FCallSoon(k) == EnvCallSoon(k) /\ Twin(StepCallSoon(T, tready, k))
FRpc(m)     == EnvRpc(m[1], m[2]) /\ Twin(Deliver(T, tready, "rpc", m[1], m[2]))
FRunHandle  == RunHandle /\ (IF PlanIsSilent(S) /\ tready # <<>> THEN Twin(StepRun(T, tready)) ELSE UNCHANGED <<T, tready>>)

FNext ==
  \/ \E t \in KillTexts  : FKill(t)
  \/ \E t \in PauseTexts : FPause(t)
  \/ FPlay
  \/ \E v \in ResumeVals : FResume(v)
  \/ FFail
  \/ FCallSoon("ok") \/ FCallSoon("raise")
  \/ \E m \in RpcMessages : FRpc(m)
  \/ FRunHandle

FSpec == FInit /\ [][FNext]_fvars

(* ---- the three classes of C03 --------------------------------------------------------------- *)
\* (a) user code / lifecycle hook after construction: EXCEPTED with exactly that exception, closed, future
\*     raises it, stepping returned normally, nothing escaped into the loop
C03_UserFault ==
  (CleanFor("C03") /\ Quiescent /\ Fired(S) /\ ~CtorFault(S) /\ FHook(S) \notin SilentHooks \cup PPHooks /\ ~PlanIsSilent(S)) =>
     /\ S.st = "EXCEPTED" /\ S.cur.val = FExc(S)
     /\ S.closed /\ S.fut = [st |-> "exc", val |-> FExc(S)]
     /\ S.task.pc = "done"
     /\ \A i \in 1..Len(S.log) : S.log[i][1] # "cbtaskfailed"

\* (a') ... during construction: the exception propagates to the caller of the constructor (no process, nothing scheduled)
C03_CtorFault == (CtorFault(S) /\ ~PlanIsSilent(S)) =>
                   (~S.born /\ S.log[Len(S.log)] = <<"ctor-raise", FExc(S)>> /\ ready = <<>>)

\* (b) a listener (or a cleanup callable) that raises changes nothing: same state as the twin, up to the fault marker
StripFault(s) == [s EXCEPT !.log = SelectSeq(@, LAMBDA e : e[1] # "fault"), !.pl = NoPlan]
C03_ListenerFault == (PlanIsSilent(S) /\ ~S.comm) => (StripFault(S) = T /\ ready = tready)
\* C16: a tolerated broadcast failure never disturbs the process (only the announcement itself is missing)
NoAnnounce(s) == [s EXCEPT !.log = SelectSeq(@, LAMBDA e : e[1] \notin {"fault", "bcast"}), !.pl = NoPlan]
C16_BroadcastFaultTolerated == (PlanIsSilent(S) /\ S.comm) => (NoAnnounce(S) = NoAnnounce(T) /\ ready = tready)
\* ... and loses exactly the one announcement
C16_OneAnnouncementLost == (PlanIsSilent(S) /\ S.comm) => Len(Announced(T)) - Len(Announced(S)) = Len(Faults(S))

\* (c) a pause / play hook that raises: reported to the requester, process live and controllable
PPCalls(s) == SelectSeq(s.log, LAMBDA e : e[1] = "call" /\ e[2] \in {"pause", "play"})
Reported(s) == \E i \in 1..Len(PPCalls(s)) : LET e == PPCalls(s)[i] IN
                  \/ e[5] = FExc(s)
                  \/ \E a \in 1..Len(s.acts) : e[4] = "act:" \o ToString(a) /\ s.acts[a].status = "failed:" \o FExc(s)
C03_PausePlayFault ==
  (CleanFor("C03") /\ Fired(S) /\ FHook(S) \in PPHooks) =>
     /\ Reported(S)
     /\ ~(S.st = "EXCEPTED" /\ S.cur.val = FExc(S))
     /\ S.st \in Live =>
          LET r == Kill(S, "probe") IN r.exc = NoExc /\
            LET e == Drain(Flush(r.s), ready \o r.s.sched) IN e.st = "KILLED" \/ StepFailed(e) \/ e.dev \cap DevOf("C04") # {}

C03_NoHalf == ~S.transitioning /\ ~S.failing
C03_NothingEscapes == (CleanFor("C03") /\ ~(Fired(S) /\ FHook(S) \in PPHooks)) =>
                        (S.task.pc # "failed" /\ \A i \in 1..Len(S.log) : S.log[i][1] # "cbtaskfailed")
=============================================================================
